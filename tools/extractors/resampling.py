"""`timeseries/_resampling.py` -> Lean definitions used by the resampler models (C07, C08).

Pure `ast`.  The pure parts of the anchored functions are *symbolically executed*: every local is replaced by what it
was computed from (so names, aliases like `conf = self._config`, hoisted locals and the order of independent
statements do not matter), `if`/`else`, early returns, guard clauses, conditional expressions and `not` all become
`if … then … else` terms, `x is None` tests on Optional values become `match`; `match` statements, assignment
expressions, private helpers of the same class / module (inlined at the call, early returns included), parameters
(found by position) and `and`/`or` (taken apart in short-circuit order) are understood as well.  The resulting value
tree is brought into a NORMAL FORM before it is printed (ordered decision tree over the atomic tests, flattened sorted
integer sums, one spelling per comparison — see `normal`), so behaviour-preserving refactors print the SAME text and
no proof can break, while a different function prints a different text.  Tests the extractor cannot read are kept
as opaque atoms: harmless if both outcomes give the same value, an error if they decide an extracted value.  What
comes out is the VALUE the code computes at a given point, as a Lean term over the inputs:

* `Resampler._calculate_window_end`            -> `calculateWindowEnd now period align_to`  (the returned pair)
* `Resampler.__init__`                         -> `firstTickTime loopNow period startDelay` (value stored in `_timer._next_tick_time`)
* `Resampler.resample`                         -> `advanceWindowEnd`, `gatherOverSnapshot`, `advanceOnError`
* `_ResamplingHelper._update_source_sample_period` -> `skipPeriodUpdate …` (path condition of `return False`), `minInputPeriodEstimate`
* `_ResamplingHelper._update_buffer_len`       -> `newBufferLenOf …` (the `maxlen` the deque is rebuilt with, clamps included)
* `_ResamplingHelper.resample`                 -> `relevanceLowKey`, `relevanceHighKey` (the keys of the bisections that bound the slice)
* `_StreamingHelper._receive_samples`          -> `acceptsSample isNone isNaN isInf` (path condition of `add_sample`)
* module constants and `ResamplerConfig` defaults.

`datetime`/`timedelta` are `Int` microseconds, `x.total_seconds()` the exact rational `x / 1_000_000`, `timedelta * float`
is `tdMulFloat` (exact product, half-even to 1 µs).  Anything outside the understood subset raises (the check then
treats the proofs as broken and searches for a failing input).
"""
from __future__ import annotations

import ast
import pathlib
import re
from fractions import Fraction

NAME = "Resampling"
SOURCES = ["src/frequenz/sdk/timeseries/_resampling.py"]


class Unsupported(Exception):
    pass


PRELUDE = """\
/-- Round a rational to the nearest integer, ties to even (CPython `_divide_and_round`). -/
def roundHalfEven (q : Rat) : Int :=
  let f := q.floor
  let r := q - (f : Rat)
  if r < 1 / 2 then f else if 1 / 2 < r then f + 1 else if f % 2 = 0 then f else f + 1

/-- `timedelta * float`: exact product of the microseconds with the float's exact ratio, rounded half-to-even. -/
def tdMulFloat (td : Int) (f : Rat) : Int := roundHalfEven ((td : Rat) * f)

/-- `timedelta.total_seconds()` as an exact rational. -/
def totalSeconds (td : Int) : Rat := (td : Rat) / 1000000

"""


# ------------------------------------------------------------------------------------------------ typed expressions
# Types: "Int" (time, µs), "Nat", "Rat", "OptInt", "Bool".
def find_class(tree: ast.Module, name: str) -> ast.ClassDef:
    for n in tree.body:
        if isinstance(n, ast.ClassDef) and n.name == name:
            return n
    raise Unsupported(f"class {name} not found")


def find_method(cls: ast.ClassDef, name: str) -> ast.FunctionDef | ast.AsyncFunctionDef:
    for n in cls.body:
        if isinstance(n, (ast.FunctionDef, ast.AsyncFunctionDef)) and n.name == name:
            return n
    raise Unsupported(f"method {cls.name}.{name} not found")


def strip_doc(body: list[ast.stmt]) -> list[ast.stmt]:
    if body and isinstance(body[0], ast.Expr) and isinstance(body[0].value, ast.Constant) and isinstance(body[0].value.value, str):
        return body[1:]
    return body


# ------------------------------------------------------------------------------------------------ pieces
def constants(tree: ast.Module) -> str:
    want = {"DEFAULT_BUFFER_LEN_INIT": "defaultBufferLenInit", "DEFAULT_BUFFER_LEN_MAX": "defaultBufferLenMax",
            "DEFAULT_BUFFER_LEN_WARN": "defaultBufferLenWarn"}
    out = []
    for n in tree.body:
        if isinstance(n, ast.Assign) and len(n.targets) == 1 and isinstance(n.targets[0], ast.Name) \
                and n.targets[0].id in want:
            if not (isinstance(n.value, ast.Constant) and isinstance(n.value.value, int) and n.value.value >= 0):
                raise Unsupported(f"{n.targets[0].id} is not a natural literal")
            out.append(f"def {want.pop(n.targets[0].id)} : Nat := {n.value.value}")
    if want:
        raise Unsupported(f"constants not found: {sorted(want)}")
    cfg = find_class(tree, "ResamplerConfig")
    defaults: dict[str, ast.expr] = {}
    for n in cfg.body:
        if isinstance(n, ast.AnnAssign) and isinstance(n.target, ast.Name) and n.value is not None:
            defaults[n.target.id] = n.value
    v = defaults.get("max_data_age_in_periods")
    if not (isinstance(v, ast.Constant) and isinstance(v.value, (int, float))):
        raise Unsupported("default of max_data_age_in_periods")
    fr = Fraction(v.value)
    out.append(f"def defaultMaxDataAgeInPeriods : Rat := ({fr.numerator} : Rat) / {fr.denominator}")
    for py, lean in (("initial_buffer_len", "defaultInitialBufferLen"), ("warn_buffer_len", "defaultWarnBufferLen"),
                     ("max_buffer_len", "defaultMaxBufferLen")):
        v = defaults.get(py)
        if v is None:
            raise Unsupported(f"default of {py}")
        src = ast.unparse(v)
        m = {"DEFAULT_BUFFER_LEN_INIT": "defaultBufferLenInit", "DEFAULT_BUFFER_LEN_MAX": "defaultBufferLenMax",
             "DEFAULT_BUFFER_LEN_WARN": "defaultBufferLenWarn"}
        if src in m:
            out.append(f"def {lean} : Nat := {m[src]}")
        elif isinstance(v, ast.Constant) and isinstance(v.value, int):
            out.append(f"def {lean} : Nat := {v.value}")
        else:
            raise Unsupported(f"default of {py}: {src}")
    v = defaults.get("align_to")
    if v is None:
        raise Unsupported("default of align_to")
    src = ast.unparse(v)
    if src == "UNIX_EPOCH":
        out.append("/-- default `align_to` (UNIX_EPOCH = 0 µs). -/\ndef defaultAlignTo : Option Int := some 0")
    elif src == "None":
        out.append("def defaultAlignTo : Option Int := none")
    else:
        raise Unsupported(f"default of align_to: {src}")
    # ResamplerConfig.__post_init__: the lower bound of max_data_age_in_periods
    post = find_method(cfg, "__post_init__")
    bound = None
    def below(t: ast.expr):  # type: ignore[no-untyped-def]
        """`c` when the test `t` says `self.max_data_age_in_periods < c` (in any of its spellings)."""
        neg = False
        while isinstance(t, ast.UnaryOp) and isinstance(t.op, ast.Not):
            t, neg = t.operand, not neg
        if not (isinstance(t, ast.Compare) and len(t.ops) == 1):
            return None
        a, op, b = t.left, t.ops[0], t.comparators[0]
        if isinstance(a, ast.Constant):  # c OP x  ->  x OP' c
            a, b = b, a
            op = {ast.Lt: ast.Gt, ast.Gt: ast.Lt, ast.LtE: ast.GtE, ast.GtE: ast.LtE}.get(type(op), type(None))()
        if not (ast.unparse(a) == "self.max_data_age_in_periods" and isinstance(b, ast.Constant)
                and isinstance(b.value, (int, float)) and not isinstance(b.value, bool)):
            return None
        # (`not (x >= c)` is NOT accepted: it differs from `x < c` on NaN, which the config lets through today)
        if isinstance(op, ast.Lt) and not neg:
            return Fraction(b.value)
        return None

    for s in ast.walk(post):
        if isinstance(s, ast.If) and below(s.test) is not None and any(isinstance(b, ast.Raise) for b in s.body):
            bound = below(s.test)
    if bound is None:
        raise Unsupported("max_data_age_in_periods lower-bound check not found")
    out.append(f"/-- `ResamplerConfig` rejects `max_data_age_in_periods` below this. -/\n"
               f"def minMaxDataAgeInPeriods : Rat := ({bound.numerator} : Rat) / {bound.denominator}")
    return "\n".join(out)


def bisect_import(tree: ast.Module) -> None:
    found = False
    for n in ast.walk(tree):
        if isinstance(n, ast.ImportFrom) and n.module == "bisect":
            for a in n.names:
                if (a.asname or a.name) in ("bisect", "bisect_right") and a.name not in ("bisect", "bisect_right"):
                    raise Unsupported(f"`{a.asname or a.name}` is bisect.{a.name}, not bisect_right")
            found = True
        if isinstance(n, ast.Import):
            for a in n.names:
                if a.name == "bisect" and a.asname in (None, "bisect"):
                    found = True
                elif (a.asname or a.name) == "bisect":
                    raise Unsupported(f"`bisect` is the module {a.name}")
        if isinstance(n, (ast.Assign, ast.AnnAssign, ast.FunctionDef, ast.AsyncFunctionDef, ast.ClassDef)):
            names = [n.name] if hasattr(n, "name") else [ast.unparse(t) for t in (n.targets if isinstance(n, ast.Assign) else [n.target])]
            if any(x in ("bisect", "bisect_right") for x in names):
                raise Unsupported("`bisect` is redefined in the module")
    if not found:
        raise Unsupported("`from bisect import bisect` not found")





# ------------------------------------------------------------------------------------------------ terms
# Values are small trees (tuples), not strings, so that they can be brought into a normal form before printing:
#   ("var", name) ("int", n) ("rat", num, den) ("op", name, ty, args)            -- if-free
#   ("ite", cond, a, b) ("match", opt, a_none, b_some)                           -- choices
#   ("const", bool) ("bvar", name) ("opaque", src) ("isnone", opt) ("cmp", op, x, y, ty)
#   ("not", c) ("and", cs) ("or", cs)                                            -- Bool-valued
# The normal form (`normal`) is an ordered decision tree: all choices are first lifted to the top (so every test is
# if-free and visible), then re-ordered: every `match` on an Optional input first (by name), then the Boolean inputs,
# then the comparisons (small ones first, independent of their spelling), equal branches merged, tests decided on the
# path — directly or by trichotomy of integer comparisons — dropped, equal integers substituted, and `x < y` against
# the canonical orientation replaced by `y < x` when both outcomes agree on `x = y` (max/min/clamps);
# the leaves are if-free, integer sums are flattened and sorted, `>`/`≥`/`≠`/`not` are expressed with `<`/`≤`/`=`
# (`a ≤ b` as `¬ b < a` on Int/Nat only — never on the rationals that stand for floats).  Two pieces of Python that
# compute the same function by differently arranged tests give the same text.
TRUE = ("const", True)
FALSE = ("const", False)
_PARAMS: list[str] = []  # parameter order of the definition being printed (orders sums / tests like the source does)


def V(name: str):  # type: ignore[no-untyped-def]
    return ("var", name)


def Lit(n: int):  # type: ignore[no-untyped-def]
    return ("int", int(n))


def Op(name: str, ty: str, *args):  # type: ignore[no-untyped-def]
    return ("op", name, ty, tuple(args))


OP_FMT = {
    "add": "({0} + {1})", "sub": "({0} - {1})", "mul": "({0} * {1})", "div": "({0} / {1})", "mod": "({0} % {1})",
    "neg": "(-{0})", "tdMulFloat": "(tdMulFloat {0} {1})", "totalSeconds": "(totalSeconds {0})",
    "ceil": "(Rat.ceil {0})", "int2rat": "(({0} : Int) : Rat)", "nat2rat": "((({0} : Nat) : Int) : Rat)",
    "nat2int": "(({0} : Nat) : Int)",
}


def render(t) -> str:  # type: ignore[no-untyped-def]
    k = t[0]
    if k == "var":
        return t[1]
    if k == "int":
        return f"({t[1]} : Int)"
    if k == "rat":
        return f"(({t[1]} : Rat) / {t[2]})"
    if k == "op":
        if t[2] == "Unk" or t[1] not in OP_FMT:
            raise Unsupported(f"a value computed from an un-narrowed Optional reaches an extracted term ({t[1]})")
        return OP_FMT[t[1]].format(*[render(a) for a in t[3]])
    if k == "const":
        return "true" if t[1] else "false"
    if k == "ite":
        return f"(if {render_prop(t[1])} then {render(t[2])} else {render(t[3])})"
    if k == "match":
        return f"(match {t[1]} with | none => {render(t[2])} | some {t[1]}_v => {render(t[3])})"
    if k == "opaque":
        raise Unsupported(f"a condition that is not understood decides an extracted value: {t[1][:80]}")
    raise Unsupported(f"cannot print {k}")


def render_prop(c) -> str:  # type: ignore[no-untyped-def]
    if c[0] == "cmp":
        return f"{render(c[2])} {c[1]} {render(c[3])}"
    if c[0] == "bvar":
        return f"{c[1]} = true"
    if c[0] == "prop":  # a decidable proposition given as Lean text (used by extractors built on this one)
        return c[1]
    if c[0] == "opaque":
        raise Unsupported(f"a condition that is not understood decides an extracted value: {c[1][:80]}")
    raise Unsupported(f"cannot print the test {c[0]}")


def if_free(t) -> bool:  # type: ignore[no-untyped-def]
    k = t[0]
    if k in ("var", "int", "rat"):
        return True
    if k == "op":
        return all(if_free(a) for a in t[3])
    return False


def mentions(t, name: str) -> bool:  # type: ignore[no-untyped-def]
    if not isinstance(t, tuple) or not t:
        return False
    if isinstance(t[0], str):
        if t[0] == "var":
            return t[1] == name
        return any(mentions(x, name) for x in t[1:] if isinstance(x, tuple))
    return any(mentions(x, name) for x in t)


def _vars(t, acc: set) -> set:  # type: ignore[no-untyped-def]
    if t[0] == "var":
        acc.add(t[1])
    elif t[0] == "op":
        for a in t[3]:
            _vars(a, acc)
    return acc


def _rank(name: str) -> int:
    base = name[:-2] if name.endswith("_v") else name
    return _PARAMS.index(base) if base in _PARAMS else 99


def key_of(t):  # type: ignore[no-untyped-def]
    """Order of if-free terms: variables in the order of the definition's parameters, literals last."""
    if t[0] in ("int", "rat"):
        return (1, 0, repr(t))
    vs = _vars(t, set())
    return (0, min([_rank(v) for v in vs], default=99), _safe_render(t))


def _safe_render(t) -> str:  # type: ignore[no-untyped-def]
    try:
        return render(t)
    except Unsupported:
        return repr(t)


# ---- integer sums: flattened, sorted
def _lin(t, sign: int, acc: dict) -> int:  # type: ignore[no-untyped-def]
    """Accumulate `sign * t` into `acc` (term -> coefficient); returns the constant part."""
    if t[0] == "int":
        return sign * t[1]
    if t[0] == "op" and t[2] == "Int":
        n, a = t[1], t[3]
        if n == "add":
            return _lin(a[0], sign, acc) + _lin(a[1], sign, acc)
        if n == "sub":
            return _lin(a[0], sign, acc) + _lin(a[1], -sign, acc)
        if n == "neg":
            return _lin(a[0], -sign, acc)
        if n == "mul" and a[1][0] == "int":
            sub: dict = {}
            c = _lin(a[0], 1, sub)
            for k, v in sub.items():
                acc[k] = acc.get(k, 0) + sign * v * a[1][1]
            return sign * c * a[1][1]
        if n == "mul" and a[0][0] == "int":
            sub = {}
            c = _lin(a[1], 1, sub)
            for k, v in sub.items():
                acc[k] = acc.get(k, 0) + sign * v * a[0][1]
            return sign * c * a[0][1]
    acc[t] = acc.get(t, 0) + sign
    return 0


def canon_int(t):  # type: ignore[no-untyped-def]
    acc: dict = {}
    c = _lin(t, 1, acc)
    pos = sorted([(k, v) for k, v in acc.items() if v > 0], key=lambda kv: key_of(kv[0]))
    neg = sorted([(k, -v) for k, v in acc.items() if v < 0], key=lambda kv: key_of(kv[0]))

    def scaled(k, v):  # type: ignore[no-untyped-def]
        return k if v == 1 else ("op", "mul", "Int", (k, Lit(v)))

    out = None
    for k, v in pos:
        out = scaled(k, v) if out is None else ("op", "add", "Int", (out, scaled(k, v)))
    if c > 0:
        out = Lit(c) if out is None else ("op", "add", "Int", (out, Lit(c)))
    if out is None:
        if not neg:
            return Lit(c)
        out = Lit(0)
    for k, v in neg:
        out = ("op", "sub", "Int", (out, scaled(k, v)))
    if c < 0:
        out = ("op", "sub", "Int", (out, Lit(-c)))
    return out


def canon_op(name: str, ty: str, args: tuple):  # type: ignore[no-untyped-def]
    t = ("op", name, ty, args)
    if not all(if_free(a) for a in args) or ty == "Unk":
        return t
    if ty == "Int" and name in ("add", "sub", "neg", "mul"):
        if name == "mul" and args[0][0] != "int" and args[1][0] != "int":
            a, b = sorted(args, key=key_of)
            return ("op", "mul", "Int", (a, b))
        return canon_int(t)
    if name in ("add", "mul") and ty in ("Nat", "Rat"):
        a, b = sorted(args, key=key_of)
        return ("op", name, ty, (a, b))
    return t


# ---- comparisons
def mkcmp(op: str, x, y, ty: str):  # type: ignore[no-untyped-def]
    """Canonical comparison: only `<`, `≤` (rationals), `=`; may return a constant or a negation."""
    if op == ">":
        return mkcmp("<", y, x, ty)
    if op == "≥":
        return mkcmp("≤", y, x, ty)
    if op == "≠":
        return mknot(mkcmp("=", x, y, ty))
    if if_free(x) and if_free(y):
        if x == y:
            return TRUE if op in ("≤", "=") else FALSE
        if x[0] == "int" and y[0] == "int":
            return TRUE if {"<": x[1] < y[1], "≤": x[1] <= y[1], "=": x[1] == y[1]}[op] else FALSE
        if op == "≤" and ty in ("Int", "Nat"):
            return mknot(("cmp", "<", y, x, ty))
        if op == "=":
            x, y = sorted((x, y), key=key_of)
    return ("cmp", op, x, y, ty)


def mknot(c):  # type: ignore[no-untyped-def]
    if c[0] == "const":
        return FALSE if c[1] else TRUE
    if c[0] == "not":
        return c[1]
    return ("not", c)


def implied(a, env: dict):  # type: ignore[no-untyped-def]
    """What the decisions taken on the path say about the integer comparison `a` (trichotomy), or None."""
    if a[4] not in ("Int", "Nat") or not (if_free(a[2]) and if_free(a[3])):
        return None
    x, y = a[2], a[3]
    lt, gt = env.get(("cmp", "<", x, y, a[4])), env.get(("cmp", "<", y, x, a[4]))
    p, q = sorted((x, y), key=key_of)
    eq = env.get(("cmp", "=", p, q, a[4]))
    if a[1] == "<":
        if gt is True or eq is True:
            return False
        if gt is False and eq is False:
            return True
    if a[1] == "=":
        if lt is True or gt is True:
            return False
        if lt is False and gt is False:
            return True
    return None


def equal_sides(a, val: bool, env: dict):  # type: ignore[no-untyped-def]
    """(from, to) when deciding `a := val` on a path with `env` makes the two sides of `a` equal integers."""
    if a[0] != "cmp" or a[4] not in ("Int", "Nat"):
        return None
    x, y = a[2], a[3]
    if a[1] == "=" and val:
        pass
    elif a[1] == "<" and not val and env.get(("cmp", "<", y, x, a[4])) is False:
        pass
    else:
        return None
    if x[0] == "int":
        return (y, x)
    if y[0] == "int":
        return (x, y)
    p, q = sorted((x, y), key=key_of)
    return (q, p)


def simp(t, env: dict):  # type: ignore[no-untyped-def]
    k = t[0]
    if k in ("var", "int", "rat", "const"):
        return t
    if k == "op":
        return canon_op(t[1], t[2], tuple(simp(a, env) for a in t[3]))
    if k == "ite":
        c = simp(t[1], env)
        if c[0] == "const":
            return simp(t[2] if c[1] else t[3], env)
        a, b = simp(t[2], env), simp(t[3], env)
        return a if a == b else ("ite", c, a, b)
    if k == "match":
        st = env.get(("opt", t[1]))
        if st is not None:
            return simp(t[2] if st else t[3], env)
        a, b = simp(t[2], env), simp(t[3], env)
        return a if a == b and not mentions(b, t[1] + "_v") else ("match", t[1], a, b)
    if k == "isnone":
        st = env.get(("opt", t[1]))
        return t if st is None else (TRUE if st else FALSE)
    if k in ("bvar", "opaque", "prop"):
        st = env.get(t)
        return t if st is None else (TRUE if st else FALSE)
    if k == "cmp":
        c = mkcmp(t[1], simp(t[2], env), simp(t[3], env), t[4])
        neg = c[0] == "not"
        a = c[1] if neg else c
        if a[0] == "cmp":
            v = env[a] if a in env else implied(a, env)
            if v is not None:
                return TRUE if v != neg else FALSE
        return c
    if k == "not":
        return mknot(simp(t[1], env))
    if k in ("and", "or"):
        out = []
        for c in t[1]:
            c = simp(c, env)
            if c[0] == "const":
                if c[1] == (k == "or"):
                    return c
                continue
            out.append(c)
        if not out:
            return TRUE if k == "and" else FALSE
        return out[0] if len(out) == 1 else (k, tuple(out))
    raise Unsupported(f"simp {k}")


def ready_atoms(t, acc: set) -> set:  # type: ignore[no-untyped-def]
    k = t[0]
    if k == "op":
        for a in t[3]:
            ready_atoms(a, acc)
    elif k == "ite":
        for a in t[1:]:
            ready_atoms(a, acc)
    elif k == "match":
        acc.add(("opt", t[1]))
        ready_atoms(t[2], acc)
        ready_atoms(t[3], acc)
    elif k == "isnone":
        acc.add(("opt", t[1]))
    elif k in ("bvar", "opaque", "prop"):
        acc.add(t)
    elif k == "cmp":
        if if_free(t[2]) and if_free(t[3]):
            acc.add(t)
        else:
            ready_atoms(t[2], acc)
            ready_atoms(t[3], acc)
    elif k == "not":
        ready_atoms(t[1], acc)
    elif k in ("and", "or"):
        for c in t[1]:
            ready_atoms(c, acc)
    return acc


def first_atoms(t, acc: set) -> set:  # type: ignore[no-untyped-def]
    """The tests a lazy evaluation of `t` meets first (conditions before branches, outermost first)."""
    k = t[0]
    if k == "op":
        for a in t[3]:
            first_atoms(a, acc)
    elif k == "ite":
        first_atoms(t[1], acc)
    elif k in ("match", "isnone"):
        acc.add(("opt", t[1]))
    elif k in ("bvar", "opaque", "prop"):
        acc.add(t)
    elif k == "cmp":
        if if_free(t[2]) and if_free(t[3]):
            acc.add(t)
        else:
            first_atoms(t[2], acc)
            first_atoms(t[3], acc)
    elif k == "not":
        first_atoms(t[1], acc)
    elif k in ("and", "or"):
        for c in t[1]:
            first_atoms(c, acc)
    return acc


def size_of(t) -> int:  # type: ignore[no-untyped-def]
    return 1 + sum(size_of(a) for a in t[3]) if t[0] == "op" else 1


def atom_order(a):  # type: ignore[no-untyped-def]
    """Options, then Boolean inputs, then comparisons: small ones first, independent of how they are spelled."""
    if a[0] == "opt":
        return (0, _rank(a[1]), a[1])
    if a[0] == "bvar":
        return (1, _rank(a[1]), a[1])
    if a[0] == "prop":
        return (1, 50, a[1])
    if a[0] == "cmp":
        kx, ky = sorted([key_of(a[2]), key_of(a[3])])
        return (2, size_of(a[2]) + size_of(a[3]), kx, ky, a[1])
    return (3, 0, a[1])


def replace(t, frm, to):  # type: ignore[no-untyped-def]
    if t == frm:
        return to
    if isinstance(t, tuple):
        return tuple(replace(x, frm, to) if isinstance(x, tuple) else x for x in t)
    return t


def expand(t, env: dict, depth: int = 0, pick=ready_atoms):  # type: ignore[no-untyped-def]
    if depth > 24:
        raise Unsupported("too many nested tests in an extracted value")
    t = simp(t, env)
    atoms = pick(t, set())
    if not atoms:
        if not (if_free(t) or t[0] == "const"):
            raise Unsupported(f"cannot normalise {t[0]}")
        return t
    a = min(atoms, key=atom_order)

    def side(val: bool):  # type: ignore[no-untyped-def]
        e2 = {**env, a: val}
        eq = equal_sides(a, val, env)
        return expand(replace(t, *eq) if eq else t, e2, depth + 1, pick)

    hi, lo = side(True), side(False)
    if a[0] == "opt":
        if hi == lo and not mentions(lo, a[1] + "_v"):
            return hi
        return ("match", a[1], hi, lo)
    if hi == lo:
        return hi
    if pick is ready_atoms and a[0] == "cmp" and a[1] == "<" and a[4] in ("Int", "Nat") and key_of(a[2]) > key_of(a[3]):
        # `x < y` spelled against the canonical orientation: it is `not (y < x)` except on `x = y`; when both outcomes
        # give the same value there (max/min, clamps), test `y < x` instead — one spelling for both
        x, y = a[2], a[3]
        frm, to = (y, x) if x[0] == "int" else (x, y)
        try:
            same = expand(replace(hi, frm, to), dict(env), depth + 1, pick) == expand(replace(lo, frm, to), dict(env), depth + 1, pick)
        except Unsupported:
            same = False
        if same:
            return ("ite", ("cmp", "<", y, x, a[4]), lo, hi)
    return ("ite", a, hi, lo)


def normal(t, params: list[str]) -> str:  # type: ignore[no-untyped-def]
    """The Lean text of the normal form of `t` inside a definition with parameters `params`."""
    global _PARAMS
    _PARAMS = list(params)
    try:
        lifted = expand(t, {}, 0, first_atoms)  # every choice lifted to the top: all tests are now if-free and visible
        return render(expand(lifted, {}))
    finally:
        _PARAMS = []


# ------------------------------------------------------------------------------------------------ symbolic values
class Num:
    """A term (tree, see above) of type Int / Nat / Rat / Bool / OptInt / Unk."""

    def __init__(self, term, ty: str):  # type: ignore[no-untyped-def]
        self.term, self.ty = term, ty

    def __repr__(self) -> str:
        return f"Num({self.term}:{self.ty})"


class Obj:
    """A symbolic object identified by an access path (`self._config`, …)."""

    def __init__(self, path: str):
        self.path = path


class Tup:
    def __init__(self, items: list):
        self.items = items


class NoneV:
    pass


class Opaque:
    """Something the extraction does not need to understand (it must never reach an extracted term)."""

    def __init__(self, why: str):
        self.why = why


class Est:
    """The float estimate of the input period, with the lower clamp (µs) applied to it."""

    def __init__(self, floor: int):
        self.floor = floor


class KeyFn:
    """A key function that reads one attribute of its argument."""

    def __init__(self, attr: str):
        self.attr = attr


class Bisect:
    def __init__(self, key: "Num"):
        self.key = key


class Slice:
    def __init__(self, lo, hi):  # type: ignore[no-untyped-def]
        self.lo, self.hi = lo, hi


class SampleV:
    """`Sample(<timestamp>, …)`."""

    def __init__(self, ts):  # type: ignore[no-untyped-def]
        self.ts = ts


class Bottom:
    """The target statement is not reached on this path."""


def cast(t, ty: str, to: str):  # type: ignore[no-untyped-def]
    if ty == to:
        return t
    if to == "Rat" and ty == "Int":
        return Op("int2rat", "Rat", t)
    if to == "Rat" and ty == "Nat":
        return Op("nat2rat", "Rat", t)
    if to == "Int" and ty == "Nat":
        return Op("nat2int", "Int", t)
    raise Unsupported(f"cast {ty} -> {to}")


def unify(a: Num, b: Num):  # type: ignore[no-untyped-def]
    order = ["Nat", "Int", "Rat"]
    if "Unk" in (a.ty, b.ty):
        raise Unsupported("a value computed from an un-narrowed Optional is used")
    if a.ty == b.ty:
        return a.term, b.term, a.ty
    if a.ty in order and b.ty in order:
        ty = order[max(order.index(a.ty), order.index(b.ty))]
        return cast(a.term, a.ty, ty), cast(b.term, b.ty, ty), ty
    raise Unsupported(f"cannot unify {a.ty} and {b.ty}")


NONE_AS: dict = {}  # type of an Optional-valued term -> the term that stands for `None` (set by extractors built on this one)


def none_as(a, b):  # type: ignore[no-untyped-def]
    """`None` meeting a term of a registered Optional type becomes that type's `none` term."""
    if isinstance(a, NoneV) and isinstance(b, Num) and b.ty in NONE_AS:
        return Num(NONE_AS[b.ty], b.ty), b
    if isinstance(b, NoneV) and isinstance(a, Num) and a.ty in NONE_AS:
        return a, Num(NONE_AS[a.ty], a.ty)
    return a, b


def ite(c: Num, a, b):  # type: ignore[no-untyped-def]
    """`if c then a else b` over symbolic values (paths that do not reach the target are dropped)."""
    if isinstance(a, Bottom):
        return b
    if isinstance(b, Bottom):
        return a
    a, b = none_as(a, b)
    if isinstance(a, Tup) and isinstance(b, Tup) and len(a.items) == len(b.items):
        return Tup([ite(c, x, y) for x, y in zip(a.items, b.items)])
    if isinstance(a, Num) and isinstance(b, Num):
        if a.term == b.term and a.ty == b.ty:
            return a
        if a.ty == "Bool" and b.ty == "Bool":
            return Num(("ite", c.term, a.term, b.term), "Bool")
        if "OptInt" in (a.ty, b.ty) or "Unk" in (a.ty, b.ty):
            return Opaque("Optional values that differ between branches")
        x, y, ty = unify(a, b)
        return Num(("ite", c.term, x, y), ty)
    if isinstance(a, Est) and isinstance(b, Est) and a.floor == b.floor:
        return a
    if isinstance(a, Obj) and isinstance(b, Obj) and a.path == b.path:
        return a
    if isinstance(a, NoneV) and isinstance(b, NoneV):
        return a
    if isinstance(a, Bisect) and isinstance(b, Bisect):
        k = ite(c, a.key, b.key)
        return Bisect(k) if isinstance(k, Num) else Opaque("bisect keys")
    if isinstance(a, Slice) and isinstance(b, Slice):
        return Slice(ite(c, a.lo, b.lo), ite(c, a.hi, b.hi))
    if isinstance(a, SampleV) and isinstance(b, SampleV):
        return SampleV(ite(c, a.ts, b.ts))
    return Opaque("values that differ between branches")


def describe(v) -> str:  # type: ignore[no-untyped-def]
    """A short text for a value in an effect record."""
    if isinstance(v, Obj):
        return v.path
    if isinstance(v, Num):
        try:
            return _safe_render(simp(v.term, {}))
        except Unsupported:
            return _safe_render(v.term)
    if isinstance(v, NoneV):
        return "None"
    return "?"


def has_side_effects(fn) -> bool:  # type: ignore[no-untyped-def]
    for n in ast.walk(fn):
        if isinstance(n, (ast.Assign, ast.AugAssign, ast.AnnAssign)):
            ts = n.targets if isinstance(n, ast.Assign) else [n.target]
            for t in ts:
                for x in ast.walk(t):
                    if isinstance(x, (ast.Attribute, ast.Subscript)):
                        return True
        if isinstance(n, (ast.Delete, ast.Global, ast.Nonlocal)):
            return True
    return False


def desugar_match(s: ast.Match) -> ast.stmt:
    """`match subject: case …` over `None` / literals / `_` / a capture / `p1 | p2`, with guards -> an if/elif chain."""
    subj = s.subject

    def test_of(p: ast.pattern) -> tuple[ast.expr | None, list[ast.stmt]]:
        if isinstance(p, ast.MatchSingleton):
            if p.value is None:
                return ast.Compare(subj, [ast.Is()], [ast.Constant(None)]), []
            return (subj if p.value else ast.UnaryOp(ast.Not(), subj)), []
        if isinstance(p, ast.MatchValue):
            return ast.Compare(subj, [ast.Eq()], [p.value]), []
        if isinstance(p, ast.MatchAs) and p.pattern is None:
            if p.name is None:
                return None, []
            return None, [ast.Assign([ast.Name(p.name, ast.Store())], subj, lineno=0)]
        if isinstance(p, ast.MatchOr):
            parts = [test_of(q) for q in p.patterns]
            if any(b for _, b in parts):
                raise Unsupported("match: captures inside an or-pattern")
            if any(t is None for t, _ in parts):
                return None, []
            return ast.BoolOp(ast.Or(), [t for t, _ in parts]), []
        raise Unsupported(f"match pattern {type(p).__name__}")

    chain: list[ast.stmt] = []
    for case in reversed(s.cases):
        t, binds = test_of(case.pattern)
        if case.guard is not None:
            if binds:
                # the guard may use the captured name: substitute the subject for it
                nm = binds[0].targets[0].id  # type: ignore[attr-defined]

                class Sub(ast.NodeTransformer):
                    def visit_Name(self, n: ast.Name):  # type: ignore[no-untyped-def]
                        return subj if n.id == nm else n

                import copy
                g = Sub().visit(copy.deepcopy(case.guard))
            else:
                g = case.guard
            t = g if t is None else ast.BoolOp(ast.And(), [t, g])
        body = binds + list(case.body)
        if t is None:
            chain = body
        else:
            chain = [ast.If(t, body, chain, lineno=0)]
    return ast.If(ast.Constant(True), chain or [ast.Pass()], [], lineno=0)


class Sym:
    """Symbolic execution of straight-line / branching code (continuation passing).

    `env` maps local names and attribute paths to values; `env["<path>"]` is the tuple of decisions taken so far and
    `env["<fx>"]` the tuple of effects (attribute stores, method calls on tracked objects, reads of watched leaves)
    seen so far on this path.  Calls of private helpers of the same class / module are inlined."""

    def __init__(self, leaves: dict, cls: ast.ClassDef | None = None, module: ast.Module | None = None,
                 calls: dict | None = None, no_inline: tuple = (), optobjs: dict | None = None, watch: tuple = ()):
        self.leaves = leaves  # access path -> Num
        self.calls = calls or {}  # source text of a call -> value
        self.methods = {n.name: n for n in (cls.body if cls else [])
                        if isinstance(n, (ast.FunctionDef, ast.AsyncFunctionDef))}
        self.clsname = cls.name if cls else None
        self.functions = {n.name: n for n in (module.body if module else [])
                          if isinstance(n, (ast.FunctionDef, ast.AsyncFunctionDef))}
        self.constants = {}  # module-level `NAME = <expr>` assigned exactly once
        for n in (module.body if module else []):
            if isinstance(n, (ast.Assign, ast.AnnAssign)) and n.value is not None:
                for t in (n.targets if isinstance(n, ast.Assign) else [n.target]):
                    if isinstance(t, ast.Name):
                        self.constants[t.id] = None if t.id in self.constants else n.value
        self.constants = {k: v for k, v in self.constants.items() if v is not None}
        self.no_inline = set(no_inline)
        self.optobjs = optobjs or {}  # Obj path -> Bool term "is None"
        self.watch = set(watch)
        self.ends: list = []  # (path, effects) of every completed path
        self.special = None  # hook: (sym, call node, env) -> value | None, asked before anything else
        self.depth = 0
        self.tmp = 0

    # ------------------------------------------------------------------ bookkeeping
    @staticmethod
    def note(env: dict, fx: tuple) -> None:
        env["<fx>"] = env.get("<fx>", ()) + (fx,)

    def end(self, env: dict):  # type: ignore[no-untyped-def]
        self.ends.append((env.get("<path>", ()), env.get("<fx>", ())))
        return Bottom()

    def leaf(self, key: str, env: dict):  # type: ignore[no-untyped-def]
        if key in self.watch:
            self.note(env, ("read", key))
        return self.leaves[key]

    # ------------------------------------------------------------------ helpers of the same class / module
    def helper_of(self, n: ast.Call, env: dict):  # type: ignore[no-untyped-def]
        """(function def, bound?) when `n` calls a private helper whose body is to be inlined."""
        if ast.unparse(n) in self.calls or ast.unparse(n) in self.leaves:
            return None
        f = n.func
        fn = None
        bound = False
        if isinstance(f, ast.Attribute) and isinstance(f.value, ast.Name):
            base = env.get(f.value.id) if f.value.id in env else (Obj("self") if f.value.id == "self" else None)
            if isinstance(base, Obj) and base.path == "self" and f.attr in self.methods:
                fn, bound = self.methods[f.attr], True
            elif f.value.id == self.clsname and f.attr in self.methods:
                fn, bound = self.methods[f.attr], False
        elif isinstance(f, ast.Name) and f.id in self.functions and f.id not in env:
            fn, bound = self.functions[f.id], False
        if fn is None or fn.name in self.no_inline:
            return None
        decos = {ast.unparse(d) for d in fn.decorator_list}
        if decos - {"staticmethod", "classmethod"}:
            return None
        if any(isinstance(x, (ast.Yield, ast.YieldFrom)) for x in ast.walk(fn)):
            return None
        if "staticmethod" in decos:
            bound = False
        elif "classmethod" in decos:
            bound = True
        elif not bound and fn.name in self.methods and isinstance(f, ast.Attribute):
            return None  # Class.method(obj, …): not understood
        return fn, bound

    def bind(self, fn, bound: bool, n: ast.Call, env: dict) -> dict:  # type: ignore[no-untyped-def]
        a = fn.args
        if a.vararg or a.kwarg:
            raise Unsupported(f"helper {fn.name} with *args/**kwargs")
        pos = [x.arg for x in a.posonlyargs + a.args]
        cenv: dict = {k: v for k, v in env.items() if "." in k or k.startswith("<")}
        if bound:
            cenv[pos[0]] = Obj("self")
            pos = pos[1:]
        defaults = dict(zip(pos[len(pos) - len(a.defaults):], a.defaults)) if a.defaults else {}
        for k, d in zip(a.kwonlyargs, a.kw_defaults):
            if d is not None:
                defaults[k.arg] = d
        names = pos + [k.arg for k in a.kwonlyargs]
        given: dict = {}
        if len(n.args) > len(pos) or any(isinstance(x, ast.Starred) for x in n.args):
            raise Unsupported(f"call of helper {fn.name}")
        for p, x in zip(pos, n.args):
            given[p] = self.ev(x, env)
        for k in n.keywords:
            if k.arg is None or k.arg not in names or k.arg in given:
                raise Unsupported(f"call of helper {fn.name}")
            given[k.arg] = self.ev(k.value, env)
        for p in names:
            if p in given:
                cenv[p] = given[p]
            elif p in defaults:
                cenv[p] = self.ev(defaults[p], {})
            else:
                raise Unsupported(f"call of helper {fn.name}: missing argument {p}")
        return cenv

    def pure_call(self, fn, bound: bool, n: ast.Call, env: dict):  # type: ignore[no-untyped-def]
        """The value a helper returns, for a call in a conditionally evaluated position (no effects allowed)."""
        if has_side_effects(fn):
            raise Unsupported(f"helper {fn.name} with side effects is called inside an expression")
        if self.depth > 8:
            raise Unsupported("helper calls nested too deeply")
        cenv = self.bind(fn, bound, n, env)

        def target(s: ast.stmt, e: dict):  # type: ignore[no-untyped-def]
            if isinstance(s, ast.Return):
                v = self.ev(s.value, e) if s.value is not None else NoneV()
                self.ends.append((e.get("<path>", ()), e.get("<fx>", ())))
                return v
            return None

        self.depth += 1
        saved = self.ends
        self.ends = []
        before = env.get("<fx>", ())
        try:
            r = self.run(strip_doc(fn.body) + [ast.Return(None)], cenv, target)
            inner = self.ends
        finally:
            self.depth -= 1
            self.ends = saved
        for _, fx in inner:  # what the helper read (on any of its paths) was read by the caller here
            for f in fx[len(before):]:
                if f not in env.get("<fx>", ())[len(before):]:
                    self.note(env, f)
        return Opaque(f"helper {fn.name} returns nothing") if isinstance(r, Bottom) else r

    def hoist(self, s: ast.stmt, env: dict) -> list[ast.stmt] | None:
        """Helper calls that `s` evaluates unconditionally, moved into `tmp = call` statements before it."""
        import copy
        field = {ast.Assign: "value", ast.AnnAssign: "value", ast.AugAssign: "value", ast.Expr: "value",
                 ast.Return: "value", ast.If: "test"}.get(type(s))
        if field is None or getattr(s, field) is None:
            return None
        e0 = getattr(s, field)
        if isinstance(s, (ast.Assign, ast.AnnAssign, ast.Expr)):
            c = e0.value if isinstance(e0, ast.Await) else e0
            if isinstance(c, ast.Call) and self.helper_of(c, env):
                return None  # already in the form `x = helper(…)`
        if not any(isinstance(x, ast.Call) and self.helper_of(x, env) for x in ast.walk(e0)):
            return None
        pre: list[ast.stmt] = []
        sym = self

        def go(e: ast.expr) -> ast.expr:
            if isinstance(e, ast.Await) and isinstance(e.value, ast.Call) and sym.helper_of(e.value, env):
                e = e.value
            if isinstance(e, ast.Call) and sym.helper_of(e, env):
                e.args = [go(x) for x in e.args]
                for k in e.keywords:
                    k.value = go(k.value)
                sym.tmp += 1
                name = f"__h{sym.tmp}"
                pre.append(ast.Assign([ast.Name(name, ast.Store())], e, lineno=0))
                return ast.Name(name, ast.Load())
            if isinstance(e, ast.IfExp):
                e.test = go(e.test)
                return e
            if isinstance(e, ast.BoolOp):
                e.values[0] = go(e.values[0])
                return e
            if isinstance(e, ast.Compare):
                e.left = go(e.left)
                e.comparators[0] = go(e.comparators[0])
                return e
            if isinstance(e, (ast.Lambda, ast.ListComp, ast.SetComp, ast.DictComp, ast.GeneratorExp, ast.NamedExpr)):
                return e
            for f, v in ast.iter_fields(e):
                if isinstance(v, ast.expr):
                    setattr(e, f, go(v))
                elif isinstance(v, list):
                    setattr(e, f, [go(x) if isinstance(x, ast.expr) else x for x in v])
                elif isinstance(v, ast.keyword):
                    v.value = go(v.value)
            if isinstance(e, ast.Call):
                for k in e.keywords:
                    k.value = go(k.value)
            return e

        s2 = copy.copy(s)
        setattr(s2, field, go(copy.deepcopy(e0)))
        return pre + [s2] if pre else None

    # ------------------------------------------------------------------ expressions
    def ev(self, n: ast.expr, env: dict):  # type: ignore[no-untyped-def]
        src = ast.unparse(n)
        if src in self.calls:
            return self.calls[src]
        if isinstance(n, ast.Await):
            return self.ev(n.value, env)
        if isinstance(n, ast.NamedExpr):
            v = self.ev(n.value, env)
            env[n.target.id] = v
            return v
        if isinstance(n, ast.Lambda) or (isinstance(n, ast.Call) and ast.unparse(n.func) in ("attrgetter", "operator.attrgetter")):
            k = self.key_of(n, env)
            return KeyFn(k) if k is not None else Opaque(src[:40])
        if isinstance(n, ast.Name):
            if n.id in env:
                return env[n.id]
            if n.id == "self":
                return Obj("self")
            return Opaque(f"name {n.id}")
        if isinstance(n, ast.Constant):
            if n.value is None:
                return NoneV()
            if isinstance(n.value, bool):
                return Num(TRUE if n.value else FALSE, "Bool")
            if isinstance(n.value, int):
                return Num(Lit(n.value), "Int")
            if isinstance(n.value, float):
                fr = Fraction(n.value)
                return Num(("rat", fr.numerator, fr.denominator), "Rat")
            return Opaque("constant")
        if isinstance(n, ast.Tuple):
            return Tup([self.ev(e, env) for e in n.elts])
        if isinstance(n, ast.Attribute):
            if src == "timedelta.resolution":
                return Num(Lit(1), "Int")
            base = self.ev(n.value, env)
            if isinstance(base, Obj):
                path = f"{base.path}.{n.attr}"
                if path in env:
                    return env[path]
                if path in self.leaves:
                    return self.leaf(path, env)
                if base.path == "self" and n.attr in self.methods and \
                        any(ast.unparse(d) == "property" for d in self.methods[n.attr].decorator_list):
                    fake = ast.Call(ast.Attribute(ast.Name("self", ast.Load()), n.attr, ast.Load()), [], [])
                    fn = self.methods[n.attr]
                    saved = fn.decorator_list
                    fn.decorator_list = []
                    try:
                        return self.pure_call(fn, True, fake, env)
                    finally:
                        fn.decorator_list = saved
                return Obj(path)
            return Opaque(f"attribute {src}")
        if isinstance(n, ast.UnaryOp) and isinstance(n.op, ast.Not):
            return self.cond(n, env)
        if isinstance(n, ast.UnaryOp) and isinstance(n.op, ast.USub):
            v = self.ev(n.operand, env)
            if isinstance(v, Num) and v.ty in ("Int", "Rat"):
                return Num(Op("neg", v.ty, v.term), v.ty)
            return Opaque(src)
        if isinstance(n, (ast.BoolOp, ast.Compare)):
            return self.cond(n, env)
        if isinstance(n, ast.IfExp):
            return self.branch(n.test, env, lambda e: self.ev(n.body, e), lambda e: self.ev(n.orelse, e))
        if isinstance(n, ast.BinOp):
            a, b = self.ev(n.left, env), self.ev(n.right, env)
            names = {ast.Add: "add", ast.Sub: "sub", ast.Mult: "mul", ast.Div: "div", ast.Mod: "mod"}
            nm = next((v for k, v in names.items() if isinstance(n.op, k)), None)
            if isinstance(a, Num) and isinstance(b, Num) and (a.ty in ("OptInt", "Unk") or b.ty in ("OptInt", "Unk")):
                # an Optional the code has narrowed by a guard we do not track: usable for shape recognition only
                return Num(Op(nm or "?", "Unk", a.term, b.term), "Unk")
            if not (isinstance(a, Num) and isinstance(b, Num)) or "Bool" in (a.ty, b.ty) or nm is None:
                return Opaque(src)
            if nm == "mul":
                if a.ty == "Int" and b.ty == "Rat":
                    return Num(Op("tdMulFloat", "Int", a.term, b.term), "Int")
                if a.ty == "Rat" and b.ty == "Int":
                    return Num(Op("tdMulFloat", "Int", b.term, a.term), "Int")
                x, y, ty = unify(a, b)
                return Num(Op("mul", ty, x, y), ty)
            if nm in ("add", "sub"):
                x, y, ty = unify(a, b)
                if ty == "Nat" and nm == "sub":  # Python integers do not truncate
                    x, y, ty = cast(x, "Nat", "Int"), cast(y, "Nat", "Int"), "Int"
                return Num(Op(nm, ty, x, y), ty)
            if nm == "div":
                return Num(Op("div", "Rat", cast(a.term, a.ty, "Rat"), cast(b.term, b.ty, "Rat")), "Rat")
            if nm == "mod" and a.ty == b.ty == "Int":
                return Num(Op("mod", "Int", a.term, b.term), "Int")  # timedelta % timedelta: floor mod = Int.emod (divisor > 0)
            return Opaque(src)
        if isinstance(n, ast.Call):
            return self.call(n, env)
        if isinstance(n, ast.Subscript) and isinstance(n.slice, ast.Constant) and isinstance(n.slice.value, int):
            base = self.ev(n.value, env)
            if isinstance(base, Tup) and 0 <= n.slice.value < len(base.items):
                return base.items[n.slice.value]
            return Opaque(src)
        if isinstance(n, ast.Subscript) and isinstance(n.slice, ast.Slice) and n.slice.step is None \
                and n.slice.lower is not None and n.slice.upper is not None:
            base = self.ev(n.value, env)
            if isinstance(base, Obj) and base.path == "<list(self._buffer)>":
                return Slice(self.ev(n.slice.lower, env), self.ev(n.slice.upper, env))
            return Opaque(src)
        return Opaque(src)

    def call(self, n: ast.Call, env: dict):  # type: ignore[no-untyped-def]
        src = ast.unparse(n)
        if src in self.leaves:
            return self.leaf(src, env)
        if self.special is not None:
            r = self.special(self, n, env)
            if r is not None:
                return r
        h = self.helper_of(n, env)
        if h is not None:
            return self.pure_call(h[0], h[1], n, env)
        f = ast.unparse(n.func)
        kw = {k.arg: k.value for k in n.keywords}
        if f in ("datetime.now", "datetime.datetime.now"):
            a = [ast.unparse(x) for x in n.args] + [f"{k.arg}={ast.unparse(k.value)}" for k in n.keywords]
            if a not in (["timezone.utc"], ["tz=timezone.utc"], ["datetime.timezone.utc"], ["tz=datetime.timezone.utc"]):
                return Opaque("datetime.now() not in UTC")
            return self.leaves.get("<now>", Opaque("datetime.now()"))
        if f == "asyncio.get_running_loop().time" or f.endswith(".time") and "loop" in f:
            v = self.ev(n.func.value, env) if isinstance(n.func, ast.Attribute) else None  # type: ignore[attr-defined]
            if f == "asyncio.get_running_loop().time" or (isinstance(v, Obj) and v.path == "<loop>"):
                return self.leaves.get("<loop-time>", Opaque("loop time"))
            return Opaque(src)
        if f in ("asyncio.get_running_loop", "asyncio.get_event_loop") and not n.args:
            return Obj("<loop>")
        if f in ("timedelta", "datetime.timedelta"):
            if not n.keywords and len(n.args) == 1 and ast.unparse(n.args[0]) == "0":
                return Num(Lit(0), "Int")
            if not n.args and not n.keywords:
                return Num(Lit(0), "Int")
            if not n.args and list(kw) == ["seconds"]:
                v = self.ev(kw["seconds"], env)
                if isinstance(v, Num) and v.ty == "Int" and v.term == self.leaves.get("<loop-time>", Num(None, "")).term:
                    return v  # a loop time, already integer µs
                if isinstance(v, Num) and v.ty in ("Unk", "Rat") and self.is_estimate(v.term):
                    # timedelta(seconds=(now - sampling_start).total_seconds() / received_samples): computed through floats,
                    # an input `est` of the translation (clamps applied to it are ordinary comparisons)
                    return Num(V("est"), "Int")
            unit = {"days": 86400_000_000, "hours": 3600_000_000, "minutes": 60_000_000, "seconds": 1_000_000,
                    "milliseconds": 1000, "microseconds": 1}
            if not n.args and kw and all(k in unit and isinstance(x, ast.Constant) and isinstance(x.value, int)
                                        and not isinstance(x.value, bool) for k, x in kw.items()):
                return Num(Lit(sum(unit[k] * x.value for k, x in kw.items())), "Int")
            return Opaque(src)
        if f == "_to_microseconds" and len(n.args) == 1 and not n.keywords:
            return self.ev(n.args[0], env)
        if isinstance(n.func, ast.Attribute) and n.func.attr == "total_seconds" and not n.args:
            v = self.ev(n.func.value, env)
            if isinstance(v, Num) and v.ty == "Int":
                return Num(Op("totalSeconds", "Rat", v.term), "Rat")
            if isinstance(v, Num) and v.ty == "Unk":
                return Num(Op("totalSeconds", "Unk", v.term), "Unk")
            return Opaque(src)
        if f in ("max", "min") and len(n.args) == 2 and not n.keywords:
            a, b = self.ev(n.args[0], env), self.ev(n.args[1], env)
            if isinstance(a, Est) or isinstance(b, Est):
                e, o = (a, b) if isinstance(a, Est) else (b, a)
                if f == "max" and isinstance(o, Num) and o.ty == "Int" and o.term[0] == "int" and o.term[1] >= 0:
                    return Est(max(e.floor, o.term[1]))
                raise Unsupported(f"shape of the input-period estimate: {src[:80]}")
            if isinstance(a, Num) and isinstance(b, Num) and not {a.ty, b.ty} & {"OptInt", "Unk", "Bool"}:
                x, y, ty = unify(a, b)
                # Python: the first wins on ties
                return Num(("ite", ("cmp", ">" if f == "max" else "<", y, x, ty), y, x), ty)
            if any(isinstance(v, Num) and v.ty == "OptInt" for v in (a, b)):
                raise Unsupported(f"{f}() of an Optional that is not narrowed: {src}")
            return Opaque(src)
        if f == "math.ceil" and len(n.args) == 1:
            v = self.ev(n.args[0], env)
            if isinstance(v, Num) and v.ty in ("Rat", "Int", "Nat"):
                return Num(Op("ceil", "Int", cast(v.term, v.ty, "Rat")), "Int")
            return Opaque(src)
        if f == "len" and len(n.args) == 1:
            v = self.ev(n.args[0], env)
            if isinstance(v, Obj) and f"len({v.path})" in self.leaves:
                return self.leaf(f"len({v.path})", env)
            return Opaque(src)
        if f in ("bisect", "bisect_right", "bisect.bisect", "bisect.bisect_right"):
            buf = self.ev(n.args[0], env) if n.args else None
            key = kw.get("key")
            if not (len(n.args) == 2 and isinstance(buf, Obj) and buf.path == "self._buffer" and set(kw) == {"key"}
                    and self.is_timestamp_key(key, env)):
                raise Unsupported(f"not bisect(self._buffer, <key>, key=lambda s: s.timestamp): {src[:80]}")
            k = self.ev(n.args[1], env)
            if not (isinstance(k, Num) and k.ty == "Int"):
                raise Unsupported(f"bisect key is not a time: {src[:80]}")
            self.note(env, ("read", "self._buffer"))
            return Bisect(k)
        if f in ("bisect_left", "bisect.bisect_left"):
            raise Unsupported("bisect_left")
        if f in ("itertools.islice", "islice") and len(n.args) == 3 and not n.keywords:
            buf = self.ev(n.args[0], env)
            if isinstance(buf, Obj) and buf.path == "self._buffer":
                return Slice(self.ev(n.args[1], env), self.ev(n.args[2], env))
            return Opaque(src)
        if f in ("list", "tuple") and len(n.args) == 1 and not n.keywords:
            v = self.ev(n.args[0], env)
            if isinstance(v, Slice):
                return v
            if isinstance(v, Obj) and v.path == "self._buffer":
                return Obj("<list(self._buffer)>")
            return Opaque(src)
        if f == "cast" and len(n.args) == 2:
            return self.ev(n.args[1], env)
        if f == "Sample" and len(n.args) + len(n.keywords) == 2:
            ts = n.args[0] if n.args else kw.get("timestamp")
            return SampleV(self.ev(ts, env)) if ts is not None else Opaque(src)
        if f in ("math.isnan", "math.isinf", "math.isfinite") and len(n.args) == 1:
            v = self.ev(n.args[0], env)
            if isinstance(v, Obj) and f"{f}({v.path})" in self.leaves:
                return self.leaves[f"{f}({v.path})"]
            return Opaque(src)
        if isinstance(n.func, ast.Attribute) and not n.args and not n.keywords:
            v = self.ev(n.func.value, env)
            if isinstance(v, Obj) and f"{v.path}.{n.func.attr}()" in self.leaves:
                return self.leaves[f"{v.path}.{n.func.attr}()"]
        return Opaque(src)

    @staticmethod
    def getter_of(fn) -> str | None:  # type: ignore[no-untyped-def]
        """`x` when the lambda / function only returns `<its parameter>.x`."""
        if isinstance(fn, ast.Lambda):
            body, a = fn.body, fn.args
        elif isinstance(fn, (ast.FunctionDef,)):
            st = strip_doc(fn.body)
            if len(st) != 1 or not isinstance(st[0], ast.Return) or st[0].value is None:
                return None
            body, a = st[0].value, fn.args
        else:
            return None
        ps = [x.arg for x in a.posonlyargs + a.args]
        if isinstance(fn, ast.FunctionDef) and ps and ps[0] in ("self", "cls") and len(ps) == 2:
            ps = ps[1:]
        if len(ps) == 1 and not a.vararg and not a.kwarg and not a.kwonlyargs and isinstance(body, ast.Attribute) \
                and isinstance(body.value, ast.Name) and body.value.id == ps[0]:
            return body.attr
        return None

    def key_of(self, key, env: dict) -> str | None:  # type: ignore[no-untyped-def]
        """The attribute a key function reads (`lambda s: s.x`, `attrgetter("x")`, a local / module constant bound to
        one of those, a module function or method that only returns `<arg>.x`)."""
        if key is None:
            return None
        if isinstance(key, ast.Lambda):
            return self.getter_of(key)
        if isinstance(key, ast.Call) and ast.unparse(key.func) in ("attrgetter", "operator.attrgetter") \
                and len(key.args) == 1 and not key.keywords and isinstance(key.args[0], ast.Constant) \
                and isinstance(key.args[0].value, str) and "." not in key.args[0].value:
            return key.args[0].value
        if isinstance(key, ast.Name):
            v = env.get(key.id)
            if isinstance(v, KeyFn):
                return v.attr
            if key.id not in env and key.id in self.functions:
                return self.getter_of(self.functions[key.id])
            if key.id not in env and key.id in self.constants:
                return self.key_of(self.constants[key.id], {})
            return None
        if isinstance(key, ast.Attribute) and isinstance(key.value, ast.Name) and key.attr in self.methods \
                and (key.value.id == self.clsname or (key.value.id == "self" and "self" not in env)):
            return self.getter_of(self.methods[key.attr])
        return None

    def is_timestamp_key(self, key, env: dict | None = None) -> bool:  # type: ignore[no-untyped-def]
        return self.key_of(key, env or {}) == "timestamp"

    @staticmethod
    def is_estimate(t) -> bool:  # type: ignore[no-untyped-def]
        """`(now - sampling_start).total_seconds() / received_samples`"""
        if not (t[0] == "op" and t[1] == "div" and len(t[3]) == 2):
            return False
        x, y = t[3]
        if y[0] == "op" and y[1] == "nat2rat":
            y = y[3][0]
        if y != V("received"):
            return False
        if not (x[0] == "op" and x[1] == "totalSeconds"):
            return False
        d = x[3][0]
        return d[0] == "op" and d[1] == "sub" and d[3][0] == V("now") and d[3][1] in (V("samplingStart"), V("samplingStart_v"))

    # ------------------------------------------------------------------ conditions
    def none_test(self, n: ast.expr, env: dict):  # type: ignore[no-untyped-def]
        """(value, is_none_test) when `n` is `<x> is None` / `<x> is not None` (also `== None`)."""
        if isinstance(n, ast.Compare) and len(n.ops) == 1 and isinstance(n.ops[0], (ast.Is, ast.IsNot, ast.Eq, ast.NotEq)) \
                and isinstance(n.comparators[0], ast.Constant) and n.comparators[0].value is None:
            return self.ev(n.left, env), isinstance(n.ops[0], (ast.Is, ast.Eq))
        if isinstance(n, ast.UnaryOp) and isinstance(n.op, ast.Not):
            r = self.none_test(n.operand, env)
            if r is not None:
                return r[0], not r[1]
        return None

    def cond(self, n: ast.expr, env: dict) -> Num:
        src = ast.unparse(n)
        if isinstance(n, ast.BoolOp):
            return Num(("and" if isinstance(n.op, ast.And) else "or", tuple(self.cond(v, env).term for v in n.values)), "Bool")
        if isinstance(n, ast.UnaryOp) and isinstance(n.op, ast.Not):
            return Num(mknot(self.cond(n.operand, env).term), "Bool")
        nt = self.none_test(n, env)
        if nt is not None:
            v, is_none = nt
            t = None
            if isinstance(v, Num) and v.ty == "OptInt" and v.term[0] == "var":
                t = ("isnone", v.term[1])
            elif isinstance(v, Obj) and v.path in self.optobjs:
                t = self.optobjs[v.path]
            elif isinstance(v, NoneV):
                t = TRUE
            elif isinstance(v, Num) and v.ty != "OptInt":  # a narrowed Optional
                t = FALSE
            if t is None:
                return Num(("opaque", src), "Bool")
            return Num(t if is_none else mknot(t), "Bool")
        if isinstance(n, ast.Compare):
            ops = {ast.Lt: "<", ast.LtE: "≤", ast.Gt: ">", ast.GtE: "≥", ast.Eq: "=", ast.NotEq: "≠"}
            parts = []
            left = n.left
            for op, right in zip(n.ops, n.comparators):
                sym = next((v for k, v in ops.items() if isinstance(op, k)), None)
                a, b = self.ev(left, env), self.ev(right, env)
                if sym is None or not (isinstance(a, Num) and isinstance(b, Num)) or "Bool" in (a.ty, b.ty) \
                        or "Unk" in (a.ty, b.ty):
                    return Num(("opaque", src), "Bool")
                if b.ty == "OptInt" and a.ty != "OptInt" and b.term[0] == "var":
                    # guarded by a None test elsewhere (Python would raise on None): false on None
                    x, y, ty = unify(a, Num(V(b.term[1] + "_v"), "Int"))
                    parts.append(("match", b.term[1], FALSE, ("cmp", sym, x, y, ty)))
                elif a.ty == "OptInt" and b.ty != "OptInt" and a.term[0] == "var":
                    x, y, ty = unify(Num(V(a.term[1] + "_v"), "Int"), b)
                    parts.append(("match", a.term[1], FALSE, ("cmp", sym, x, y, ty)))
                elif "OptInt" in (a.ty, b.ty):
                    return Num(("opaque", src), "Bool")
                else:
                    x, y, ty = unify(a, b)
                    parts.append(("cmp", sym, x, y, ty))
                left = right
            return Num(parts[0] if len(parts) == 1 else ("and", tuple(parts)), "Bool")
        v = self.ev(n, env)
        if isinstance(v, Num) and v.ty == "Bool":
            return v
        if isinstance(v, Num) and v.ty == "Int":  # truthiness of a timedelta
            return Num(mknot(("cmp", "=", v.term, Lit(0), "Int")), "Bool")
        if isinstance(v, Slice):
            return Num(("opaque", "<slice-nonempty>"), "Bool")
        if isinstance(v, Num) and v.ty == "OptInt" and v.term[0] == "var" and v.term[1] in self.truthy_optionals:
            return Num(mknot(("isnone", v.term[1])), "Bool")  # a datetime is always truthy
        return Num(("opaque", src), "Bool")

    truthy_optionals = {"align_to", "samplingStart"}  # Optional[datetime]: `if x` is `x is not None`

    def branch(self, test: ast.expr, env: dict, then, orelse):  # type: ignore[no-untyped-def]
        """Evaluate both continuations of a test; a None test on an Optional leaf becomes a `match`.  `not`, `and`,
        `or` are taken apart first (short-circuit order), so that a None test inside them narrows what follows."""
        if isinstance(test, ast.UnaryOp) and isinstance(test.op, ast.Not):
            return self.branch(test.operand, env, orelse, then)
        if isinstance(test, ast.BoolOp) and len(test.values) >= 2:
            first = test.values[0]
            rest = test.values[1] if len(test.values) == 2 else ast.BoolOp(test.op, test.values[1:])
            if isinstance(test.op, ast.Or):
                return self.branch(first, env, then, lambda e: self.branch(rest, e, then, orelse))
            return self.branch(first, env, lambda e: self.branch(rest, e, then, orelse), orelse)
        nt = self.none_test(test, env)
        if nt is None and isinstance(test, ast.Name):  # truthiness of an Optional[datetime]
            v0 = self.ev(test, env)
            if isinstance(v0, Num) and v0.ty == "OptInt" and v0.term[0] == "var" and v0.term[1] in self.truthy_optionals:
                nt = (v0, False)
        if nt is not None and isinstance(nt[0], Num) and nt[0].ty == "OptInt" and nt[0].term[0] == "var":
            v, is_none = nt
            name = v.term[1]

            def is_it(x) -> bool:  # type: ignore[no-untyped-def]
                return isinstance(x, Num) and x.term == v.term and x.ty == "OptInt"

            path = env.get("<path>", ())
            some_env = {k: (Num(V(name + "_v"), "Int") if is_it(x) else x) for k, x in env.items()}
            some_env["<path>"] = path + (("opt", name, "some"),)
            none_env = {k: (NoneV() if is_it(x) else x) for k, x in env.items()}
            none_env["<path>"] = path + (("opt", name, "none"),)
            saved = self.leaves
            self.leaves = {k: (Num(V(name + "_v"), "Int") if is_it(x) else x) for k, x in saved.items()}
            try:
                some_val = (orelse if is_none else then)(some_env)
            finally:
                self.leaves = saved
            for k, x in saved.items():
                if is_it(x):
                    none_env[k] = NoneV()
            none_val = (then if is_none else orelse)(none_env)
            return self.match_opt(name, none_val, some_val)
        c = self.cond(test, env)
        path = env.get("<path>", ())
        e1, e2 = dict(env), dict(env)
        e1["<path>"] = path + (c.term,)
        e2["<path>"] = path + (mknot(c.term),)
        if c.term == TRUE:
            return then(e1)
        if c.term == FALSE:
            return orelse(e2)
        return ite(c, then(e1), orelse(e2))

    @staticmethod
    def match_opt(opt: str, none_val, some_val):  # type: ignore[no-untyped-def]
        if isinstance(none_val, Bottom):
            if isinstance(some_val, Num) and mentions(some_val.term, f"{opt}_v"):
                return Opaque("narrowed")
            return some_val
        if isinstance(some_val, Bottom):
            return none_val
        none_val, some_val = none_as(none_val, some_val)
        if isinstance(none_val, Tup) and isinstance(some_val, Tup) and len(none_val.items) == len(some_val.items):
            return Tup([Sym.match_opt(opt, a, b) for a, b in zip(none_val.items, some_val.items)])
        if isinstance(none_val, Num) and isinstance(some_val, Num):
            if none_val.ty == "Bool" and some_val.ty == "Bool":
                ty, a, b = "Bool", none_val.term, some_val.term
            elif {none_val.ty, some_val.ty} & {"OptInt", "Unk"}:
                return Opaque("Optional values that differ between None / not None")
            else:
                a, b, ty = unify(none_val, some_val)
            if a == b and not mentions(b, f"{opt}_v"):
                return Num(a, ty)
            return Num(("match", opt, a, b), ty)
        if isinstance(none_val, Bisect) and isinstance(some_val, Bisect):
            k = Sym.match_opt(opt, none_val.key, some_val.key)
            return Bisect(k) if isinstance(k, Num) else Opaque("bisect keys")
        if isinstance(none_val, Slice) and isinstance(some_val, Slice):
            return Slice(Sym.match_opt(opt, none_val.lo, some_val.lo), Sym.match_opt(opt, none_val.hi, some_val.hi))
        if isinstance(none_val, SampleV) and isinstance(some_val, SampleV):
            return SampleV(Sym.match_opt(opt, none_val.ts, some_val.ts))
        if isinstance(none_val, Est) and isinstance(some_val, Est) and none_val.floor == some_val.floor:
            return none_val
        if isinstance(none_val, Obj) and isinstance(some_val, Obj) and none_val.path == some_val.path:
            return none_val
        if isinstance(none_val, NoneV) and isinstance(some_val, NoneV):
            return none_val
        return Opaque("values that differ between None / not None")

    # ------------------------------------------------------------------ statements (continuation passing)
    def run(self, stmts: list[ast.stmt], env: dict, target):  # type: ignore[no-untyped-def]
        """The value `target(stmt, env)` yields at the first statement where it is not None, as a function of the
        inputs; `Bottom` on paths that return / fall off before."""
        if not stmts:
            return self.end(env)
        s, rest = stmts[0], stmts[1:]
        if isinstance(s, ast.Match):
            return self.run([desugar_match(s)] + rest, env, target)
        pre = self.hoist(s, env)
        if pre is not None:
            return self.run(pre + rest, env, target)
        hit = target(s, env)
        if hit is not None:
            return hit
        if isinstance(s, ast.Return):
            if s.value is not None:
                self.ev(s.value, env)
            return self.end(env)
        if isinstance(s, (ast.Raise, ast.Break, ast.Continue)):
            # never drop such a path silently: what the code does on it is not part of the extracted value
            raise Unsupported(f"a path ends with `{ast.unparse(s)[:50]}`")
        if isinstance(s, (ast.Assert, ast.Pass, ast.Import, ast.ImportFrom)):
            return self.run(rest, env, target)
        if isinstance(s, (ast.Assign, ast.AnnAssign)) and s.value is not None:
            c = s.value.value if isinstance(s.value, ast.Await) else s.value
            h = self.helper_of(c, env) if isinstance(c, ast.Call) else None
            if h is not None:
                targets = s.targets if isinstance(s, ast.Assign) else [s.target]
                return self.inline(h[0], h[1], c, env, targets, rest, target)
        if isinstance(s, ast.Expr):
            c = s.value.value if isinstance(s.value, ast.Await) else s.value
            h = self.helper_of(c, env) if isinstance(c, ast.Call) else None
            if h is not None:
                return self.inline(h[0], h[1], c, env, [], rest, target)
            if isinstance(c, ast.Call) and isinstance(c.func, ast.Attribute):
                base = self.ev(c.func.value, env)
                if isinstance(base, Obj) and not base.path.startswith("_logger"):
                    args = tuple(describe(self.ev(x, env)) for x in c.args) + \
                        tuple(f"{k.arg}={describe(self.ev(k.value, env))}" for k in c.keywords)
                    self.note(env, ("call", f"{base.path}.{c.func.attr}", args))
            if not isinstance(c, ast.Constant):
                self.ev(c, env)
            return self.run(rest, env, target)
        if isinstance(s, ast.AnnAssign):
            if s.value is None:
                return self.run(rest, env, target)
            env = dict(env)
            self.assign(s.target, self.ev(s.value, env), env)
            return self.run(rest, env, target)
        if isinstance(s, ast.Assign):
            env = dict(env)
            v = self.ev(s.value, env)
            for t in s.targets:
                self.assign(t, v, env)
            return self.run(rest, env, target)
        if isinstance(s, ast.AugAssign):
            env = dict(env)
            self.assign(s.target, self.aug_value(s, env), env)
            return self.run(rest, env, target)
        if isinstance(s, ast.If):
            return self.branch(s.test, env, lambda e: self.run(s.body + rest, e, target),
                               lambda e: self.run(s.orelse + rest, e, target))
        if isinstance(s, ast.Try) and not s.finalbody:
            # the protected statements cannot raise in the understood subset: body, then `else`
            return self.run(s.body + s.orelse + rest, env, target)
        if isinstance(s, (ast.With, ast.AsyncWith)):
            return self.run(s.body + rest, env, target)
        if isinstance(s, (ast.For, ast.AsyncFor, ast.While)):
            # a loop: whatever it assigns is unknown afterwards; a target inside it is not understood
            env = dict(env)
            for x in ast.walk(s):
                if isinstance(x, ast.stmt) and x is not s and target(x, dict(env)) is not None:
                    raise Unsupported(f"the extracted statement is inside a loop: {ast.unparse(x)[:60]}")
                if isinstance(x, (ast.Name, ast.Attribute)) and isinstance(x.ctx, ast.Store):
                    self.assign(x, Opaque("assigned in a loop"), env)
            self.note(env, ("loop", ast.unparse(s)[:40]))
            return self.run(rest, env, target)
        raise Unsupported(f"statement {type(s).__name__}: {ast.unparse(s)[:60]}")

    def aug_value(self, s: ast.AugAssign, env: dict):  # type: ignore[no-untyped-def]
        cur = self.ev(s.target, env)
        rhs = self.ev(s.value, env)
        if isinstance(cur, Num) and isinstance(rhs, Num) and isinstance(s.op, (ast.Add, ast.Sub)) \
                and not {cur.ty, rhs.ty} & {"OptInt", "Unk", "Bool"}:
            x, y, ty = unify(cur, rhs)
            if ty == "Nat" and isinstance(s.op, ast.Sub):
                x, y, ty = cast(x, "Nat", "Int"), cast(y, "Nat", "Int"), "Int"
            return Num(Op("add" if isinstance(s.op, ast.Add) else "sub", ty, x, y), ty)
        return Opaque("augmented assignment")

    def inline(self, fn, bound: bool, call: ast.Call, env: dict, targets: list, rest: list, target):  # type: ignore[no-untyped-def]
        """Run the body of a helper in place of `targets = helper(…)`, then the rest of the caller."""
        if self.depth > 8:
            raise Unsupported("helper calls nested too deeply")
        cenv = self.bind(fn, bound, call, env)

        def ctarget(cs: ast.stmt, ce: dict):  # type: ignore[no-untyped-def]
            if isinstance(cs, ast.Return):
                v = self.ev(cs.value, ce) if cs.value is not None else NoneV()
                back = {k: x for k, x in env.items() if "." not in k and not k.startswith("<")}
                back.update({k: x for k, x in ce.items() if "." in k or k.startswith("<")})
                for t in targets:
                    self.assign(t, v, back)
                self.depth -= 1
                try:
                    return self.run(rest, back, target)
                finally:
                    self.depth += 1
            return target(cs, ce)

        self.depth += 1
        try:
            return self.run(strip_doc(fn.body) + [ast.Return(None)], cenv, ctarget)
        finally:
            self.depth -= 1

    def assign(self, t: ast.expr, v, env: dict) -> None:  # type: ignore[no-untyped-def]
        if isinstance(t, ast.Name):
            env[t.id] = v
        elif isinstance(t, (ast.Tuple, ast.List)):
            items = v.items if isinstance(v, Tup) and len(v.items) == len(t.elts) else [Opaque("unpacked")] * len(t.elts)
            for e, x in zip(t.elts, items):
                self.assign(e, x, env)
        elif isinstance(t, ast.Attribute):
            base = self.ev(t.value, env)
            if isinstance(base, Obj):
                path = f"{base.path}.{t.attr}"
                # an object we know nothing about is still *that* object when read back through the same path
                env[path] = Obj(path) if isinstance(v, Opaque) else v
                self.note(env, ("store", path, describe(v)))
        # subscripts etc.: not tracked


def need_int(v, what: str):  # type: ignore[no-untyped-def]
    if isinstance(v, Num) and v.ty in ("Int", "Nat"):
        return cast(v.term, v.ty, "Int")
    raise Unsupported(f"{what}: not an integer/time value ({type(v).__name__} {getattr(v, 'why', getattr(v, 'term', ''))})")


# ------------------------------------------------------------------------------------------------ pieces
CONFIG_LEAVES = {
    "self._config.resampling_period": Num(V("resamplingPeriod"), "Int"),
    "self._config.max_data_age_in_periods": Num(V("maxAge"), "Rat"),
    "self._config.max_buffer_len": Num(V("maxBufferLen"), "Nat"),
    "self._config.warn_buffer_len": Num(V("warnBufferLen"), "Nat"),
}
HELPER_LEAVES = {
    **CONFIG_LEAVES,
    "self._source_properties.sampling_period": Num(V("samplingPeriod"), "OptInt"),
    "self._source_properties.sampling_start": Num(V("samplingStart"), "OptInt"),
    "self._source_properties.received_samples": Num(V("received"), "Nat"),
    "len(self._buffer)": Num(V("bufLen"), "Nat"),
    "self._buffer.maxlen": Num(V("maxlen"), "Nat"),
}
MUTABLE_LEAVES = ("self._source_properties.sampling_period", "self._source_properties.sampling_start",
                  "self._source_properties.received_samples", "len(self._buffer)", "self._buffer.maxlen")


def body_of(fn) -> list[ast.stmt]:  # type: ignore[no-untyped-def]
    return strip_doc(fn.body)


def params_of(fn, n: int, what: str) -> list[str]:  # type: ignore[no-untyped-def]
    """Names of the positional parameters (parameters are found by position, not by name)."""
    a = fn.args
    names = [x.arg for x in a.posonlyargs + a.args]
    if len(names) != n or a.vararg or a.kwarg or a.kwonlyargs:
        raise Unsupported(f"{what} signature")
    return names


def own_exprs(s: ast.stmt):  # type: ignore[no-untyped-def]
    """The expression nodes a statement evaluates itself (not those of nested statements)."""
    if isinstance(s, (ast.If, ast.While)):
        roots: list = [s.test]
    elif isinstance(s, (ast.For, ast.AsyncFor)):
        roots = [s.iter]
    elif isinstance(s, (ast.With, ast.AsyncWith)):
        roots = [i.context_expr for i in s.items]
    elif isinstance(s, (ast.Try, ast.FunctionDef, ast.AsyncFunctionDef, ast.ClassDef, ast.Match)):
        roots = []
    else:
        roots = [s]
    for r in roots:
        yield from ast.walk(r)


def calc_window_end(res: ast.ClassDef, tree: ast.Module, args: dict) -> str:
    """`args`: what `__init__` passes for the parameters of the method (none today; e.g. the current time)."""
    fn = find_method(res, "_calculate_window_end")
    sym = Sym({"self._config.resampling_period": Num(V("period"), "Int"),
               "self._config.align_to": Num(V("align_to"), "OptInt"),
               "<now>": Num(V("now"), "Int")}, cls=res, module=tree)

    def target(s: ast.stmt, env: dict):  # type: ignore[no-untyped-def]
        if isinstance(s, ast.Return):
            if s.value is None:
                raise Unsupported("bare return in _calculate_window_end")
            v = sym.ev(s.value, env)
            if not (isinstance(v, Tup) and len(v.items) == 2):
                raise Unsupported("_calculate_window_end does not return a pair")
            return Tup([Num(need_int(x, "window end / start delay"), "Int") for x in v.items])
        return None

    r = sym.run(body_of(fn), dict(args), target)
    if not isinstance(r, Tup):
        raise Unsupported("_calculate_window_end: no returned pair")
    ps = ["now", "period", "align_to"]
    return ("/-- `Resampler._calculate_window_end` with `datetime.now()` as the parameter `now`: "
            "(window end, timer start delay). -/\n"
            "def calculateWindowEnd (now period : Int) (align_to : Option Int) : Int × Int :=\n"
            f"  ({normal(r.items[0].term, ps)},\n   {normal(r.items[1].term, ps)})")


def timer_hack(res: ast.ClassDef, tree: ast.Module, args_out: dict) -> str:
    init = find_method(res, "__init__")
    cfg = params_of(init, 2, "Resampler.__init__")[1]
    sym = Sym({"self._config.resampling_period": Num(V("period"), "Int"), "<loop-time>": Num(V("loopNow"), "Int"),
               "self._config.align_to": Num(V("align_to"), "OptInt"), "<now>": Num(V("now"), "Int")},
              cls=res, module=tree, no_inline=("_calculate_window_end",))
    calc = find_method(res, "_calculate_window_end")
    calls: list = []

    def special(sy: Sym, n: ast.Call, env: dict):  # type: ignore[no-untyped-def]
        f = n.func
        if isinstance(f, ast.Attribute) and f.attr == "_calculate_window_end":
            b = sy.ev(f.value, env)
            if isinstance(b, Obj) and b.path == "self":
                if calc.decorator_list:
                    raise Unsupported("_calculate_window_end is decorated")
                cenv = sy.bind(calc, True, n, env)
                names = [x.arg for x in calc.args.posonlyargs + calc.args.args][1:] + [x.arg for x in calc.args.kwonlyargs]
                calls.append({k: cenv[k] for k in names})
                return Tup([Num(V("windowEnd0"), "Int"), Num(V("startDelay"), "Int")])
        return None

    sym.special = special
    timer_ok: list = []
    window_ok: list = []

    def target(s: ast.stmt, env: dict):  # type: ignore[no-untyped-def]
        for n in own_exprs(s):
            if isinstance(n, ast.Call) and ast.unparse(n.func) in ("Timer", "timer.Timer"):
                kw = {k.arg: k.value for k in n.keywords}
                a = list(n.args)
                iv = a[0] if a else kw.pop("interval", None)
                pol = a[1] if len(a) > 1 else kw.pop("missed_tick_policy", None)
                a0 = sym.ev(iv, env) if iv is not None else None
                timer_ok.append(len(a) <= 2 and not kw and isinstance(a0, Num) and a0.term == V("period")
                                and pol is not None and ast.unparse(pol) == "TriggerAllMissed()")
        if isinstance(s, (ast.Assign, ast.AnnAssign)) and s.value is not None:
            for t in (s.targets if isinstance(s, ast.Assign) else [s.target]):
                if not isinstance(t, ast.Attribute):
                    continue
                b = sym.ev(t.value, env)
                if isinstance(b, Obj) and f"{b.path}.{t.attr}" == "self._timer._next_tick_time":
                    return Num(need_int(sym.ev(s.value, env), "first tick time"), "Int")
                if isinstance(b, Obj) and f"{b.path}.{t.attr}" == "self._window_end":
                    v = sym.ev(s.value, env)
                    if not (isinstance(v, Num) and v.term == V("windowEnd0")):
                        raise Unsupported("self._window_end is not initialised with the calculated window end")
                    window_ok.append(True)
        return None

    r = sym.run(body_of(init), {cfg: Obj("self._config")}, target)
    if not isinstance(r, Num):
        raise Unsupported("assignment to self._timer._next_tick_time not found")
    if not timer_ok or not all(timer_ok):
        raise Unsupported("Timer(<resampling period>, TriggerAllMissed()) not found")
    if not window_ok:
        raise Unsupported("self._window_end is not initialised with the calculated window end")
    if not calls or any(sorted((k, describe(v)) for k, v in c.items()) != sorted((k, describe(v)) for k, v in calls[0].items())
                        for c in calls):
        raise Unsupported("_calculate_window_end is not called once by __init__")
    args_out.update(calls[0])
    return ("/-- The hand-aligned `Timer._next_tick_time` of `Resampler.__init__` (loop clock, µs). -/\n"
            f"def firstTickTime (loopNow period startDelay : Int) : Int :=\n  "
            + normal(r.term, ["loopNow", "period", "startDelay"]))


def linearise(stmts: list[ast.stmt], methods: dict, depth: int = 0) -> list[ast.stmt]:
    """Statement-position calls `self._helper(…)` / `x = [await] self._helper(…)` of single-exit helpers of the same
    class replaced by the helper's body (parameters bound, locals renamed)."""
    import copy
    out: list[ast.stmt] = []
    for s in stmts:
        c, targets = None, None
        if isinstance(s, ast.Expr):
            c = s.value
        elif isinstance(s, ast.Assign):
            c, targets = s.value, s.targets
        elif isinstance(s, ast.AnnAssign) and s.value is not None:
            c, targets = s.value, [s.target]
        if isinstance(c, ast.Await):
            c = c.value
        fn = None
        if isinstance(c, ast.Call) and isinstance(c.func, ast.Attribute) and isinstance(c.func.value, ast.Name) \
                and c.func.value.id == "self" and c.func.attr in methods and depth < 4:
            fn = methods[c.func.attr]
        if fn is not None:
            body = strip_doc(fn.body)
            tail = body[-1] if body and isinstance(body[-1], ast.Return) else None
            rets = [n for n in ast.walk(fn) if isinstance(n, ast.Return)]
            a = fn.args
            names = [x.arg for x in a.posonlyargs + a.args][1:]
            simple = (not fn.decorator_list and all(r is tail for r in rets) and not a.vararg and not a.kwarg
                      and not a.kwonlyargs and not a.defaults and not c.keywords and len(c.args) == len(names)
                      and not any(isinstance(x, (ast.Yield, ast.YieldFrom)) for x in ast.walk(fn))
                      and not any(isinstance(x, ast.Starred) for x in c.args))
            if simple:
                local = set(names) | {n.id for n in ast.walk(fn) if isinstance(n, ast.Name) and isinstance(n.ctx, ast.Store)}
                suffix = f"__{fn.name.strip('_')}{depth}"

                class Ren(ast.NodeTransformer):
                    def visit_Name(self, n: ast.Name):  # type: ignore[no-untyped-def]
                        return ast.Name(n.id + suffix, n.ctx) if n.id in local else n

                inner = [Ren().visit(copy.deepcopy(x)) for x in (body[:-1] if tail is not None else body)]
                for p, x in zip(names, c.args):
                    out.append(ast.Assign([ast.Name(p + suffix, ast.Store())], x, lineno=0))
                out.extend(linearise(inner, methods, depth + 1))
                if tail is not None and tail.value is not None and targets:
                    out.append(ast.Assign(targets, Ren().visit(copy.deepcopy(tail.value)), lineno=0))
                elif targets:
                    out.append(ast.Assign(targets, ast.Constant(None), lineno=0))
                continue
        out.append(s)
    return out


def resample_loop(res: ast.ClassDef, tree: ast.Module) -> str:
    fn = find_method(res, "resample")
    methods = {n.name: n for n in res.body if isinstance(n, (ast.FunctionDef, ast.AsyncFunctionDef))}
    sym = Sym({"self._config.resampling_period": Num(V("period"), "Int"), "self._window_end": Num(V("windowEnd"), "Int")},
              cls=res, module=tree)
    stmts = linearise(body_of(fn), methods)
    li = next((i for i, s in enumerate(stmts) if isinstance(s, ast.AsyncFor)), None)
    if li is None or ast.unparse(stmts[li].iter) != "self._timer":  # type: ignore[attr-defined]
        raise Unsupported("`async for … in self._timer` not found in resample()")
    if stmts[li].orelse:  # type: ignore[attr-defined]
        raise Unsupported("`async for … else` in resample()")
    env: dict = {}
    live_names = {"self._resamplers"}

    def step_env(s: ast.stmt) -> None:
        """Track top-level locals (hoisted `period = …`, aliases); anything assigned elsewhere becomes unknown."""
        if isinstance(s, (ast.Assign, ast.AnnAssign)) and s.value is not None:
            ts = s.targets if isinstance(s, ast.Assign) else [s.target]
            v = sym.ev(s.value, env)
            for t in ts:
                if isinstance(t, (ast.Name, ast.Tuple, ast.List)):
                    sym.assign(t, v, env)
                if isinstance(t, ast.Name) and ast.unparse(s.value) in live_names:
                    live_names.add(t.id)
            return
        for x in ast.walk(s):
            if isinstance(x, ast.Name) and isinstance(x.ctx, ast.Store):
                env[x.id] = Opaque("assigned in a nested statement")

    for s in stmts[:li]:
        step_env(s)
    body = linearise(stmts[li].body, methods)  # type: ignore[attr-defined]
    gather_idx = None
    for i, s in enumerate(body):
        for n in ast.walk(s):
            if isinstance(n, ast.Await) and isinstance(n.value, ast.Call) and ast.unparse(n.value.func) == "asyncio.gather":
                if gather_idx is not None:
                    raise Unsupported("more than one asyncio.gather in resample()")
                gather_idx, gather_call = i, n.value
    if gather_idx is None:
        raise Unsupported("await asyncio.gather(…) not found in resample()")
    if not isinstance(body[gather_idx], (ast.Assign, ast.AnnAssign, ast.Expr)):
        raise Unsupported("the gather is inside a compound statement")
    for s in body[:gather_idx]:
        step_env(s)

    def mentions_live(s: ast.stmt) -> bool:
        return any(ast.unparse(n) in live_names for n in ast.walk(s) if isinstance(n, (ast.Attribute, ast.Name)))

    # what is gathered: `<helper>.resample(self._window_end)` for each registered series
    def is_resample_call(n: ast.AST) -> bool:
        if not (isinstance(n, ast.Call) and isinstance(n.func, ast.Attribute) and n.func.attr == "resample"
                and len(n.args) == 1 and not n.keywords):
            return False
        v = sym.ev(n.args[0], env)
        return isinstance(v, Num) and v.term == V("windowEnd")

    if not any(is_resample_call(n) for s in body[:gather_idx + 1] for n in ast.walk(s)):
        raise Unsupported("gathered calls are not `.resample(self._window_end)`")
    if {k.arg: ast.unparse(k.value) for k in gather_call.keywords}.get("return_exceptions") != "True":
        raise Unsupported("gather without return_exceptions=True")
    if not any(mentions_live(s) for s in body[:gather_idx + 1]):
        raise Unsupported("resample() never reads self._resamplers")
    step_env(body[gather_idx])
    live_after = any(mentions_live(s) for s in body[gather_idx + 1:])

    def stores_window_end(s: ast.AST) -> bool:
        if isinstance(s, ast.Assign):
            ts = s.targets
        elif isinstance(s, (ast.AugAssign, ast.AnnAssign)):
            ts = [s.target]
        else:
            return False
        return any(ast.unparse(x) == "self._window_end" for t in ts for x in ast.walk(t))

    adv = [(i, s) for i, s in enumerate(body) if stores_window_end(s)]
    every_ids = {id(n) for st in list(stmts) + list(body) for n in ast.walk(st) if stores_window_end(n)}
    if len(adv) != 1 or every_ids != {id(adv[0][1])} or adv[0][0] < gather_idx:
        raise Unsupported("expected exactly one unconditional `self._window_end += …` after the gather")
    raise_idx = [i for i, st in enumerate(body) if
                 any(isinstance(n, ast.Raise) and n.exc is not None and "ResamplingError" in ast.unparse(n.exc)
                     for n in ast.walk(st))]
    if len(raise_idx) != 1 or raise_idx[0] < gather_idx or not isinstance(body[raise_idx[0]], (ast.If, ast.Raise)):
        raise Unsupported("expected exactly one `if exceptions: raise ResamplingError(…)` after the gather")
    for s in body[gather_idx + 1:adv[0][0]]:
        step_env(s)
    s = adv[0][1]
    if isinstance(s, ast.AugAssign):
        new = sym.aug_value(s, env)
    else:
        new = sym.ev(s.value, env)  # type: ignore[attr-defined]
    t = normal(need_int(new, "window advance"), ["windowEnd", "period"])
    return ("/-- `self._window_end` after the gather of every tick. -/\n"
            f"def advanceWindowEnd (windowEnd period : Int) : Int :=\n  {t}\n\n"
            "/-- `true`: after the gather `resample()` only uses a snapshot of the series taken before it;\n"
            "`false`: it reads the live `self._resamplers` again (series added/removed in flight are mis-indexed). -/\n"
            f"def gatherOverSnapshot : Bool := {'false' if live_after else 'true'}\n\n"
            "/-- `true`: the window end is advanced before the errors of the tick are raised (a tick that ends with a\n"
            "`ResamplingError` still consumes its window); `false`: only error-free ticks advance it. -/\n"
            f"def advanceOnError : Bool := {'true' if adv[0][0] < raise_idx[0] else 'false'}")


def estimate_floor(stored: list) -> int:
    """What is stored as the input period, on all paths, must be the estimate `est` or `max(est, k)` for a literal `k ≥ 0`
    (however the clamp is written): the lower clamp `k` (0 without one)."""
    if not stored:
        raise Unsupported("shape of the input-period estimate")
    t = None
    for path, v in reversed(stored):
        if isinstance(v, Est):
            v = Num(V("est") if v.floor <= 0 else ("ite", ("cmp", "<", V("est"), Lit(v.floor), "Int"), Lit(v.floor), V("est")), "Int")
        if not (isinstance(v, Num) and v.ty == "Int"):
            raise Unsupported("shape of the input-period estimate")
        conds = tuple(c for c in path if not (isinstance(c, tuple) and c and c[0] == "opt") and mentions(c, "est"))
        t = v.term if t is None else ("ite", ("and", conds) if conds else TRUE, v.term, t)
    global _PARAMS
    _PARAMS = ["est"]
    try:
        tree = expand(expand(t, {}, 0, first_atoms), {})
    finally:
        _PARAMS = []
    if tree == V("est"):
        return 0
    if tree[0] == "ite" and tree[1][0] == "cmp" and tree[1][1] == "<" and tree[1][2] == V("est") and tree[1][3][0] == "int" \
            and tree[2] == tree[1][3] and tree[3] == V("est") and tree[1][3][1] >= 0:
        return tree[1][3][1]
    raise Unsupported("shape of the input-period estimate")


def helper_parts(hel: ast.ClassDef, tree: ast.Module) -> str:
    out = []
    # --- _update_source_sample_period(now): when is the estimate NOT taken, and what is stored
    fn = find_method(hel, "_update_source_sample_period")
    now = params_of(fn, 2, "_update_source_sample_period")[1]
    sym = Sym(dict(HELPER_LEAVES), cls=hel, module=tree)
    stored: list = []

    def target_guard(s: ast.stmt, env: dict):  # type: ignore[no-untyped-def]
        if isinstance(s, ast.Return):
            v = sym.ev(s.value, env) if s.value is not None else None
            if not (isinstance(v, Num) and v.ty == "Bool"):
                raise Unsupported("_update_source_sample_period returns something else than True/False")
            return Num(mknot(v.term), "Bool")  # skipped = returned False
        if isinstance(s, (ast.Assign, ast.AnnAssign)) and s.value is not None:
            for t in (s.targets if isinstance(s, ast.Assign) else [s.target]):
                tv = sym.ev(t.value, env) if isinstance(t, ast.Attribute) else None
                if isinstance(t, ast.Attribute) and isinstance(tv, Obj) and f"{tv.path}.{t.attr}" == "self._source_properties.sampling_period":
                    stored.append((env.get("<path>", ()), sym.ev(s.value, env)))
        if isinstance(s, ast.AugAssign) and "sampling_period" in ast.unparse(s.target):
            raise Unsupported("augmented assignment to the sampling period")
        return None

    guard = sym.run(body_of(fn), {now: Num(V("now"), "Int")}, target_guard)
    if not (isinstance(guard, Num) and guard.ty == "Bool"):
        raise Unsupported("guard of _update_source_sample_period not understood")
    floor = estimate_floor(stored)
    ps = ["samplingPeriod", "samplingStart", "received", "resamplingPeriod", "maxAge", "bufLen", "maxlen", "now"]
    out.append("/-- `true` = `_update_source_sample_period(now)` returns False without estimating the input period. -/\n"
               "def skipPeriodUpdate (samplingPeriod samplingStart : Option Int) (received : Nat) (resamplingPeriod : Int)\n"
               "    (maxAge : Rat) (bufLen maxlen : Nat) (now : Int) : Bool :=\n  " + normal(guard.term, ps))
    out.append("/-- Lower clamp (µs) applied to the estimated input period (0: the estimate may round down to zero). -/\n"
               f"def minInputPeriodEstimate : Int := {floor}")

    # --- _update_buffer_len: the maxlen the deque is rebuilt with
    fn = find_method(hel, "_update_buffer_len")
    params_of(fn, 1, "_update_buffer_len")
    leaves = dict(HELPER_LEAVES)
    leaves["self._source_properties.sampling_period"] = Num(V("inputPeriod"), "Int")  # asserted not None by the function
    sym = Sym(leaves, cls=hel, module=tree)

    def target_len(s: ast.stmt, env: dict):  # type: ignore[no-untyped-def]
        if isinstance(s, (ast.Assign, ast.AnnAssign)) and s.value is not None:
            for t in (s.targets if isinstance(s, ast.Assign) else [s.target]):
                b = sym.ev(t.value, env) if isinstance(t, ast.Attribute) else None
                if not (isinstance(b, Obj) and f"{b.path}.{t.attr}" == "self._buffer"):  # type: ignore[union-attr]
                    continue
                c = s.value
                if not (isinstance(c, ast.Call) and ast.unparse(c.func) in ("deque", "collections.deque") and c.args):
                    raise Unsupported("the buffer is not rebuilt with deque(self._buffer, maxlen=…)")
                src = sym.ev(c.args[0], env)
                ml = c.args[1] if len(c.args) == 2 and not c.keywords else (
                    c.keywords[0].value if len(c.args) == 1 and [k.arg for k in c.keywords] == ["maxlen"] else None)
                if not (isinstance(src, Obj) and src.path == "self._buffer" and ml is not None):
                    raise Unsupported("the buffer is not rebuilt with deque(self._buffer, maxlen=…)")
                return Num(need_int(sym.ev(ml, env), "new buffer length"), "Int")
        return None

    r = sym.run(body_of(fn), {}, target_len)
    if not isinstance(r, Num):
        raise Unsupported("deque rebuild of _update_buffer_len not found")
    out.append("/-- The `maxlen` `_update_buffer_len` rebuilds the deque with (clamps included; exact rationals for the\n"
               "float `math.ceil`; `inputPeriod` = the estimated input period). -/\n"
               "def newBufferLenOf (inputPeriod resamplingPeriod : Int) (maxAge : Rat) (maxBufferLen warnBufferLen : Nat) : Int :=\n  "
               + normal(r.term, ["inputPeriod", "resamplingPeriod", "maxAge", "maxBufferLen", "warnBufferLen"]))

    # --- resample(timestamp): the slice handed to the resampling function
    fn = find_method(hel, "resample")
    ts = params_of(fn, 2, "_ResamplingHelper.resample")[1]
    body = body_of(fn)
    updated = ("bvar", "<updated>")

    def mk_sym() -> Sym:
        sy = Sym(dict(HELPER_LEAVES), cls=hel, module=tree,
                 no_inline=("_update_source_sample_period", "_update_buffer_len"), watch=MUTABLE_LEAVES)

        def special(sy_: Sym, n: ast.Call, env: dict):  # type: ignore[no-untyped-def]
            f = n.func
            if isinstance(f, ast.Attribute) and f.attr in ("_update_source_sample_period", "_update_buffer_len"):
                b = sy_.ev(f.value, env)
                if not (isinstance(b, Obj) and b.path == "self"):
                    return None
                if f.attr == "_update_buffer_len":
                    if n.args or n.keywords:
                        raise Unsupported("_update_buffer_len() called with arguments")
                    Sym.note(env, ("buflen",))
                    return Opaque("result of _update_buffer_len()")
                a = [sy_.ev(x, env) for x in n.args] + [sy_.ev(k.value, env) for k in n.keywords]
                if not (len(a) == 1 and isinstance(a[0], Num) and a[0].term == V("timestamp")):
                    raise Unsupported("_update_source_sample_period is not called with the tick's timestamp")
                Sym.note(env, ("update",))
                return Num(updated, "Bool")
            return None

        sy.special = special
        return sy

    sym = mk_sym()

    def target_slice(s: ast.stmt, env: dict):  # type: ignore[no-untyped-def]
        for n in own_exprs(s):
            if isinstance(n, ast.Call) and isinstance(n.func, ast.Attribute) and n.func.attr == "resampling_function":
                base = sym.ev(n.func.value, env)
                a = [sym.ev(x, env) for x in n.args]
                if not (isinstance(base, Obj) and base.path == "self._config" and len(a) == 3 and not n.keywords
                        and isinstance(a[0], Slice)
                        and isinstance(a[1], Obj) and a[1].path == "self._config"
                        and isinstance(a[2], Obj) and a[2].path == "self._source_properties"):
                    raise Unsupported("call of the resampling function changed shape")
                if not (isinstance(a[0].lo, Bisect) and isinstance(a[0].hi, Bisect)):
                    raise Unsupported("the slice is not bounded by two bisections")
                sym.ends.append((env.get("<path>", ()), env.get("<fx>", ())))
                return Tup([a[0].lo.key, a[0].hi.key])
        return None

    r = sym.run(body, {ts: Num(V("timestamp"), "Int")}, target_slice)
    if not isinstance(r, Tup):
        raise Unsupported("window computation of _ResamplingHelper.resample not understood")
    # the update happens first, and the buffer is resized exactly when the period was updated — before anything reads
    # the buffer or the source properties
    if not sym.ends:
        raise Unsupported("resample(): no path")
    for path, fx in sym.ends:
        ev_ = [f for f in fx if f[0] in ("update", "buflen", "read") or
               (f[0] in ("store", "call") and f[1].startswith(("self._buffer", "self._source_properties")))]
        if any(f[0] in ("store", "call") for f in ev_):
            raise Unsupported(f"resample() modifies the buffer / the source properties itself: {[f for f in ev_ if f[0] in ('store', 'call')][0][1]}")
        took = updated in path
        want = [("update",), ("buflen",)] if took else [("update",)]
        if ev_[:len(want)] != want or any(f[0] in ("update", "buflen") for f in ev_[len(want):]) \
                or (not took and mknot(updated) not in path):
            raise Unsupported("resample() does not start with the period/buffer update")
    # every return hands out `Sample(timestamp, …)`
    sym2 = mk_sym()
    seen: list = []

    def target_ret(s: ast.stmt, env: dict):  # type: ignore[no-untyped-def]
        if isinstance(s, ast.Return):
            v = sym2.ev(s.value, env) if s.value is not None else None
            if not (isinstance(v, SampleV) and isinstance(v.ts, Num) and v.ts.term == V("timestamp")):
                raise Unsupported("resample() returns something else than Sample(timestamp, …)")
            seen.append(True)
        return None

    sym2.run(body, {ts: Num(V("timestamp"), "Int")}, target_ret)
    if not seen:
        raise Unsupported("resample() returns nothing")
    sig = "(timestamp resamplingPeriod : Int) (samplingPeriod : Option Int) (maxAge : Rat) : Int"
    ps = ["timestamp", "resamplingPeriod", "samplingPeriod", "maxAge"]
    out.append("/-- `islice(buffer, bisect_right(buffer, <this>), …)`: the older edge of the relevance window. -/\n"
               f"def relevanceLowKey {sig} :=\n  {normal(need_int(r.items[0], 'low key'), ps)}")
    out.append("/-- `islice(buffer, …, bisect_right(buffer, <this>))`: the newer edge of the relevance window. -/\n"
               f"def relevanceHighKey {sig} :=\n  {normal(need_int(r.items[1], 'high key'), ps)}")
    return "\n\n".join(out)


def add_sample_shape(hel: ast.ClassDef, tree: ast.Module) -> None:
    """`add_sample` appends the sample, counts it and stamps the start of the sampling once (in any order)."""
    fn = find_method(hel, "add_sample")
    p = params_of(fn, 2, "add_sample")[1]
    leaves = dict(HELPER_LEAVES)
    leaves["sample.timestamp"] = Num(V("sampleTs"), "Int")
    sym = Sym(leaves, cls=hel, module=tree)
    sym.run(body_of(fn), {p: Obj("sample")}, lambda s, e: None)
    if not sym.ends:
        raise Unsupported("add_sample changed shape")
    for path, fx in sym.ends:
        eff = sorted(f for f in fx if f[0] in ("store", "call", "loop"))
        want = [("call", "self._buffer.append", ("sample",)),
                ("store", "self._source_properties.received_samples",
                 describe(Num(Op("add", "Int", Op("nat2int", "Int", V("received")), Lit(1)), "Int")))]
        if ("opt", "samplingStart", "none") in path:
            want.append(("store", "self._source_properties.sampling_start", "sampleTs"))
        elif ("opt", "samplingStart", "some") not in path:
            raise Unsupported("add_sample changed shape")
        if eff != sorted(want):
            raise Unsupported("add_sample changed shape")
    init = find_method(hel, "__init__")
    cfg = params_of(init, 3, "_ResamplingHelper.__init__")[2]
    sym = Sym({}, cls=hel, module=tree)
    ok: list = []

    def target(s: ast.stmt, env: dict):  # type: ignore[no-untyped-def]
        if isinstance(s, (ast.Assign, ast.AnnAssign)) and s.value is not None:
            for t in (s.targets if isinstance(s, ast.Assign) else [s.target]):
                b = sym.ev(t.value, env) if isinstance(t, ast.Attribute) else None
                if isinstance(b, Obj) and f"{b.path}.{t.attr}" == "self._buffer":  # type: ignore[union-attr]
                    c = s.value
                    good = isinstance(c, ast.Call) and ast.unparse(c.func) in ("deque", "collections.deque") \
                        and not c.args and [k.arg for k in c.keywords] == ["maxlen"]
                    v = sym.ev(c.keywords[0].value, env) if good else None  # type: ignore[union-attr]
                    ok.append(isinstance(v, Obj) and v.path == "self._config.initial_buffer_len")
        return None

    sym.run(body_of(init), {cfg: Obj("self._config")}, target)
    if ok != [True]:
        raise Unsupported("initial buffer is not deque(maxlen=config.initial_buffer_len)")


def receive_filter(stream: ast.ClassDef, tree: ast.Module) -> str:
    fn = find_method(stream, "_receive_samples")
    params_of(fn, 1, "_receive_samples")
    stmts = body_of(fn)
    loops = [s for s in stmts if isinstance(s, ast.AsyncFor)]
    if len(loops) != 1 or not isinstance(loops[0].target, ast.Name) or loops[0].orelse:
        raise Unsupported("_receive_samples loop shape")
    loop = loops[0]
    isnan, isinf = ("bvar", "isNaN"), ("bvar", "isInf")
    sym = Sym({"sample.value.isnan()": Num(isnan, "Bool"), "sample.value.isinf()": Num(isinf, "Bool"),
               "math.isnan(sample.value.base_value)": Num(isnan, "Bool"),
               "math.isinf(sample.value.base_value)": Num(isinf, "Bool"),
               "math.isfinite(sample.value.base_value)": Num(("and", (mknot(isnan), mknot(isinf))), "Bool")},
              cls=stream, module=tree, optobjs={"sample.value": ("bvar", "isNone")})
    env: dict = {}
    for s in stmts[:stmts.index(loop)]:
        if isinstance(s, ast.Assign) and len(s.targets) == 1 and isinstance(s.targets[0], ast.Name):
            env[s.targets[0].id] = sym.ev(s.value, env)
    src = sym.ev(loop.iter, env)
    if not (isinstance(src, Obj) and src.path == "self._source"):
        raise Unsupported("_receive_samples loop shape")
    added: list[bool] = []

    def target(s: ast.stmt, e: dict):  # type: ignore[no-untyped-def]
        if isinstance(s, ast.Expr) and isinstance(s.value, ast.Call) and isinstance(s.value.func, ast.Attribute) \
                and s.value.func.attr == "add_sample":
            b = sym.ev(s.value.func.value, e)
            a = [sym.ev(x, e) for x in s.value.args]
            if not (isinstance(b, Obj) and b.path == "self._helper" and len(a) == 1 and not s.value.keywords
                    and isinstance(a[0], Obj) and a[0].path == "sample"):
                raise Unsupported("_receive_samples does not hand the received sample to the helper")
            added.append(True)
            return Num(TRUE, "Bool")
        if isinstance(s, (ast.Continue, ast.Break, ast.Return, ast.Raise)):
            if not isinstance(s, ast.Continue):
                raise Unsupported("_receive_samples leaves its loop")
            return Num(FALSE, "Bool")
        return None

    env[loop.target.id] = Obj("sample")
    # falling off the end of the body = not added
    r = sym.run(list(loop.body) + [ast.Continue()], env, target)
    if not added or not isinstance(r, Num) or r.ty != "Bool":
        raise Unsupported("_receive_samples does not add the accepted sample")
    return ("/-- The condition under which `_StreamingHelper._receive_samples` hands a sample to the helper\n"
            "(`isInf`: the value is +inf or -inf). -/\n"
            "def acceptsSample (isNone isNaN isInf : Bool) : Bool :=\n  " + normal(r.term, ["isNone", "isNaN", "isInf"]))


def generate(repo: pathlib.Path) -> str:
    tree = ast.parse((repo / SOURCES[0]).read_text())
    res = find_class(tree, "Resampler")
    hel = find_class(tree, "_ResamplingHelper")
    stream = find_class(tree, "_StreamingHelper")
    bisect_import(tree)
    add_sample_shape(hel, tree)
    args: dict = {}
    timer = timer_hack(res, tree, args)
    parts = [constants(tree), calc_window_end(res, tree, args), timer, resample_loop(res, tree),
             helper_parts(hel, tree), receive_filter(stream, tree)]
    return ("set_option linter.unusedVariables false\n\nnamespace Extracted.Resampling\n\n" + PRELUDE + "\n"
            + "\n\n".join(parts) + "\n\nend Extracted.Resampling\n")
