"""`_ringbuffer/buffer.py` + `MovingWindow.at` -> Lean decision predicates and expressions (C09).

The ring buffer is imperative (a mutable gap list, a `while` loop, slicing), so the *control skeleton* of
every modelled method is hand-modelled in `Frequenz/Model/RingBuffer.lean`; what is translated on every run
is each *decision and expression the skeleton hangs on*: the comparison in `Gap.contains`, the rounding test
of `normalize_timestamp`, the reject test / new bounds of `update`, every branch condition and every
constructed `Gap` of `_update_gaps`, `_cleanup_gaps`, `_remove_gap`, the clamping / emptiness test / fill
origin of `window`, the index arithmetic of `_fill_gaps`, the range tests of `to_internal_index` and
`MovingWindow.at`.  They become `abbrev … : Prop` / `def … : Int` in `Extracted.RingBuffer`, which the model
imports.  The rest of each method (statement order, which branch does what) is pinned: the method is
unparsed with the translated expressions replaced by holes and compared with the skeleton recorded below;
any other text raises (the check then treats the proofs as broken and searches for a failing input).

Time is translated to `Int` (the model instantiates `period := 1`, `fullRange := cap`: slot numbers).
"""
from __future__ import annotations

import ast
import pathlib
import sys

sys.path.insert(0, str(pathlib.Path(__file__).resolve().parent))
from _rb_common import COMMON, Bad, _if_tests, expect, find_method, prop, strip_doc, tr  # noqa: E402

NAME = "RingBuffer"
SOURCES = ["src/frequenz/sdk/timeseries/_ringbuffer/buffer.py"]

SK_CONTAINS = """
def contains(self, timestamp):
    if HOLE_c:
        return True
    return False
"""

SK_NORMALIZE = """
def normalize_timestamp(self, timestamp):
    num_samples, remainder = divmod(timestamp - self._time_index_alignment, self._sampling_period)
    if HOLE_c:
        num_samples += 1
    return self._time_index_alignment + num_samples * self._sampling_period
"""

SK_UPDATE = """
def update(self, sample):
    timestamp = self.normalize_timestamp(sample.timestamp)
    if HOLE_reject:
        raise IndexError(f'Timestamp {timestamp} too old (cut-off is at {self._timestamp_oldest}).')
    prev_newest = self._timestamp_newest
    self._timestamp_newest = HOLE_newest
    self._timestamp_oldest = HOLE_oldest
    if self.has_value(sample):
        value = sample.value.base_value
    else:
        value = np.nan
    self._buffer[self.to_internal_index(timestamp)] = value
    self._update_gaps(timestamp, prev_newest, not self.has_value(sample))
"""

SK_HAS_VALUE = """
def has_value(self, sample):
    return not sample.value is None and (not sample.value.isnan())
"""

SK_UPDATE_GAPS = """
def _update_gaps(self, timestamp, newest, record_as_missing):
    found_in_gaps = self.is_missing(timestamp)
    if record_as_missing:
        if not found_in_gaps:
            start_gap = HOLE_missing_s
            self._gaps.append(Gap(start=start_gap, end=HOLE_missing_e))
    else:
        if HOLE_jump:
            self._gaps = [Gap(start=HOLE_jump_s, end=HOLE_jump_e)]
            return
        if HOLE_created:
            self._gaps.append(Gap(start=HOLE_created_s, end=HOLE_created_e))
        if len(self._gaps) > 0 and found_in_gaps:
            self._remove_gap(timestamp)
    self._cleanup_gaps()
"""

SK_IS_MISSING = """
def is_missing(self, timestamp):
    return any(map(lambda _lam0: _lam0.contains(timestamp), self._gaps))
"""

SK_CLEANUP = """
def _cleanup_gaps(self):
    self._gaps = sorted(self._gaps, key=lambda _lam0: _lam0.start.timestamp())
    i = 0
    while i < len(self._gaps):
        w_1 = self._gaps[i]
        if i < len(self._gaps) - 1:
            w_2 = self._gaps[i + 1]
        else:
            w_2 = None
        if HOLE_outdated:
            del self._gaps[i]
        elif HOLE_rolled:
            w_1.start = self._timestamp_oldest
        elif w_2 and HOLE_subset:
            del self._gaps[i + 1]
        elif w_2 and HOLE_neighbor:
            w_1.end = w_2.end
            del self._gaps[i + 1]
        else:
            i += 1
"""

SK_REMOVE = """
def _remove_gap(self, timestamp):
    gap_index, gap = next(filter(lambda _lam0: _lam0[1].contains(timestamp), enumerate(self._gaps)), (0, None))
    if gap is None:
        return
    if HOLE_at_start:
        if HOLE_whole:
            del self._gaps[gap_index]
        else:
            gap.start = HOLE_after
    elif HOLE_at_end:
        gap.end = timestamp
    else:
        new_gap = deepcopy(gap)
        gap.end = timestamp
        new_gap.start = HOLE_after2
        self._gaps.append(new_gap)
"""


def generate(repo: pathlib.Path) -> str:  # noqa: C901  (one linear recipe)
    buf = ast.parse((repo / SOURCES[0]).read_text())
    out: list[str] = []

    def emit_prop(name: str, params: str, body: str, doc: str) -> None:
        out.append(f"/-- {doc} -/\nabbrev {name} {params} : Prop := {body}\n")

    def emit_int(name: str, params: str, body: str, doc: str) -> None:
        out.append(f"/-- {doc} -/\ndef {name} {params} : Int := {body}\n")

    # ---- Gap.contains
    fn = find_method(buf, "Gap", "contains", like=[SK_CONTAINS])
    test = _if_tests(strip_doc(fn))[0].test
    expect(fn, {id(test): "c"}, [SK_CONTAINS], "Gap.contains")
    emit_prop("gapContains", "(start end_ timestamp : Int)",
              prop(test, {"self.start": "start", "self.end": "end_", "timestamp": "timestamp"}), "`Gap.contains`")

    # ---- normalize_timestamp
    fn = find_method(buf, "OrderedRingBuffer", "normalize_timestamp", like=[SK_NORMALIZE])
    test = _if_tests(strip_doc(fn))[0].test
    expect(fn, {id(test): "c"}, [SK_NORMALIZE], "normalize_timestamp")
    emit_prop("normRoundUp", "(remainder numSamples half : Int)",
              prop(test, {"remainder": "remainder", "num_samples": "numSamples", "self._sampling_period / 2": "half",
                          "timedelta(0)": "(0)"}),
              "`normalize_timestamp`: when the floor quotient is incremented (`half` = `sampling_period / 2`, a timedelta "
              "true division: rounded half-to-even to a microsecond)")

    # ---- update
    fn = find_method(buf, "OrderedRingBuffer", "update", like=[SK_UPDATE])
    body = strip_doc(fn)
    rej = _if_tests(body)[0].test
    assigns = [s for s in body if isinstance(s, ast.Assign)]
    a_new = next(s for s in assigns if ast.unparse(s.targets[0]) == "self._timestamp_newest")
    a_old = next(s for s in assigns if ast.unparse(s.targets[0]) == "self._timestamp_oldest")
    expect(fn, {id(rej): "reject", id(a_new.value): "newest", id(a_old.value): "oldest"}, [SK_UPDATE], "update")
    emit_prop("updReject", "(timestamp oldest : Int) (oldestIsMax : Bool)",
              prop(rej, {**COMMON, "self._timestamp_oldest != self._TIMESTAMP_MAX": "(oldestIsMax = false)"}),
              "`update`: the sample is too old")
    emit_int("updNewest", "(selfNewest timestamp : Int)", tr(a_new.value, COMMON), "`update`: new `_timestamp_newest`")
    emit_int("updOldest", "(selfNewest fullRange period : Int)", tr(a_old.value, COMMON), "`update`: new `_timestamp_oldest`")
    expect(find_method(buf, "OrderedRingBuffer", "has_value", like=[SK_HAS_VALUE]), {}, [SK_HAS_VALUE], "has_value")

    # ---- _update_gaps
    fn = find_method(buf, "OrderedRingBuffer", "_update_gaps", like=[SK_UPDATE_GAPS])
    body = strip_doc(fn)
    try:
        # normal form: `if record_as_missing: <missing part> else: <jump>; <created>; <remove>`
        (if_missing,) = _if_tests(body)
        if_jump, if_created = _if_tests(if_missing.orelse)[:2]
        jump_gap = if_jump.body[0].value.elts[0]  # type: ignore[attr-defined]
        created_gap = if_created.body[0].value.args[0]  # type: ignore[attr-defined]
        inner = if_missing.body[0]
        start_gap = inner.body[0].value  # type: ignore[attr-defined]
        missing_gap = inner.body[1].value.args[0]  # type: ignore[attr-defined]
        kw = lambda call, k: next(x.value for x in call.keywords if x.arg == k)  # noqa: E731
        holes = {id(if_jump.test): "jump", id(kw(jump_gap, "start")): "jump_s", id(kw(jump_gap, "end")): "jump_e",
                 id(if_created.test): "created", id(kw(created_gap, "start")): "created_s",
                 id(kw(created_gap, "end")): "created_e", id(start_gap): "missing_s", id(kw(missing_gap, "end")): "missing_e"}
    except (AttributeError, IndexError, ValueError, StopIteration) as e:
        raise Bad(f"_update_gaps: unexpected shape ({e})") from e
    expect(fn, holes, [SK_UPDATE_GAPS], "_update_gaps")
    ug = {**COMMON, "newest": "newest", "found_in_gaps": "(foundInGaps = true)"}
    emit_prop("ugJump", "(selfNewest newest fullRange : Int)", prop(if_jump.test, ug),
              "`_update_gaps`: valid value so far ahead that every older slot leaves the window")
    emit_int("ugJumpStart", "(oldest selfNewest : Int)", tr(kw(jump_gap, "start"), ug), "start of the single gap after a jump")
    emit_int("ugJumpEnd", "(oldest selfNewest : Int)", tr(kw(jump_gap, "end"), ug), "end of the single gap after a jump")
    emit_prop("ugCreated", "(foundInGaps : Bool) (timestamp newest period : Int)", prop(if_created.test, ug),
              "`_update_gaps`: the valid value skipped slots after the previous newest one")
    emit_int("ugCreatedStart", "(timestamp newest period : Int)", tr(kw(created_gap, "start"), ug), "start of the skipped range")
    emit_int("ugCreatedEnd", "(timestamp newest period : Int)", tr(kw(created_gap, "end"), ug), "end of the skipped range")
    emit_int("ugMissingStart", "(timestamp newest period : Int)", tr(start_gap, ug), "start of the gap recorded for a missing value")
    emit_int("ugMissingEnd", "(timestamp newest period : Int)", tr(kw(missing_gap, "end"), ug), "end of the gap recorded for a missing value")
    expect(find_method(buf, "OrderedRingBuffer", "is_missing", like=[SK_IS_MISSING]), {}, [SK_IS_MISSING], "is_missing")

    # ---- _cleanup_gaps
    fn = find_method(buf, "OrderedRingBuffer", "_cleanup_gaps", like=[SK_CLEANUP])
    try:
        loop = next(s for s in strip_doc(fn) if isinstance(s, ast.While))
        chain = loop.body[-1]
        c1 = chain.test
        c2 = chain.orelse[0].test
        c3 = chain.orelse[0].orelse[0].test
        c4 = chain.orelse[0].orelse[0].orelse[0].test
        c3b, c4b = c3.values[1:], c4.values[1:]
        if ast.unparse(c3.values[0]) != "w_2" or ast.unparse(c4.values[0]) != "w_2":
            raise Bad("_cleanup_gaps: w_2 guard")
        c3n = ast.BoolOp(op=ast.And(), values=c3b) if len(c3b) > 1 else c3b[0]
        c4n = ast.BoolOp(op=ast.And(), values=c4b) if len(c4b) > 1 else c4b[0]
    except (AttributeError, IndexError, StopIteration) as e:
        raise Bad(f"_cleanup_gaps: unexpected shape ({e})") from e
    # the `w_2 and …` guards stay in the skeleton; the holes are the remaining conjuncts
    sk_holes = {id(c1): "outdated", id(c2): "rolled"}
    # replace the tail conjuncts by one hole each: rebuild the tests so that the skeleton shows `w_2 and HOLE`
    c3.values = [c3.values[0], ast.Name(id="HOLE_subset", ctx=ast.Load())]
    c4.values = [c4.values[0], ast.Name(id="HOLE_neighbor", ctx=ast.Load())]
    expect(fn, sk_holes, [SK_CLEANUP], "_cleanup_gaps")
    cl = {"w_1.start": "w1s", "w_1.end": "w1e", "w_2.start": "w2s", "w_2.end": "w2e", "self._timestamp_oldest": "oldest"}
    emit_prop("clOutdated", "(w1s w1e oldest : Int)", prop(c1, cl), "`_cleanup_gaps`: the gap ends before the window")
    emit_prop("clRolled", "(w1s w1e oldest : Int)", prop(c2, cl), "`_cleanup_gaps`: the gap starts before the window")
    emit_prop("clSubset", "(w1s w1e w2s w2e : Int)", prop(c3n, cl), "`_cleanup_gaps`: the next gap is contained in this one")
    emit_prop("clNeighbor", "(w1s w1e w2s w2e : Int)", prop(c4n, cl), "`_cleanup_gaps`: the next gap touches or overlaps this one")

    # ---- _remove_gap
    fn = find_method(buf, "OrderedRingBuffer", "_remove_gap", like=[SK_REMOVE])
    try:
        ifs = _if_tests(strip_doc(fn))
        main = ifs[1]
        whole = main.body[0]
        at_end = main.orelse[0]
        after = whole.orelse[0].value
        after2 = next(s for s in at_end.orelse if isinstance(s, ast.Assign) and ast.unparse(s.targets[0]) == "new_gap.start").value
        holes = {id(main.test): "at_start", id(whole.test): "whole", id(after): "after", id(at_end.test): "at_end",
                 id(after2): "after2"}
    except (AttributeError, IndexError, StopIteration) as e:
        raise Bad(f"_remove_gap: unexpected shape ({e})") from e
    expect(fn, holes, [SK_REMOVE], "_remove_gap")
    rg = {**COMMON, "gap.start": "gs", "gap.end": "ge"}
    emit_prop("rgAtStart", "(gs ge timestamp period : Int)", prop(main.test, rg), "`_remove_gap`: the slot is the first of its gap")
    emit_prop("rgWhole", "(gs ge timestamp period : Int)", prop(whole.test, rg), "`_remove_gap`: … and also the last one")
    emit_prop("rgAtEnd", "(gs ge timestamp period : Int)", prop(at_end.test, rg), "`_remove_gap`: the slot is the last of its gap")
    emit_int("rgAfter", "(timestamp period : Int)", tr(after, rg), "`_remove_gap`: new start when the first slot is removed")
    emit_int("rgAfterSplit", "(timestamp period : Int)", tr(after2, rg), "`_remove_gap`: start of the second half of a split gap")

    return ("import Frequenz.Model.Prelude\n\nset_option linter.unusedVariables false\n\nnamespace Extracted.RingBuffer\n\n" + "\n".join(out)
            + "\nend Extracted.RingBuffer\n")
