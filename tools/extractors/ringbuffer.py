"""`_ringbuffer/buffer.py` + `MovingWindow.at` -> Lean decision predicates and expressions (C09).

The ring buffer is imperative (a mutable gap list, a `while` loop, slicing), so the *control skeleton* of
every modelled method is hand-modelled in `Frequenz/Model/RingBuffer.lean`; what is translated on every run
is each *decision and expression the skeleton hangs on*: the comparison in `Gap.contains`, the rounding test
of `normalize_timestamp`, the reject test / new bounds of `update`, every branch condition and every
constructed `Gap` of `_update_gaps`, `_cleanup_gaps`, `_remove_gap`, the clamping / emptiness test / fill
origin of `window`, the index arithmetic of `_fill_gaps`, the range tests of `to_internal_index` and
`MovingWindow.at`.  They become `abbrev … : Prop` / `def … : Int` in `Extracted.RingBuffer`, which the model
imports.  The rest of each method (statement order, which branch does what) is pinned: the method is brought
into a behaviour-preserving normal form (`_rb_common.normalize`: renamed locals, reordered independent
statements, inverted tests, guard clauses, `match`, loops written as comprehensions, inlined helpers / locals
all give the same form) and unified with the pattern recorded below, whose holes are the translated
expressions; any other structure raises (the check then treats the proofs as broken and searches for a failing
input).

Time is translated to `Int` (the model instantiates `period := 1`, `fullRange := cap`: slot numbers).
"""
from __future__ import annotations

import ast
import pathlib
import sys

sys.path.insert(0, str(pathlib.Path(__file__).resolve().parent))
from _rb_common import COMMON, find_method, lean_prop, match, negate, prop, tr  # noqa: E402

NAME = "RingBuffer"
SOURCES = ["src/frequenz/sdk/timeseries/_ringbuffer/buffer.py"]

SK_CONTAINS = """
def contains(self, timestamp):
    return HOLE_c
"""

SK_NORMALIZE = """
def normalize_timestamp(self, timestamp):
    num_samples, remainder = divmod(timestamp - self._time_index_alignment, self._sampling_period)
    if HOLE_keep:
        return self._time_index_alignment + num_samples * self._sampling_period
    num_samples += 1
    return self._time_index_alignment + num_samples * self._sampling_period
"""

SK_UPDATE = """
def update(self, sample):
    if HOLE_reject:
        raise IndexError
    prev_newest = self._timestamp_newest
    self._timestamp_newest = HOLE_newest
    self._timestamp_oldest = HOLE_oldest
    if self.has_value(sample):
        self._buffer[self.to_internal_index(self.normalize_timestamp(sample.timestamp))] = sample.value.base_value
    else:
        self._buffer[self.to_internal_index(self.normalize_timestamp(sample.timestamp))] = np.nan
    self._update_gaps(self.normalize_timestamp(sample.timestamp), prev_newest, not self.has_value(sample))
"""

SK_HAS_VALUE = """
def has_value(self, sample):
    return sample.value is not None and (not sample.value.isnan())
"""

SK_UPDATE_GAPS = """
def _update_gaps(self, timestamp, newest, record_as_missing):
    found_in_gaps = self.is_missing(timestamp)
    if record_as_missing:
        if not found_in_gaps:
            self._gaps.append(Gap(start=HOLE_missing_s, end=HOLE_missing_e))
        self._cleanup_gaps()
    elif HOLE_jump:
        self._gaps = [Gap(start=HOLE_jump_s, end=HOLE_jump_e)]
    else:
        if found_in_gaps:
            if len(self._gaps) > 0:
                self._remove_gap(timestamp)
        elif HOLE_created:
            self._gaps.append(Gap(start=HOLE_created_s, end=HOLE_created_e))
        self._cleanup_gaps()
"""

# The same method without the `len(self._gaps) > 0` guard around `_remove_gap`: `found_in_gaps` (some gap contains the
# timestamp) already implies a non-empty gap list — `isMissing_pos` in Lemmas/RingBufferTie.lean — so the guard is redundant.
SK_UPDATE_GAPS_NOGUARD = SK_UPDATE_GAPS.replace("""            if len(self._gaps) > 0:
                self._remove_gap(timestamp)
""", """            self._remove_gap(timestamp)
""")
assert SK_UPDATE_GAPS_NOGUARD != SK_UPDATE_GAPS

SK_IS_MISSING = """
def is_missing(self, timestamp):
    return any((g.contains(timestamp) for g in self._gaps))
"""

SK_CLEANUP = """
def _cleanup_gaps(self):
    i = 0
    self._gaps = sorted(self._gaps, key=lambda x: x.start.timestamp())
    while i < len(self._gaps):
        w_1 = self._gaps[i]
        if i + 1 < len(self._gaps):
            w_2 = self._gaps[i + 1]
        else:
            w_2 = None
        if HOLE_outdated:
            del self._gaps[i]
        elif HOLE_rolled:
            w_1.start = self._timestamp_oldest
        elif w_2 is not None:
            if HOLE_subset:
                del self._gaps[i + 1]
            elif HOLE_apart:
                i += 1
            else:
                w_1.end = w_2.end
                del self._gaps[i + 1]
        else:
            i += 1
"""

SK_REMOVE = """
def _remove_gap(self, timestamp):
    gap_index, gap = next(((j, g) for j, g in enumerate(self._gaps) if g.contains(timestamp)), (0, None))
    if gap is not None:
        if HOLE_at_start:
            if HOLE_whole:
                del self._gaps[gap_index]
            else:
                gap.start = HOLE_after
        elif HOLE_at_end:
            gap.end = timestamp
        else:
            new_gap = deepcopy(gap)
            gap.end = timestamp
            new_gap.start = HOLE_after2
            self._gaps.append(new_gap)
"""


def generate(repo: pathlib.Path) -> str:
    buf = ast.parse((repo / SOURCES[0]).read_text())
    out: list[str] = []

    def emit_prop(name: str, params: str, body: str, doc: str) -> None:
        out.append(lean_prop(name, params, body, doc))

    def emit_int(name: str, params: str, body: str, doc: str) -> None:
        out.append(f"/-- {doc} -/\ndef {name} {params} : Int := {body}\n")

    def holes(cls: str, name: str, *patterns: str) -> dict[str, ast.expr]:
        return match(find_method(buf, cls, name), list(patterns), f"{cls}.{name}")[1]

    # ---- Gap.contains
    h = holes("Gap", "contains", SK_CONTAINS)
    emit_prop("gapContains", "(start end_ timestamp : Int)",
              prop(h["c"], {"self.start": "start", "self.end": "end_", "timestamp": "timestamp"}), "`Gap.contains`")

    # ---- normalize_timestamp
    h = holes("OrderedRingBuffer", "normalize_timestamp", SK_NORMALIZE)
    # (in the normal form the branch that keeps the floor quotient comes first: the recorded test is the negation)
    emit_prop("normRoundUp", "(remainder numSamples half : Int)",
              prop(negate(h["keep"]), {"remainder": "remainder", "num_samples": "numSamples",
                                       "self._sampling_period / 2": "half", "timedelta(0)": "(0)",
                                       "truth:remainder": "remainder"}),
              "`normalize_timestamp`: when the floor quotient is incremented (`half` = `sampling_period / 2`, a timedelta "
              "true division: rounded half-to-even to a microsecond)")

    # ---- update
    h = holes("OrderedRingBuffer", "update", SK_UPDATE)
    # (`timestamp`, the normalised timestamp of the sample, is not a local of the normal form)
    up = {k: v for k, v in COMMON.items() if k != "timestamp"} | {
        "self.normalize_timestamp(sample.timestamp)": "timestamp",
        "self._timestamp_oldest != self._TIMESTAMP_MAX": "(oldestIsMax = false)",
        "self._timestamp_oldest == self._TIMESTAMP_MAX": "(oldestIsMax = true)",
        "self._TIMESTAMP_MAX != self._timestamp_oldest": "(oldestIsMax = false)",
        "self._TIMESTAMP_MAX == self._timestamp_oldest": "(oldestIsMax = true)"}
    emit_prop("updReject", "(timestamp oldest : Int) (oldestIsMax : Bool)", prop(h["reject"], up),
              "`update`: the sample is too old")
    emit_int("updNewest", "(selfNewest timestamp : Int)", tr(h["newest"], up), "`update`: new `_timestamp_newest`")
    emit_int("updOldest", "(selfNewest fullRange period : Int)", tr(h["oldest"], up), "`update`: new `_timestamp_oldest`")
    holes("OrderedRingBuffer", "has_value", SK_HAS_VALUE)

    # ---- _update_gaps
    h = holes("OrderedRingBuffer", "_update_gaps", SK_UPDATE_GAPS, SK_UPDATE_GAPS_NOGUARD)
    ug = {**COMMON, "newest": "newest", "found_in_gaps": "(foundInGaps = true)"}
    emit_prop("ugJump", "(selfNewest newest fullRange : Int)", prop(h["jump"], ug),
              "`_update_gaps`: valid value so far ahead that every older slot leaves the window")
    emit_int("ugJumpStart", "(oldest selfNewest : Int)", tr(h["jump_s"], ug), "start of the single gap after a jump")
    emit_int("ugJumpEnd", "(oldest selfNewest : Int)", tr(h["jump_e"], ug), "end of the single gap after a jump")
    emit_prop("ugCreated", "(foundInGaps : Bool) (timestamp newest period : Int)", # (the decision on `found_in_gaps` comes first in the normal form: the recorded test is the conjunction)
              prop(ast.BoolOp(op=ast.And(), values=[negate(ast.Name(id="found_in_gaps", ctx=ast.Load())), h["created"]]), ug),
              "`_update_gaps`: the valid value skipped slots after the previous newest one")
    emit_int("ugCreatedStart", "(timestamp newest period : Int)", tr(h["created_s"], ug), "start of the skipped range")
    emit_int("ugCreatedEnd", "(timestamp newest period : Int)", tr(h["created_e"], ug), "end of the skipped range")
    emit_int("ugMissingStart", "(timestamp newest period : Int)", tr(h["missing_s"], ug), "start of the gap recorded for a missing value")
    emit_int("ugMissingEnd", "(timestamp newest period : Int)", tr(h["missing_e"], ug), "end of the gap recorded for a missing value")
    holes("OrderedRingBuffer", "is_missing", SK_IS_MISSING)

    # ---- _cleanup_gaps  (the `w_2 is not None` decision stays in the pattern; in the normal form the positive test
    # "the next gap lies apart" comes first: the recorded test is its negation)
    h = holes("OrderedRingBuffer", "_cleanup_gaps", SK_CLEANUP)
    cl = {"w_1.start": "w1s", "w_1.end": "w1e", "w_2.start": "w2s", "w_2.end": "w2e", "self._timestamp_oldest": "oldest"}
    emit_prop("clOutdated", "(w1s w1e oldest : Int)", prop(h["outdated"], cl), "`_cleanup_gaps`: the gap ends before the window")
    emit_prop("clRolled", "(w1s w1e oldest : Int)", prop(h["rolled"], cl), "`_cleanup_gaps`: the gap starts before the window")
    emit_prop("clSubset", "(w1s w1e w2s w2e : Int)", prop(h["subset"], cl), "`_cleanup_gaps`: the next gap is contained in this one")
    emit_prop("clNeighbor", "(w1s w1e w2s w2e : Int)", prop(negate(h["apart"]), cl), "`_cleanup_gaps`: the next gap touches or overlaps this one")

    # ---- _remove_gap
    h = holes("OrderedRingBuffer", "_remove_gap", SK_REMOVE)
    rg = {**COMMON, "gap.start": "gs", "gap.end": "ge"}
    emit_prop("rgAtStart", "(gs ge timestamp period : Int)", prop(h["at_start"], rg), "`_remove_gap`: the slot is the first of its gap")
    emit_prop("rgWhole", "(gs ge timestamp period : Int)", prop(h["whole"], rg), "`_remove_gap`: … and also the last one")
    emit_prop("rgAtEnd", "(gs ge timestamp period : Int)", prop(h["at_end"], rg), "`_remove_gap`: the slot is the last of its gap")
    emit_int("rgAfter", "(timestamp period : Int)", tr(h["after"], rg), "`_remove_gap`: new start when the first slot is removed")
    emit_int("rgAfterSplit", "(timestamp period : Int)", tr(h["after2"], rg), "`_remove_gap`: start of the second half of a split gap")

    return ("import Frequenz.Model.Prelude\n\nset_option linter.unusedVariables false\n\nnamespace Extracted.RingBuffer\n\n" + "\n".join(out)
            + "\nend Extracted.RingBuffer\n")
