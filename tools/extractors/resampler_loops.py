"""`timeseries/_resampling.py` -> `Extracted/ResamplerLoops.lean`: the CONTROL FLOW of the resampler, translated from the
current source text (the arithmetic, keys and flags stay in `resampling.py` -> `Extracted/Resampling.lean`).

Pure `ast`.  Built on the symbolic executor and the normaliser of `resampling.py` (imported read-only): every method is
executed path-wise with its object state threaded, helpers of the same class / module inlined with parameter binding,
`match`/ternaries/guard clauses/walrus understood; the result (final state, returned value, effects) is printed as a Lean
term in normal form, so behaviour-preserving rewrites print the same text.  On top of that this file adds

* the dict `self._resamplers` as the list of its keys in insertion order (`k in d`, `d[k] = fresh helper`, `del d[k]` /
  `pop` with `try … except KeyError`)                                        -> `addTimeseries`, `removeTimeseries`
* `_StreamingHelper.resample`: who raises, what is handed to the sink        -> `streamingResample`
* one iteration of the `async for … in self._timer` loop of `Resampler.resample()`, split at its only await:
  lists as indexed families (a snapshot `list(d.items())`, the coroutine list, the gather results aligned with it,
  `enumerate`/`zip`/indexing, comprehensions and accumulating `for` loops are the same thing), `results[i]` over a list
  that may be longer than the results = `IndexError` = `none`            -> `gatherCalls`, `afterGather`
* `_ResamplingHelper.add_sample`, `_update_source_sample_period`, `_update_buffer_len`, `resample` as total functions over a
  list-backed `deque(maxlen)`; a division by a zero duration = `ZeroDivisionError` = `none`
                                                                             -> `addSample`, `updatePeriod`, `updateBufferLen`, `resampleHelper`

The library primitives are those of the hand-written prelude (`Model/ResamplingHelper.lean`: `lastN` = what a
`deque(maxlen)` keeps, `bisectRight` = CPython's binary search).  Anything that cannot be established raises.
"""
from __future__ import annotations

import ast
import pathlib
import sys

sys.path.insert(0, str(pathlib.Path(__file__).resolve().parent))
import resampling as RS  # noqa: E402
from resampling import Num, Obj, Opaque, Tup, Unsupported, V, Lit, Op, TRUE, FALSE, mknot  # noqa: E402

NAME = "ResamplerLoops"
SOURCES = ["src/frequenz/sdk/timeseries/_resampling.py"]

RS.OP_FMT.update({
    "keysAppend": "({0} ++ [{1}])", "keysRemove": "({0}.filter (· ≠ {1}))", "someTs": "(some {0})",
    "someInt": "(some {0})", "dequeAppend": "(ResamplingHelper.lastN {0} ({1} ++ [{2}]))",
    "dequeRebuild": "(ResamplingHelper.lastN {0} {1})", "bufLen": "{0}.length", "toNat": "(Int.toNat {0})",
    "window": "(({0}.take (ResamplingHelper.bisectRight {0} {2})).drop (ResamplingHelper.bisectRight {0} {1}))",
    "someRel": "(some {0})", "sampleTs": "{0}.ts",
})
RAISES = V("<raises>")
OPT_PARAMS = ("samplingStart", "samplingPeriod")  # Optional inputs that are also handed back as part of the state


def _eta(t):  # type: ignore[no-untyped-def]
    """Inside `match x with | none => a | some x_v => b`, `x` is `none` in `a` and `some x_v` in `b`; a match that only
    rebuilds `x` is `x`.  (One spelling for an unchanged Optional field, however the code narrowed it.)"""
    if not isinstance(t, tuple) or not t:
        return t
    if t[0] == "match" and t[1] in OPT_PARAMS:
        x = t[1]
        a = _eta(RS.replace(t[2], V(x), V("none")))
        b = _eta(RS.replace(t[3], V(x), Op("someInt", "OInt", V(x + "_v"))))
        if a == V("none") and b == Op("someInt", "OInt", V(x + "_v")):
            return V(x)
        if a == b and not RS.mentions(b, x + "_v"):
            return a
        return ("match", x, a, b)
    if t[0] in ("ite", "match"):
        out = (t[0], t[1], _eta(t[2]), _eta(t[3]))
        return out[2] if out[2] == out[3] and t[0] == "ite" else out
    return t


def normal(t, params: list) -> str:  # type: ignore[no-untyped-def]
    RS._PARAMS = list(params)
    try:
        lifted = RS.expand(t, {}, 0, RS.first_atoms)
        return RS.render(_eta(RS.expand(lifted, {})))
    finally:
        RS._PARAMS = []


def finish(text: str, what: str) -> str:
    if "<raises>" in text:
        raise Unsupported(f"{what}: an exception may escape on a reachable path")
    if "<" in text and any(m in text for m in ("<isExc", "<updated>", "<slice", "<opaque")):
        raise Unsupported(f"{what}: an internal marker reached the generated text")
    return text


class _Pop(ast.stmt):
    """Pseudo statement: the innermost `try` has been left."""
    _fields = ()


class _Mark(ast.stmt):
    _fields = ()


def catches(h: ast.ExceptHandler, exc: str) -> bool:
    if h.type is None:
        return True
    names = [ast.unparse(x) for x in (h.type.elts if isinstance(h.type, ast.Tuple) else [h.type])]
    ok = {"KeyError": {"KeyError", "LookupError", "Exception", "BaseException"}}[exc]
    return any(n in ok for n in names)


class XSym(RS.Sym):
    """`RS.Sym` plus: exceptions as outcomes (`raise`, a failing `del`), `try … except` around them."""

    raises_value = None  # env -> the value of a path that ends with an exception escaping the function
    in_loop = 0

    def on_raise(self, s, env: dict):  # type: ignore[no-untyped-def]
        if self.raises_value is None:
            raise Unsupported(f"a path ends with `{ast.unparse(s)[:50]}`")
        return self.raises_value(env)

    def throw(self, exc: str, env: dict, target):  # type: ignore[no-untyped-def]
        """Continue in the innermost handler that catches `exc`, or end the path with the exception."""
        hs = env.get("<handlers>", ())
        for i in range(len(hs) - 1, -1, -1):
            handlers, rest = hs[i]
            for h in handlers:
                if catches(h, exc):
                    e2 = dict(env)
                    e2["<handlers>"] = hs[:i]
                    return self.run(list(h.body) + rest, e2, target)
        if self.raises_value is None:
            raise Unsupported(f"{exc} may escape")
        return self.raises_value(env)

    def run(self, stmts, env, target):  # type: ignore[no-untyped-def]
        if stmts:
            s, rest = stmts[0], stmts[1:]
            if isinstance(s, _Pop):
                e2 = dict(env)
                e2["<handlers>"] = env.get("<handlers>", ())[:-1]
                return self.run(rest, e2, target)
            if isinstance(s, ast.Try) and s.handlers and not s.finalbody:
                e2 = dict(env)
                e2["<handlers>"] = env.get("<handlers>", ()) + ((list(s.handlers), rest),)
                return self.run(list(s.body) + [_Pop()] + list(s.orelse) + rest, e2, target)
            if isinstance(s, ast.Raise):
                hit = target(s, env)
                if hit is not None:
                    return hit
                return self.on_raise(s, env)
            if isinstance(s, ast.Continue) and self.in_loop:
                hit = target(s, env)
                if hit is not None:
                    return hit
                return self.end(env)
        return super().run(stmts, env, target)


# ------------------------------------------------------------------------------------------------ (a) the dict
class KeysV:
    def __init__(self, term):  # type: ignore[no-untyped-def]
        self.term = term


class FreshHelper:
    """`_StreamingHelper(…, source, …)` just constructed for the source `key`."""

    def __init__(self, key):  # type: ignore[no-untyped-def]
        self.key = key


def streaming_roles(stream: ast.ClassDef) -> dict:
    """Which `__init__` parameter of `_StreamingHelper` is the source (the attribute `_receive_samples` iterates)."""
    recv = RS.find_method(stream, "_receive_samples")
    loops = [n for n in ast.walk(recv) if isinstance(n, ast.AsyncFor)]
    if len(loops) != 1 or not (isinstance(loops[0].iter, ast.Attribute) and ast.unparse(loops[0].iter.value) == "self"):
        raise Unsupported("_receive_samples: the source attribute")
    src_attr = loops[0].iter.attr
    init = RS.find_method(stream, "__init__")
    params = [a.arg for a in init.args.posonlyargs + init.args.args][1:]
    role = {}
    for n in ast.walk(init):
        if isinstance(n, (ast.Assign, ast.AnnAssign)) and n.value is not None and isinstance(n.value, ast.Name) \
                and n.value.id in params:
            for t in (n.targets if isinstance(n, ast.Assign) else [n.target]):
                if isinstance(t, ast.Attribute) and ast.unparse(t.value) == "self":
                    role[t.attr] = n.value.id
    if src_attr not in role:
        raise Unsupported("_StreamingHelper.__init__ does not store its source parameter")
    return {"source_attr": src_attr, "source_param": role[src_attr], "params": params, "attr_of_param": {v: k for k, v in role.items()}}


class DictSym(XSym):
    KEYS = "self._resamplers"

    def __init__(self, cls, module, stream_cls):  # type: ignore[no-untyped-def]
        super().__init__({}, cls=cls, module=module)
        self.stream_name = stream_cls.name
        self.roles = streaming_roles(stream_cls)
        self.key = None  # the parameter object used as the key

    def is_key(self, v) -> bool:  # type: ignore[no-untyped-def]
        if isinstance(v, Obj) and v.path.startswith("<p"):
            if self.key is None:
                self.key = v.path
            return self.key == v.path
        return False

    def keys_of(self, n: ast.expr, env: dict):  # type: ignore[no-untyped-def]
        v = self.ev(n, env)
        return v if isinstance(v, KeysV) else None

    def member(self, d: KeysV):  # type: ignore[no-untyped-def]
        return ("prop", f"source ∈ {RS.render(RS.simp(d.term, {}))}")

    def call(self, n: ast.Call, env: dict):  # type: ignore[no-untyped-def]
        f = n.func
        if isinstance(f, ast.Name) and f.id == self.stream_name:
            ps = self.roles["params"]
            given = dict(zip(ps, n.args))
            for k in n.keywords:
                if k.arg is None or k.arg in given:
                    raise Unsupported(f"call of {self.stream_name}")
                given[k.arg] = k.value
            a = given.get(self.roles["source_param"])
            v = self.ev(a, env) if a is not None else None
            if not self.is_key(v):
                raise Unsupported(f"{self.stream_name}(…) is not created for the source being registered")
            return FreshHelper(v)
        if isinstance(f, ast.Attribute) and f.attr in ("keys",) and not n.args:
            d = self.keys_of(f.value, env)
            if d is not None:
                return d
        return super().call(n, env)

    def cond(self, n: ast.expr, env: dict) -> Num:
        if isinstance(n, ast.Compare) and len(n.ops) == 1 and isinstance(n.ops[0], (ast.In, ast.NotIn)):
            d = self.keys_of(n.comparators[0], env)
            if d is not None and self.is_key(self.ev(n.left, env)):
                t = self.member(d)
                return Num(t if isinstance(n.ops[0], ast.In) else mknot(t), "Bool")
        return super().cond(n, env)

    def remove(self, d: KeysV, env: dict, then, missing):  # type: ignore[no-untyped-def]
        """`del d[key]`: continue with `then(env')` when present, `missing(env)` when absent."""
        m = Num(self.member(d), "Bool")
        e1, e2 = dict(env), dict(env)
        e1["<path>"] = env.get("<path>", ()) + (m.term,)
        e2["<path>"] = env.get("<path>", ()) + (mknot(m.term),)
        e1[self.KEYS] = KeysV(Op("keysRemove", "Keys", d.term, V("source")))
        return RS.ite(m, then(e1), missing(e2))

    def run(self, stmts, env, target):  # type: ignore[no-untyped-def]
        if stmts:
            s, rest = stmts[0], stmts[1:]
            if isinstance(s, ast.Assign) and len(s.targets) == 1 and isinstance(s.targets[0], ast.Subscript):
                t = s.targets[0]
                d = self.keys_of(t.value, env)
                if d is not None:
                    if not self.is_key(self.ev(t.slice, env)):
                        raise Unsupported("the dict is written under something else than the source")
                    v = self.ev(s.value, env)
                    if not (isinstance(v, FreshHelper) and self.is_key(v.key)):
                        raise Unsupported("the dict entry is not a fresh streaming helper of that source")
                    e2 = dict(env)
                    e2[self.KEYS] = KeysV(("ite", self.member(d), d.term, Op("keysAppend", "Keys", d.term, V("source"))))
                    return self.run(rest, e2, target)
            if isinstance(s, ast.Delete) and len(s.targets) == 1 and isinstance(s.targets[0], ast.Subscript):
                t = s.targets[0]
                d = self.keys_of(t.value, env)
                if d is not None and self.is_key(self.ev(t.slice, env)):
                    return self.remove(d, env, lambda e: self.run(rest, e, target), lambda e: self.throw("KeyError", e, target))
                raise Unsupported(f"del {ast.unparse(t)[:40]}")
            c = s.value if isinstance(s, (ast.Expr, ast.Assign)) else None
            if isinstance(c, ast.Call) and isinstance(c.func, ast.Attribute) and c.func.attr == "pop":
                d = self.keys_of(c.func.value, env)
                if d is not None:
                    if not (c.args and self.is_key(self.ev(c.args[0], env))) or c.keywords or len(c.args) > 2:
                        raise Unsupported("pop() of something else than the source")
                    e0 = dict(env)
                    if isinstance(s, ast.Assign):
                        for t in s.targets:
                            self.assign(t, Opaque("popped helper"), e0)
                    if len(c.args) == 2:
                        return self.remove(d, e0, lambda e: self.run(rest, e, target), lambda e: self.run(rest, e, target))
                    return self.remove(d, e0, lambda e: self.run(rest, e, target), lambda e: self.throw("KeyError", e, target))
        return super().run(stmts, env, target)


def dict_method(res: ast.ClassDef, tree: ast.Module, stream: ast.ClassDef, name: str, lean: str, doc: str) -> str:
    fn = RS.find_method(res, name)
    a = fn.args
    if a.vararg or a.kwarg:
        raise Unsupported(f"{name} signature")
    params = [x.arg for x in a.posonlyargs + a.args][1:] + [x.arg for x in a.kwonlyargs]
    sym = DictSym(res, tree, stream)
    sym.raises_value = lambda env: Tup([Num(RAISES, "Keys"), Num(RAISES, "Bool")])
    env = {p: Obj(f"<p{i}>") for i, p in enumerate(params)}
    env[DictSym.KEYS] = KeysV(V("resamplers"))

    def target(s: ast.stmt, e: dict):  # type: ignore[no-untyped-def]
        if isinstance(s, ast.Return):
            v = sym.ev(s.value, e) if s.value is not None else None
            if not (isinstance(v, Num) and v.ty == "Bool"):
                raise Unsupported(f"{name} returns something else than a bool")
            return Tup([Num(e[DictSym.KEYS].term, "Keys"), v])
        return None

    r = sym.run(RS.strip_doc(fn.body) + [ast.Return(ast.Constant(None))], env, target)
    if not isinstance(r, Tup) or sym.key is None:
        raise Unsupported(f"{name}: not understood")
    ps = ["resamplers", "source"]
    text = (f"/-- {doc} -/\n"
            f"def {lean} (resamplers : List Nat) (source : Nat) : List Nat × Bool :=\n"
            f"  ({normal(r.items[0].term, ps)},\n   {normal(r.items[1].term, ps)})")
    return finish(text, name)


# ------------------------------------------------------------------------------------------------ (c) one series at a tick
class SampleTs:
    def __init__(self, ts):  # type: ignore[no-untyped-def]
        self.ts = ts


class StreamSym(XSym):
    def __init__(self, cls, module, roles):  # type: ignore[no-untyped-def]
        done = Num(("bvar", "taskDone"), "Bool")
        super().__init__({}, cls=cls, module=module)
        self.roles = roles
        self.done = done
        self.helper_attr = None

    def call(self, n: ast.Call, env: dict):  # type: ignore[no-untyped-def]
        f = n.func
        if isinstance(f, ast.Attribute):
            b = self.ev(f.value, env)
            if isinstance(b, Obj) and f.attr == "done" and not n.args and b.path.startswith("self.") and b.path.count(".") == 1:
                # the receiving task: the only task object the helper owns
                if env.setdefault("<task>", b.path) != b.path:
                    raise Unsupported("two different tasks are asked whether they are done")
                return self.done
            if isinstance(b, Obj) and b.path.startswith("self.") and f.attr == "resample" and b.path != "self":
                if len(n.args) + len(n.keywords) != 1:
                    raise Unsupported("helper.resample(…) arguments")
                v = self.ev(n.args[0] if n.args else n.keywords[0].value, env)
                if not (isinstance(v, Num) and v.ty == "Int"):
                    raise Unsupported("helper.resample(…) is not called with a timestamp")
                return SampleTs(v)
            if isinstance(b, Obj) and b.path == "self" and f.attr not in self.methods:
                a = [self.ev(x, env) for x in n.args]
                if len(a) == 1 and not n.keywords and isinstance(a[0], SampleTs):
                    if "<sent>" in env:
                        raise Unsupported("the sink is called twice")
                    env["<sent>"] = a[0].ts
                    return Opaque("result of the sink")
        return super().call(n, env)


def streaming_resample(stream: ast.ClassDef, tree: ast.Module) -> str:
    fn = RS.find_method(stream, "resample")
    ts = RS.params_of(fn, 2, "_StreamingHelper.resample")[1]
    if any(isinstance(n, ast.Try) for n in ast.walk(fn)):
        raise Unsupported("_StreamingHelper.resample: try statement")
    sym = StreamSym(stream, tree, streaming_roles(stream))

    def outcome(env: dict, raised):  # type: ignore[no-untyped-def]
        sent = env.get("<sent>")
        return Tup([Num(raised, "Bool"), Num(Op("someTs", "OptTs", sent.term) if sent is not None else V("none"), "OptTs")])

    sym.raises_value = lambda env: outcome(env, TRUE)

    def target(s: ast.stmt, e: dict):  # type: ignore[no-untyped-def]
        if isinstance(s, ast.Return):
            return outcome(e, ("bvar", "sinkRaises") if "<sent>" in e else FALSE)
        return None

    r = sym.run(RS.strip_doc(fn.body) + [ast.Return(None)], {ts: Num(V("timestamp"), "Int")}, target)
    if not isinstance(r, Tup):
        raise Unsupported("_StreamingHelper.resample not understood")
    ps = ["taskDone", "sinkRaises", "timestamp"]
    return finish("/-- `_StreamingHelper.resample(timestamp)`: (does it raise, the timestamp of the sample handed to the sink).\n"
                  "`taskDone`: the receiving task has ended (source stopped or failed); `sinkRaises`: the sink call raises. -/\n"
                  "def streamingResample (taskDone sinkRaises : Bool) (timestamp : Int) : Bool × Option Int :=\n"
                  f"  ({normal(r.items[0].term, ps)},\n   {normal(r.items[1].term, ps)})", "_StreamingHelper.resample")


# ------------------------------------------------------------------------------------------------ (b) the loop of resample()
class DictV:
    """The live dict `self._resamplers`."""


class View:
    def __init__(self, kind: str):
        self.kind = kind  # items / values / keys


class Lazy:
    def __init__(self, kind: str, parts: list):
        self.kind, self.parts = kind, parts


class SrcE:
    def __init__(self, dom):  # type: ignore[no-untyped-def]
        self.dom = dom


class HelpE(SrcE):
    pass


class IdxE(SrcE):
    pass


class ResE:
    def __init__(self, dom, via):  # type: ignore[no-untyped-def]
        self.dom, self.via = dom, via


class CallE:
    def __init__(self, dom, ts):  # type: ignore[no-untyped-def]
        self.dom, self.ts = dom, ts


class Fam:
    """A list as an indexed family: its `i`-th element is `elem` (over the index domain `dom`), kept when `cond`."""

    def __init__(self, dom, elem, cond=None, phase=None, isdict=False):  # type: ignore[no-untyped-def]
        self.dom, self.elem, self.cond, self.phase, self.isdict = dom, elem, cond, phase, isdict


class AccV:
    def __init__(self, kind: str):
        self.kind = kind


def edesc(v) -> str:  # type: ignore[no-untyped-def]
    if isinstance(v, Tup):
        return "(" + ", ".join(edesc(x) for x in v.items) + ")"
    if isinstance(v, ResE):
        return f"Res[{v.dom}@{v.via}]"
    if isinstance(v, CallE):
        return f"Call[{v.dom}]({RS.describe(v.ts)})"
    if isinstance(v, SrcE):
        return f"{type(v).__name__}[{v.dom}]"
    return RS.describe(v)


class LoopSym(XSym):
    def __init__(self, cls, module):  # type: ignore[no-untyped-def]
        super().__init__({"self._config.resampling_period": Num(V("period"), "Int"),
                          "self._window_end": Num(V("windowEnd"), "Int")}, cls=cls, module=module)
        self.phase = 0
        self.gdom = None  # index domain of the gathered coroutines
        self.oblig: set = set()
        self.acc_vals: list = []

    # ---- lists
    def mat(self, v):  # type: ignore[no-untyped-def]
        """The list `v` stands for when it is iterated / copied NOW."""
        d = f"live{self.phase}"
        if isinstance(v, Fam):
            if v.phase is not None and v.phase != self.phase:
                raise Unsupported("a lazy iterator created before the await is consumed after it")
            return v
        if isinstance(v, DictV):
            return Fam(d, SrcE(d))
        if isinstance(v, View):
            return Fam(d, {"items": Tup([SrcE(d), HelpE(d)]), "values": HelpE(d), "keys": SrcE(d)}[v.kind])
        if isinstance(v, Lazy) and v.kind == "enum":
            f = self.mat(v.parts[0])
            return Fam(f.dom, Tup([IdxE(f.dom), f.elem]), f.cond, isdict=False)
        if isinstance(v, Lazy) and v.kind == "zip":
            fs = [self.mat(p) for p in v.parts]
            if len(fs) != 2 or any(f.cond is not None for f in fs):
                raise Unsupported("zip() of filtered lists / of more than two lists")
            a, b = fs
            if a.dom == b.dom:
                return Fam(a.dom, Tup([a.elem, b.elem]))
            # positional pairing of two different lists: truncates to the shorter one
            if isinstance(b.elem, ResE) and b.elem.dom == b.elem.via == b.dom and isinstance(a.dom, str):
                return Fam(("zip", a.dom, b.dom), Tup([a.elem, ResE(b.dom, a.dom)]))
            if isinstance(a.elem, ResE) and a.elem.dom == a.elem.via == a.dom and isinstance(b.dom, str):
                return Fam(("zip", b.dom, a.dom), Tup([ResE(a.dom, b.dom), b.elem]))
            raise Unsupported("zip() of lists that are not aligned")
        raise Unsupported("not a list the extraction understands")

    def comprehension(self, n, env: dict):  # type: ignore[no-untyped-def]
        if len(n.generators) != 1 or n.generators[0].is_async:
            raise Unsupported("comprehension with several generators")
        g = n.generators[0]
        f = self.mat(self.ev(g.iter, env))
        e2 = dict(env)
        self.assign(g.target, f.elem, e2)
        cond = f.cond
        for c in g.ifs:
            t = self.cond(c, e2).term
            cond = t if cond is None else ("and", (cond, t))
        if isinstance(n, ast.DictComp):
            elem = Tup([self.ev(n.key, e2), self.ev(n.value, e2)])
        else:
            elem = self.ev(n.elt, e2)
        return Fam(f.dom, elem, cond, phase=self.phase if isinstance(n, ast.GeneratorExp) else None,
                   isdict=isinstance(n, ast.DictComp))

    def ev(self, n: ast.expr, env: dict):  # type: ignore[no-untyped-def]
        if isinstance(n, (ast.ListComp, ast.DictComp, ast.GeneratorExp)):
            return self.comprehension(n, env)
        if isinstance(n, (ast.List, ast.Tuple)) and len(n.elts) == 1 and isinstance(n.elts[0], ast.Starred):
            f = self.mat(self.ev(n.elts[0].value, env))
            return Fam(f.dom, f.elem, f.cond)
        if isinstance(n, ast.List) and not n.elts:
            return AccV("list")
        if isinstance(n, ast.Dict) and not n.keys:
            return AccV("dict")
        if isinstance(n, ast.Subscript):
            b = self.ev(n.value, env)
            if isinstance(b, Fam) and isinstance(b.elem, ResE) and b.cond is None and b.phase is None and b.elem.via == b.dom:
                i = self.ev(n.slice, env)
                if isinstance(i, IdxE):
                    if i.dom != b.dom:
                        self.oblig.add((i.dom, b.dom))
                    return ResE(b.dom, i.dom)
                raise Unsupported("the results are indexed by something else than a loop index")
        return super().ev(n, env)

    def call(self, n: ast.Call, env: dict):  # type: ignore[no-untyped-def]
        f = n.func
        fn = ast.unparse(f)
        if isinstance(f, ast.Attribute) and f.attr in ("items", "values", "keys") and not n.args and not n.keywords:
            if isinstance(self.ev(f.value, env), DictV):
                return View(f.attr)
        if fn in ("list", "tuple") and len(n.args) == 1 and not n.keywords:
            v = self.ev(n.args[0], env)
            if isinstance(v, (Fam, DictV, View, Lazy)):
                f2 = self.mat(v)
                return Fam(f2.dom, f2.elem, f2.cond, isdict=False)
        if fn == "dict" and len(n.args) == 1 and not n.keywords:
            v = self.ev(n.args[0], env)
            if isinstance(v, (Fam, Lazy)):
                f2 = self.mat(v)
                if not (isinstance(f2.elem, Tup) and len(f2.elem.items) == 2):
                    raise Unsupported("dict() of something else than pairs")
                return Fam(f2.dom, f2.elem, f2.cond, isdict=True)
        if fn in ("list", "dict") and not n.args and not n.keywords:
            return AccV(fn)
        if fn == "enumerate" and len(n.args) == 1 and not n.keywords:
            return Lazy("enum", [self.ev(n.args[0], env)])
        if fn == "zip" and len(n.args) == 2 and not [k for k in n.keywords if k.arg != "strict" or ast.unparse(k.value) != "False"]:
            return Lazy("zip", [self.ev(a, env) for a in n.args])
        if fn == "isinstance" and len(n.args) == 2:
            v = self.ev(n.args[0], env)
            if isinstance(v, ResE):
                cl = n.args[1]
                names = sorted(ast.unparse(x) for x in (cl.elts if isinstance(cl, ast.Tuple) else [cl]))
                if names not in (["Exception", "asyncio.CancelledError"], ["BaseException"],
                                 ["CancelledError", "Exception"], ["BaseException", "Exception"]):
                    raise Unsupported(f"results are tested against {names}")
                return Num(("bvar", f"<isExc:{v.dom}:{v.via}>"), "Bool")
        if isinstance(f, ast.Attribute) and f.attr == "resample":
            b = self.ev(f.value, env)
            if isinstance(b, HelpE):
                if len(n.args) + len(n.keywords) != 1:
                    raise Unsupported("series.resample(…) arguments")
                t = self.ev(n.args[0] if n.args else n.keywords[0].value, env)
                if not (isinstance(t, Num) and t.ty == "Int"):
                    raise Unsupported("series.resample(…) is not called with a time")
                return CallE(b.dom, t)
        return super().call(n, env)

    def cond(self, n: ast.expr, env: dict) -> Num:
        if isinstance(n, ast.Compare) and len(n.ops) == 1:
            # `len(xs) > 0`, `len(xs) == 0`, `0 < len(xs)`, … : (non-)emptiness
            a, op, b = n.left, n.ops[0], n.comparators[0]
            flip = {ast.Lt: ast.Gt, ast.Gt: ast.Lt, ast.LtE: ast.GtE, ast.GtE: ast.LtE, ast.Eq: ast.Eq, ast.NotEq: ast.NotEq}
            if isinstance(a, ast.Constant) and type(op) in flip:
                a, b, op = b, a, flip[type(op)]()
            if isinstance(a, ast.Call) and ast.unparse(a.func) == "len" and len(a.args) == 1 and isinstance(b, ast.Constant) \
                    and isinstance(b.value, int) and not isinstance(b.value, bool):
                v = self.ev(a.args[0], env)
                if isinstance(v, (Fam, AccV)):
                    ne = self.cond(a.args[0], env).term
                    k = (type(op), b.value)
                    if k in ((ast.Gt, 0), (ast.NotEq, 0), (ast.GtE, 1)):
                        return Num(ne, "Bool")
                    if k in ((ast.Eq, 0), (ast.Lt, 1), (ast.LtE, 0)):
                        return Num(mknot(ne), "Bool")
                    raise Unsupported(f"comparison of a length: {ast.unparse(n)}")
        if isinstance(n, (ast.Name, ast.Attribute)):
            v = self.ev(n, env)
            if isinstance(v, AccV):
                return Num(FALSE, "Bool")
            if isinstance(v, Fam):
                return Num(("prop", f"{self.render_sources(v)} ≠ []"), "Bool")
        return super().cond(n, env)

    # ---- printing (phase 2)
    def base_name(self, dom) -> str:  # type: ignore[no-untyped-def]
        if dom == "live1":
            return "resamplers"
        if dom == "live0" and self.gdom == "live0":
            return "gathered"
        raise Unsupported(f"a list over {dom} is used after the gather")

    def render_sources(self, f: Fam) -> str:
        """The sources (keys) of a collection built after the gather, as Lean text."""
        key = f.elem.items[0] if isinstance(f.elem, Tup) and f.isdict else f.elem
        if not (isinstance(key, SrcE) and type(key) is SrcE):
            raise Unsupported("the collection is not keyed by sources")
        cond = RS.expand(f.cond, {}) if f.cond is not None else TRUE
        if isinstance(f.dom, tuple):
            _, a, b = f.dom
            if key.dom != a or b != self.gdom:
                raise Unsupported("zip() pairs the results with something else than sources")
            left, want = self.base_name(a), f"<isExc:{b}:{a}>"
        else:
            if key.dom != f.dom:
                raise Unsupported("sources and loop index come from different lists")
            left, want = self.base_name(f.dom), f"<isExc:{self.gdom}:{f.dom}>"
        if cond == TRUE:
            if isinstance(f.dom, tuple):
                return f"(({left}.zip results).map (·.1))"
            return left
        if cond == ("ite", ("bvar", want), TRUE, FALSE) or cond == ("bvar", want):
            return f"(({left}.zip results).filterMap (fun p => if p.2 = true then some p.1 else none))"
        raise Unsupported("the filter of the collection is not `the result is an exception`")

    # ---- statements
    def run(self, stmts, env, target):  # type: ignore[no-untyped-def]
        if stmts:
            s, rest = stmts[0], stmts[1:]
            if isinstance(s, (ast.For,)) and not s.orelse:
                return self.for_loop(s, rest, env, target)
            if isinstance(s, ast.Expr) and isinstance(s.value, ast.Call) and isinstance(s.value.func, ast.Attribute) \
                    and s.value.func.attr == "append" and isinstance(self.ev(s.value.func.value, env), AccV):
                if not self.in_loop or len(s.value.args) != 1:
                    raise Unsupported("append outside an accumulating loop")
                self.acc_vals.append(self.ev(s.value.args[0], env))
                RS.Sym.note(env, ("acc", ast.unparse(s.value.func.value), len(self.acc_vals) - 1))
                return self.run(rest, env, target)
            if isinstance(s, ast.Assign) and len(s.targets) == 1 and isinstance(s.targets[0], ast.Subscript) \
                    and isinstance(self.ev(s.targets[0].value, env), AccV):
                if not self.in_loop:
                    raise Unsupported("item assignment outside an accumulating loop")
                self.acc_vals.append(Tup([self.ev(s.targets[0].slice, env), self.ev(s.value, env)]))
                RS.Sym.note(env, ("acc", ast.unparse(s.targets[0].value), len(self.acc_vals) - 1))
                return self.run(rest, env, target)
        return super().run(stmts, env, target)

    def for_loop(self, s: ast.For, rest: list, env: dict, target):  # type: ignore[no-untyped-def]
        f = self.mat(self.ev(s.iter, env))
        e2 = dict(env)
        self.assign(s.target, f.elem, e2)
        p0, fx0 = env.get("<path>", ()), env.get("<fx>", ())
        before = len(self.ends)
        self.in_loop += 1

        def inner(st: ast.stmt, e: dict):  # type: ignore[no-untyped-def]
            if isinstance(st, (ast.Break, ast.Return, ast.Raise)):
                raise Unsupported(f"`{ast.unparse(st)[:30]}` inside an accumulating loop")
            if isinstance(st, ast.Continue):
                return None  # of THIS loop: the iteration ends
            if target(st, dict(e)) is not None:
                raise Unsupported("the extracted statement is inside a loop")
            return None

        try:
            self.run(list(s.body), e2, inner)
        finally:
            self.in_loop -= 1
        paths = self.ends[before:]
        del self.ends[before:]
        accs: dict = {}
        for path, fx in paths:
            c = ("and", tuple(path[len(p0):])) if len(path) > len(p0) else TRUE
            mine = [x for x in fx[len(fx0):] if x[0] == "acc"]
            if any(x[0] in ("store",) for x in fx[len(fx0):]):
                raise Unsupported("an attribute is written inside an accumulating loop")
            names = [x[1] for x in mine]
            if len(set(names)) != len(names):
                raise Unsupported("two items are added in one iteration")
            for x in mine:
                accs.setdefault(x[1], []).append((c, self.acc_vals[x[2]]))
        e3 = dict(env)
        for x in ast.walk(s):
            if isinstance(x, ast.Name) and isinstance(x.ctx, ast.Store):
                e3[x.id] = Opaque("assigned in a loop")
        for name, contribs in accs.items():
            if len({edesc(v) for _, v in contribs}) != 1:
                raise Unsupported("different things are accumulated on different paths")
            cond = contribs[0][0] if len(contribs) == 1 else ("or", tuple(c for c, _ in contribs))
            if f.cond is not None:
                cond = ("and", (f.cond, cond))
            if RS.expand(cond, {}) == TRUE:
                cond = None
            acc = self.ev(ast.parse(name, mode="eval").body, env)
            e3[name] = Fam(f.dom, contribs[0][1], cond, isdict=isinstance(acc, AccV) and acc.kind == "dict")
        return self.run(rest, e3, target)


def ctor_args(tree: ast.Module, call: ast.Call, cls_name: str):  # type: ignore[no-untyped-def]
    """Constructor call `Cls(…)` of a class defined in the module: its arguments bound to the parameter names of
    `Cls.__init__` (positional or by keyword, defaults left out); None when it is not such a call / does not bind."""
    if ast.unparse(call.func) != cls_name:
        return None
    cls = next((n for n in tree.body if isinstance(n, ast.ClassDef) and n.name == cls_name), None)
    init = next((n for n in (cls.body if cls else []) if isinstance(n, ast.FunctionDef) and n.name == "__init__"), None)
    if init is None or init.args.vararg or init.args.kwarg:
        return None
    pos = [x.arg for x in init.args.posonlyargs + init.args.args][1:]
    names = pos + [x.arg for x in init.args.kwonlyargs]
    if len(call.args) > len(pos) or any(isinstance(x, ast.Starred) for x in call.args):
        return None
    out = dict(zip(pos, call.args))
    for k in call.keywords:
        if k.arg is None or k.arg not in names or k.arg in out or k.arg in [x.arg for x in init.args.posonlyargs]:
            return None
        out[k.arg] = k.value
    required = set(pos[:len(pos) - len(init.args.defaults)]) | {x.arg for x, d in zip(init.args.kwonlyargs, init.args.kw_defaults) if d is None}
    return out if required <= set(out) else None


def loop_parts(res: ast.ClassDef, tree: ast.Module) -> str:
    fn = RS.find_method(res, "resample")
    methods = {n.name: n for n in res.body if isinstance(n, (ast.FunctionDef, ast.AsyncFunctionDef))}
    a = fn.args
    flags = [x.arg for x in a.posonlyargs + a.args][1:] + [x.arg for x in a.kwonlyargs]
    if len(flags) != 1 or a.vararg or a.kwarg:
        raise Unsupported("Resampler.resample signature")
    stmts = RS.linearise(RS.strip_doc(fn.body), methods)
    li = [i for i, s in enumerate(stmts) if isinstance(s, ast.AsyncFor)]
    if len(li) != 1 or ast.unparse(stmts[li[0]].iter) != "self._timer" or stmts[li[0]].orelse:  # type: ignore[attr-defined]
        raise Unsupported("`async for … in self._timer` not found in resample()")
    after = stmts[li[0] + 1:]
    if any(not (isinstance(s, ast.Expr) and isinstance(s.value, ast.Constant)) and not isinstance(s, ast.Pass) for s in after):
        raise Unsupported("statements after the timer loop")
    body = RS.linearise(stmts[li[0]].body, methods)  # type: ignore[attr-defined]
    gi = [i for i, s in enumerate(body) if any(isinstance(n, ast.Await) for n in ast.walk(s))]
    if len(gi) != 1:
        raise Unsupported("the loop body does not have exactly one await")
    g = body[gi[0]]
    aw = g.value if isinstance(g, (ast.Assign, ast.AnnAssign, ast.Expr)) else None
    if not (isinstance(aw, ast.Await) and isinstance(aw.value, ast.Call) and ast.unparse(aw.value.func) == "asyncio.gather"):
        raise Unsupported("the await of the loop body is not `… = await asyncio.gather(…)`")
    call = aw.value
    if {k.arg: ast.unparse(k.value) for k in call.keywords} != {"return_exceptions": "True"}:
        raise Unsupported("gather without return_exceptions=True")
    if len(call.args) != 1 or not isinstance(call.args[0], ast.Starred):
        raise Unsupported("gather(…) is not called with one unpacked list of coroutines")

    sym = LoopSym(res, tree)
    env0: dict = {flags[0]: Num(("bvar", "oneShot"), "Bool"), "self._resamplers": DictV()}
    seen: list = []

    def at_gather(s: ast.stmt, e: dict):  # type: ignore[no-untyped-def]
        if isinstance(s, _Mark):
            G = sym.mat(sym.ev(call.args[0].value, e))
            seen.append((G, e))
            return RS.Bottom()
        if isinstance(s, (ast.Break, ast.Continue, ast.Return, ast.Raise)):
            raise Unsupported("the loop may be left before the gather")
        return None

    sym.run(list(stmts[:li[0]]) + list(body[:gi[0]]) + [_Mark()], env0, at_gather)
    if not seen:
        raise Unsupported("the gather is not reached")
    G, e1 = seen[0]
    if any(edesc(x.elem) != edesc(G.elem) or x.dom != G.dom or (x.cond is None) != (G.cond is None) for x, _ in seen):
        raise Unsupported("what is gathered depends on the path")
    if not (isinstance(G.elem, CallE) and G.dom == "live0" and G.elem.dom == "live0" and G.cond is None):
        raise Unsupported("the gathered coroutines are not `series.resample(…)` for every registered series")
    ps = ["resamplers", "windowEnd", "period"]
    calls = ("/-- First half of one iteration of the timer loop of `Resampler.resample()`, up to its await: the series whose\n"
             "`resample(…)` coroutines are gathered (in gather order) and the timestamp each is called with. -/\n"
             "def gatherCalls (resamplers : List Nat) (windowEnd period : Int) : List (Nat × Int) :=\n"
             f"  resamplers.map (fun s => (s, {normal(RS.need_int(G.elem.ts, 'gathered timestamp'), ps)}))")

    # second half: everything after the await
    sym.phase, sym.gdom = 1, G.dom
    e2 = {k: v for k, v in e1.items() if not k.startswith("<")}
    e2["self._resamplers"] = DictV()
    results = Fam(G.dom, ResE(G.dom, G.dom))
    if isinstance(g, ast.Assign):
        for t in g.targets:
            sym.assign(t, results, e2)
    elif isinstance(g, ast.AnnAssign):
        sym.assign(g.target, results, e2)

    def out(e: dict, payload: str, exit_: str):  # type: ignore[no-untyped-def]
        w = sym.ev(ast.parse("self._window_end", mode="eval").body, e)
        return Tup([Num(RS.need_int(w, "window end"), "Int"), Num(V(payload), "Keys"), Num(V(exit_), "Exit")])

    def finish_target(s: ast.stmt, e: dict):  # type: ignore[no-untyped-def]
        if isinstance(s, ast.Raise):
            c = s.exc
            a = ctor_args(tree, c, "ResamplingError") if isinstance(c, ast.Call) and s.cause is None else None
            if a is None or len(a) != 1:
                raise Unsupported("an exception other than ResamplingError(exceptions) is raised")
            v = sym.ev(next(iter(a.values())), e)
            if not (isinstance(v, Fam) and v.isdict):
                raise Unsupported("ResamplingError is not raised with the dict of failed sources")
            return out(e, sym.render_sources(v), "LoopExit.raised")
        if isinstance(s, (ast.Break, ast.Return)):
            if isinstance(s, ast.Return) and s.value is not None:
                raise Unsupported("resample() returns a value")
            return out(e, "[]", "LoopExit.stop")
        if isinstance(s, (ast.Continue, _Mark)):
            return out(e, "[]", "LoopExit.next")
        return None

    sym.in_loop += 1  # `continue` of the timer loop
    r = sym.run(list(body[gi[0] + 1:]) + [_Mark()], e2, finish_target)
    if not isinstance(r, Tup):
        raise Unsupported("the second half of the loop body is not understood")
    ps = ["windowEnd", "period", "gathered", "results", "resamplers", "oneShot"]
    tree_ = f"({normal(r.items[0].term, ps)},\n     {normal(r.items[1].term, ps)},\n     {normal(r.items[2].term, ps)})"
    guard = ""
    for (idom, rdom) in sorted(sym.oblig, key=str):
        if rdom != G.dom:
            raise Unsupported("indexing into something else than the gather results")
        guard += f"if {sym.base_name(idom)}.length ≤ results.length then " if not guard else ""
    body_text = f"  {guard}some {tree_}" + (" else none" if guard else "")
    fin = ("/-- Second half: what happens with the results of the gather.  `gathered`: the series of `gatherCalls` (a snapshot\n"
           "taken before the await); `results`: for each of them, in the same order, whether its `resample()` raised;\n"
           "`resamplers`: the keys of `self._resamplers` NOW (series may have been added / removed during the await).\n"
           "`none`: an exception other than `ResamplingError` escapes.  Otherwise (new `_window_end`, the sources named in\n"
           "the `ResamplingError`, how the iteration ends). -/\n"
           "def afterGather (windowEnd period : Int) (gathered : List Nat) (results : List Bool) (resamplers : List Nat)\n"
           "    (oneShot : Bool) : Option (Int × List Nat × LoopExit) :=\n" + body_text)
    return finish(calls, "gather") + "\n\n" + finish(fin, "loop body")



# ------------------------------------------------------------------------------------------------ (d) the helper
RS.NONE_AS["ORel"] = V("none")
STATE = ["buf", "maxlen", "samplingStart", "received", "samplingPeriod"]
CONF = ["resamplingPeriod", "maxAge", "maxBufferLen", "warnBufferLen"]


class BufV:
    """`self._buffer`: the deque as (list term, maxlen term)."""

    def __init__(self, term, maxlen: Num):  # type: ignore[no-untyped-def]
        self.term, self.maxlen = term, maxlen


class BisectB:
    def __init__(self, key, buf):  # type: ignore[no-untyped-def]
        self.key, self.buf = key, buf


class HelperSym(XSym):
    BUF = "self._buffer"

    def __init__(self, cls, module, period_is_known: bool = False):  # type: ignore[no-untyped-def]
        leaves = {k: v for k, v in RS.HELPER_LEAVES.items() if k not in ("len(self._buffer)", "self._buffer.maxlen")}
        leaves["sample.timestamp"] = Num(Op("sampleTs", "Int", V("x")), "Int")
        if period_is_known:  # `_update_buffer_len` asserts it
            leaves["self._source_properties.sampling_period"] = Num(V("inputPeriod"), "Int")
        super().__init__(leaves, cls=cls, module=module, watch=RS.MUTABLE_LEAVES)
        self.fails: list = []
        self.new_len: list = []  # the length(s) the deque is rebuilt with

    def env0(self) -> dict:
        return {self.BUF: BufV(V("buf"), Num(V("maxlen"), "Nat"))}

    # ---- division by zero
    def fail_term(self):  # type: ignore[no-untyped-def]
        out = []
        for path, c in self.fails:
            t = c
            for p in reversed(path):
                if isinstance(p, tuple) and p and p[0] == "opt":
                    t = ("match", p[1], t, FALSE) if p[2] == "none" else ("match", p[1], FALSE, t)
                else:
                    t = ("and", (p, t))
            out.append(t)
        if not out:
            return FALSE
        return out[0] if len(out) == 1 else ("or", tuple(out))

    def ev(self, n: ast.expr, env: dict):  # type: ignore[no-untyped-def]
        if isinstance(n, ast.Attribute) and n.attr == "maxlen":
            b = self.ev(n.value, env)
            if isinstance(b, BufV):
                RS.Sym.note(env, ("read", "self._buffer"))
                return b.maxlen
        if isinstance(n, ast.Subscript) and isinstance(n.slice, ast.Slice) and n.slice.step is None \
                and n.slice.lower is not None and n.slice.upper is not None:
            b = self.ev(n.value, env)
            if isinstance(b, BufV):
                return self.window(b.term, self.ev(n.slice.lower, env), self.ev(n.slice.upper, env))
        if isinstance(n, ast.BinOp) and isinstance(n.op, (ast.Div, ast.FloorDiv, ast.Mod)):
            r = super().ev(n, env)
            d = self.ev(n.right, env)
            if isinstance(r, Num) and r.ty != "Unk" and isinstance(d, Num) and d.ty in ("Int", "Nat", "Rat"):
                zero = Lit(0) if d.ty != "Rat" else ("rat", 0, 1)
                c = RS.mkcmp("=", d.term, zero, d.ty)
                if c != FALSE:
                    self.fails.append((env.get("<path>", ()), c))
            return r
        return super().ev(n, env)

    def window(self, buf, lo, hi):  # type: ignore[no-untyped-def]
        if not (isinstance(lo, BisectB) and isinstance(hi, BisectB)):
            raise Unsupported("the slice is not bounded by two bisections")
        if lo.buf != buf or hi.buf != buf:
            raise Unsupported("the bisections were made on another state of the buffer")
        return Num(Op("window", "Buf", buf, lo.key.term, hi.key.term), "Buf")

    def call(self, n: ast.Call, env: dict):  # type: ignore[no-untyped-def]
        f = ast.unparse(n.func)
        kw = {k.arg: k.value for k in n.keywords}
        if f == "len" and len(n.args) == 1:
            b = self.ev(n.args[0], env)
            if isinstance(b, BufV):
                RS.Sym.note(env, ("read", "self._buffer"))
                return Num(Op("bufLen", "Nat", b.term), "Nat")
        if isinstance(n.func, ast.Attribute) and n.func.attr == "append" and len(n.args) == 1 and not n.keywords:
            b = self.ev(n.func.value, env)
            if isinstance(b, BufV):
                x = self.ev(n.args[0], env)
                if not (isinstance(x, Obj) and x.path == "sample"):
                    raise Unsupported("something else than the received sample is appended to the buffer")
                env[self.BUF] = BufV(Op("dequeAppend", "Buf", b.maxlen.term, b.term, V("x")), b.maxlen)
                RS.Sym.note(env, ("buffer",))
                return Opaque("None")
        if isinstance(n.func, ast.Attribute) and isinstance(self.ev(n.func.value, env), BufV):
            raise Unsupported(f"buffer method {n.func.attr}")
        if f in ("deque", "collections.deque"):
            src = self.ev(n.args[0], env) if n.args else None
            ml = n.args[1] if len(n.args) == 2 and not n.keywords else (kw.get("maxlen") if len(n.args) == 1 and set(kw) == {"maxlen"} else None)
            if not (isinstance(src, BufV) and ml is not None):
                raise Unsupported("the buffer is not rebuilt with deque(self._buffer, maxlen=…)")
            m = self.ev(ml, env)
            if not (isinstance(m, Num) and m.ty in ("Int", "Nat")):
                raise Unsupported("maxlen of the rebuilt buffer")
            mt = m.term if m.ty == "Nat" else Op("toNat", "Nat", m.term)
            self.new_len.append(m)
            return BufV(Op("dequeRebuild", "Buf", mt, src.term), Num(mt, "Nat"))
        if f in ("bisect", "bisect_right", "bisect.bisect", "bisect.bisect_right"):
            b = self.ev(n.args[0], env) if n.args else None
            if not (len(n.args) == 2 and isinstance(b, BufV) and set(kw) == {"key"} and self.is_timestamp_key(kw["key"], env)):
                raise Unsupported(f"not bisect(self._buffer, <key>, key=lambda s: s.timestamp): {ast.unparse(n)[:80]}")
            k = self.ev(n.args[1], env)
            if not (isinstance(k, Num) and k.ty == "Int"):
                raise Unsupported("bisect key is not a time")
            RS.Sym.note(env, ("read", "self._buffer"))
            return BisectB(k, b.term)
        if f in ("bisect_left", "bisect.bisect_left"):
            raise Unsupported("bisect_left")
        if f in ("itertools.islice", "islice") and len(n.args) == 3 and not n.keywords:
            b = self.ev(n.args[0], env)
            if isinstance(b, BufV):
                return self.window(b.term, self.ev(n.args[1], env), self.ev(n.args[2], env))
        if f in ("list", "tuple") and len(n.args) == 1 and not n.keywords:
            v = self.ev(n.args[0], env)
            if isinstance(v, BufV):
                return BufV(v.term, v.maxlen)  # a copy: slicing it is slicing the content
            if isinstance(v, Num) and v.ty == "Buf":
                return v
        if isinstance(n.func, ast.Attribute) and n.func.attr == "resampling_function":
            base = self.ev(n.func.value, env)
            a = [self.ev(x, env) for x in n.args]
            if not (isinstance(base, Obj) and base.path == "self._config" and len(a) == 3 and not n.keywords
                    and isinstance(a[0], Num) and a[0].ty == "Buf"
                    and isinstance(a[1], Obj) and a[1].path == "self._config"
                    and isinstance(a[2], Obj) and a[2].path == "self._source_properties"):
                raise Unsupported("call of the resampling function changed shape")
            return Num(Op("someRel", "ORel", a[0].term), "ORel")
        if f == "Quantity" and len(n.args) == 1 and not n.keywords:
            return self.ev(n.args[0], env)
        if f == "Sample" and len(n.args) + len(n.keywords) == 2:
            ts = self.ev(n.args[0] if n.args else kw["timestamp"], env)
            v = self.ev(n.args[1] if len(n.args) == 2 else kw["value"], env)
            if isinstance(v, RS.NoneV):
                v = Num(V("none"), "ORel")
            if not (isinstance(ts, Num) and ts.ty == "Int" and isinstance(v, Num) and v.ty == "ORel"):
                raise Unsupported("resample() returns something else than Sample(time, resampling function result / None)")
            return Tup([ts, v])
        if f in ("timedelta", "datetime.timedelta"):
            before = len(self.fails)
            r = super().call(n, env)
            if isinstance(r, RS.Est) or (isinstance(r, Num) and r.term == V("est")):
                del self.fails[before:]  # the float estimate is an input of the translation (read back from the code)
            return r
        return super().call(n, env)

    def cond(self, n: ast.expr, env: dict) -> Num:
        if isinstance(n, ast.Compare) and len(n.ops) == 1:
            a, op, b = n.left, n.ops[0], n.comparators[0]
            flip = {ast.Lt: ast.Gt, ast.Gt: ast.Lt, ast.LtE: ast.GtE, ast.GtE: ast.LtE, ast.Eq: ast.Eq, ast.NotEq: ast.NotEq}
            if isinstance(a, ast.Constant) and type(op) in flip:
                a, b, op = b, a, flip[type(op)]()
            if isinstance(a, ast.Call) and ast.unparse(a.func) == "len" and len(a.args) == 1 and isinstance(b, ast.Constant) \
                    and isinstance(b.value, int) and not isinstance(b.value, bool) and isinstance(a.args[0], (ast.Name, ast.Attribute)):
                v = self.ev(a.args[0], env)
                if isinstance(v, Num) and v.ty == "Buf":
                    ne = mknot(("cmp", "=", v.term, V("[]"), "Buf"))
                    k = (type(op), b.value)
                    if k in ((ast.Gt, 0), (ast.NotEq, 0), (ast.GtE, 1)):
                        return Num(ne, "Bool")
                    if k in ((ast.Eq, 0), (ast.Lt, 1), (ast.LtE, 0)):
                        return Num(mknot(ne), "Bool")
        if isinstance(n, (ast.Name, ast.Attribute)):  # (no calls: evaluating twice would repeat their effects)
            v = self.ev(n, env)
            if isinstance(v, Num) and v.ty == "Buf":
                return Num(mknot(("cmp", "=", v.term, V("[]"), "Buf")), "Bool")
        return super().cond(n, env)

    def assign(self, t: ast.expr, v, env: dict) -> None:  # type: ignore[no-untyped-def]
        if isinstance(v, RS.Est):
            v = Num(V("est") if v.floor <= 0 else ("ite", ("cmp", "<", V("est"), Lit(v.floor), "Int"), Lit(v.floor), V("est")), "Int")
        if isinstance(t, ast.Attribute) and isinstance(v, BufV):
            base = self.ev(t.value, env)
            if isinstance(base, Obj) and f"{base.path}.{t.attr}" == self.BUF:
                env[self.BUF] = v
                RS.Sym.note(env, ("buffer",))
                return
        super().assign(t, v, env)

    # ---- joining the two arms of an `if` that falls through (keeps one term per variable instead of one per path)
    join = False

    def run(self, stmts, env, target):  # type: ignore[no-untyped-def]
        if self.join and stmts and isinstance(stmts[0], (ast.Assign, ast.AnnAssign)) and isinstance(stmts[0].value, ast.Call):
            h = self.helper_of(stmts[0].value, env)
            if h is not None and not RS.has_side_effects(h[0]) and self.hoist(stmts[0], env) is None:
                s = stmts[0]
                e2 = dict(env)
                v = self.pure_call(h[0], h[1], s.value, e2)
                for t in (s.targets if isinstance(s, ast.Assign) else [s.target]):
                    self.assign(t, v, e2)
                return self.run(stmts[1:], e2, target)
        if self.join and stmts and isinstance(stmts[0], ast.If) and not getattr(stmts[0], "_joined", False) \
                and not any(isinstance(x, (ast.Return, ast.Raise, ast.Break, ast.Continue)) for x in ast.walk(stmts[0])):
            s, rest = stmts[0], stmts[1:]
            node = ast.If(s.test, list(s.body) + [_Mark()], list(s.orelse) + [_Mark()])
            node._joined = True  # type: ignore[attr-defined]
            for x in ast.walk(node):
                if isinstance(x, ast.If):
                    x._joined = True  # type: ignore[attr-defined]
            caps: list = []

            def cap(st: ast.stmt, e: dict):  # type: ignore[no-untyped-def]
                if isinstance(st, _Mark):
                    caps.append(e)
                    return RS.Bottom()
                if target(st, dict(e)) is not None:
                    raise Unsupported("the extracted statement is inside a joined `if`")
                return None

            p0 = env.get("<path>", ())
            super().run([node], env, cap)
            extra = [e.get("<path>", ())[len(p0):] for e in caps]
            if caps and not any(isinstance(c, tuple) and c and c[0] == "opt" for ex in extra for c in ex):
                return self.run(rest, self.merge(caps, extra, env), target)
        return super().run(stmts, env, target)

    @staticmethod
    def same(a, b) -> bool:  # type: ignore[no-untyped-def]
        if a is b:
            return True
        if isinstance(a, Num) and isinstance(b, Num):
            return a.term == b.term and a.ty == b.ty
        if isinstance(a, Obj) and isinstance(b, Obj):
            return a.path == b.path
        if isinstance(a, BufV) and isinstance(b, BufV):
            return a.term == b.term and a.maxlen.term == b.maxlen.term
        if isinstance(a, RS.NoneV) and isinstance(b, RS.NoneV):
            return True
        return False

    def merge(self, caps: list, extra: list, env: dict) -> dict:
        out = dict(env)
        keys = []
        for e in caps:
            for k in e:
                if k not in keys and not k.startswith("<"):
                    keys.append(k)
        missing = Opaque("assigned on some paths only")
        for k in keys:
            vals = [e.get(k, missing) for e in caps]
            if all(self.same(v, vals[0]) for v in vals):
                out[k] = vals[0]
                continue
            r = vals[-1]
            for v, ex in zip(reversed(vals[:-1]), reversed(extra[:-1])):
                r = RS.ite(Num(("and", tuple(ex)) if ex else TRUE, "Bool"), v, r)
            out[k] = r
        out["<fx>"] = caps[0].get("<fx>", ())
        return out

    # ---- the state at a point
    def state(self, env: dict) -> list:
        b = env[self.BUF]
        if not isinstance(b, BufV):
            raise Unsupported("self._buffer is something else than the deque")

        def opt(path: str, name: str):  # type: ignore[no-untyped-def]
            v = self.ev(ast.parse(path, mode="eval").body, env)
            if isinstance(v, RS.NoneV):
                return Num(V("none"), "OInt")
            if isinstance(v, Num) and v.ty == "OptInt" and v.term == V(name):
                return Num(V(name), "OInt")
            if isinstance(v, Num) and v.ty == "Int":
                return Num(Op("someInt", "OInt", v.term), "OInt")
            raise Unsupported(f"{path} holds something that is not understood")

        r = self.ev(ast.parse("self._source_properties.received_samples", mode="eval").body, env)
        if not (isinstance(r, Num) and r.ty in ("Nat", "Int")):
            raise Unsupported("received_samples holds something that is not understood")
        rt = r.term if r.ty == "Nat" else Op("toNat", "Nat", r.term)
        return [Num(b.term, "Buf"), Num(b.maxlen.term, "Nat"), opt("self._source_properties.sampling_start", "samplingStart"),
                Num(rt, "Nat"), opt("self._source_properties.sampling_period", "samplingPeriod")]


STATE_SIG = ("(buf : List ResamplingHelper.Sample) (maxlen : Nat) (samplingStart : Option Int) (received : Nat)\n"
             "    (samplingPeriod : Option Int)")
STATE_TY = "List ResamplingHelper.Sample × Nat × Option Int × Nat × Option Int"
CONF_SIG = "(resamplingPeriod : Int) (maxAge : Rat) (maxBufferLen warnBufferLen : Nat)"


def tuple_text(items: list, ps: list) -> str:
    return "(" + ",\n     ".join(normal(x.term, ps) for x in items) + ")"


def helper_parts(hel: ast.ClassDef, tree: ast.Module) -> str:
    out = []
    # --- add_sample
    fn = RS.find_method(hel, "add_sample")
    p = RS.params_of(fn, 2, "add_sample")[1]
    sym = HelperSym(hel, tree)

    def t_state(s: ast.stmt, e: dict):  # type: ignore[no-untyped-def]
        if isinstance(s, ast.Return):
            if s.value is not None and not isinstance(sym.ev(s.value, e), RS.NoneV):
                raise Unsupported("add_sample returns a value")
            return Tup(sym.state(e))
        return None

    env = sym.env0()
    env[p] = Obj("sample")
    r = sym.run(RS.strip_doc(fn.body) + [ast.Return(None)], env, t_state)
    if not isinstance(r, Tup) or sym.fail_term() != FALSE:
        raise Unsupported("add_sample not understood")
    ps = STATE + ["x"]
    out.append(finish("/-- `_ResamplingHelper.add_sample(x)`: the state afterwards (buffer oldest first, its `maxlen`, sampling start,\n"
                      "received samples, input period). -/\n"
                      f"def addSample {STATE_SIG} (x : ResamplingHelper.Sample) :\n    {STATE_TY} :=\n  "
                      + tuple_text(r.items, ps), "add_sample"))

    # --- _update_source_sample_period(now); `est` = the float estimate the code computes
    fn = RS.find_method(hel, "_update_source_sample_period")
    now = RS.params_of(fn, 2, "_update_source_sample_period")[1]
    sym = HelperSym(hel, tree)

    def t_bool(sy):  # type: ignore[no-untyped-def]
        def t(s: ast.stmt, e: dict):  # type: ignore[no-untyped-def]
            if isinstance(s, ast.Return):
                v = sy.ev(s.value, e) if s.value is not None else None
                if not (isinstance(v, Num) and v.ty == "Bool"):
                    raise Unsupported("the update returns something else than True/False")
                return Tup(sy.state(e) + [v])
            return None
        return t

    env = sym.env0()
    env[now] = Num(V("now"), "Int")
    r = sym.run(RS.strip_doc(fn.body) + [ast.Return(ast.Constant(None))], env, t_bool(sym))
    if not isinstance(r, Tup) or sym.fail_term() != FALSE:
        raise Unsupported("_update_source_sample_period not understood")
    ps = STATE + CONF + ["now", "est"]
    out.append(finish("/-- `_ResamplingHelper._update_source_sample_period(now)`: (state afterwards, returned flag).  `est`: the value of\n"
                      "`timedelta(seconds=(now - sampling_start).total_seconds() / received_samples)` (computed through floats). -/\n"
                      f"def updatePeriod {STATE_SIG}\n    {CONF_SIG} (now est : Int) :\n    {STATE_TY} × Bool :=\n  "
                      + tuple_text(r.items, ps), "_update_source_sample_period"))

    # --- _update_buffer_len()
    fn = RS.find_method(hel, "_update_buffer_len")
    RS.params_of(fn, 1, "_update_buffer_len")
    sym = HelperSym(hel, tree, period_is_known=True)
    sym.join = True
    r = sym.run(RS.strip_doc(fn.body) + [ast.Return(ast.Constant(None))], sym.env0(), t_bool(sym))
    if not isinstance(r, Tup):
        raise Unsupported("_update_buffer_len not understood")
    if not sym.new_len or any(m.term != sym.new_len[0].term or m.ty != sym.new_len[0].ty for m in sym.new_len):
        raise Unsupported("the deque is rebuilt with different lengths on different paths")
    N = sym.new_len[0]
    nvar = Num(V("n"), N.ty)
    items = [Num(RS.replace(x.term, N.term, V("n")), x.ty) for x in r.items]
    items[4] = Num(Op("someInt", "OInt", V("inputPeriod")), "OInt")
    ps = ["buf", "maxlen", "samplingStart", "received", "inputPeriod"] + CONF
    nty = {"Int": "Int", "Nat": "Nat"}[N.ty]
    sig = ("(buf : List ResamplingHelper.Sample) (maxlen : Nat) (samplingStart : Option Int) (received : Nat)\n"
           f"    (inputPeriod : Int) {CONF_SIG}")
    out.append(finish("/-- The length `_update_buffer_len()` asks the rebuilt deque to have (compared with the current `maxlen` first). -/\n"
                      f"def askedBufferLen {sig} : {nty} :=\n  {normal(N.term, ps)}", "_update_buffer_len"))
    out.append(finish("/-- `_ResamplingHelper._update_buffer_len()` with the (known) input period `inputPeriod`: `none` = a\n"
                      "`ZeroDivisionError` escapes; otherwise (state afterwards, returned flag). -/\n"
                      f"def updateBufferLen {sig} :\n    Option ({STATE_TY} × Bool) :=\n"
                      f"  if {normal(sym.fail_term(), ps)} = true then none else some (\n"
                      f"    let n : {nty} := askedBufferLen {' '.join(ps)}\n    "
                      + tuple_text(items, ["n"] + ps) + ")",
                      "_update_buffer_len"))

    # --- resample(now): the update first (checked path by path), then the window; composed from the pieces above
    fn = RS.find_method(hel, "resample")
    ts = RS.params_of(fn, 2, "_ResamplingHelper.resample")[1]
    sym = HelperSym(hel, tree)
    sym.no_inline = {"_update_source_sample_period", "_update_buffer_len"}
    updated = ("bvar", "<updated>")

    def special(sy, n: ast.Call, env: dict):  # type: ignore[no-untyped-def]
        f = n.func
        if isinstance(f, ast.Attribute) and f.attr in sym.no_inline:
            b = sy.ev(f.value, env)
            if not (isinstance(b, Obj) and b.path == "self"):
                return None
            if f.attr == "_update_buffer_len":
                if n.args or n.keywords:
                    raise Unsupported("_update_buffer_len() called with arguments")
                RS.Sym.note(env, ("buflen",))
                return Opaque("result of _update_buffer_len()")
            a = [sy.ev(x, env) for x in n.args] + [sy.ev(k.value, env) for k in n.keywords]
            if not (len(a) == 1 and isinstance(a[0], Num) and a[0].term == V("now")):
                raise Unsupported("_update_source_sample_period is not called with the tick's timestamp")
            RS.Sym.note(env, ("update",))
            return Num(updated, "Bool")
        return None

    sym.special = special

    def t_res(s: ast.stmt, e: dict):  # type: ignore[no-untyped-def]
        if isinstance(s, ast.Return):
            v = sym.ev(s.value, e) if s.value is not None else None
            if not (isinstance(v, Tup) and len(v.items) == 2):
                raise Unsupported("resample() returns something else than Sample(…)")
            sym.ends.append((e.get("<path>", ()), e.get("<fx>", ())))
            return Tup(list(v.items))
        return None

    env = sym.env0()
    env[ts] = Num(V("now"), "Int")
    r = sym.run(RS.strip_doc(fn.body) + [ast.Return(ast.Constant(None))], env, t_res)
    if not isinstance(r, Tup) or not sym.ends:
        raise Unsupported("_ResamplingHelper.resample not understood")
    for path, fx in sym.ends:
        ev_ = [f for f in fx if f[0] in ("update", "buflen", "read", "buffer") or
               (f[0] in ("store", "call") and f[1].startswith(("self._buffer", "self._source_properties")))]
        if any(f[0] in ("store", "call", "buffer") for f in ev_):
            raise Unsupported("resample() modifies the buffer / the source properties itself")
        took = updated in path
        want = [("update",), ("buflen",)] if took else [("update",)]
        if ev_[:len(want)] != want or any(f[0] in ("update", "buflen") for f in ev_[len(want):]) \
                or (not took and mknot(updated) not in path):
            raise Unsupported("resample() does not start with the period/buffer update")
    if sym.fail_term() != FALSE:
        raise Unsupported("resample() itself divides by something that may be zero")
    ps = ["buf", "samplingPeriod", "resamplingPeriod", "maxAge", "now"]
    out.append(finish("/-- What `_ResamplingHelper.resample(now)` does after its period / buffer update, on the state the update left:\n"
                      "(timestamp of the returned sample, `some rel` when the resampling function is called with the samples `rel` /\n"
                      "`none` when the sample's value is `None` without calling it).  It changes nothing. -/\n"
                      "def resampleWindow (buf : List ResamplingHelper.Sample) (samplingPeriod : Option Int) (resamplingPeriod : Int)\n"
                      "    (maxAge : Rat) (now : Int) : Int × Option (List ResamplingHelper.Sample) :=\n  "
                      + tuple_text(r.items, ps), "_ResamplingHelper.resample"))
    args = "resamplingPeriod maxAge maxBufferLen warnBufferLen"
    out.append("/-- `_ResamplingHelper.resample(now)`: `if self._update_source_sample_period(now): self._update_buffer_len()` first\n"
               "(checked on every path of the method: nothing reads the buffer or the source properties before, and the buffer\n"
               "is resized exactly when the period was updated), then the window.  `none` = an exception escapes. -/\n"
               f"def resampleHelper {STATE_SIG}\n    {CONF_SIG} (now est : Int) :\n"
               f"    Option (({STATE_TY}) × Int × Option (List ResamplingHelper.Sample)) :=\n"
               f"  let u := updatePeriod buf maxlen samplingStart received samplingPeriod {args} now est\n"
               "  if u.2.2.2.2.2 = true then\n"
               "    match u.2.2.2.2.1 with\n"
               "    | none => none\n"
               "    | some ip =>\n"
               f"      match updateBufferLen u.1 u.2.1 u.2.2.1 u.2.2.2.1 ip {args} with\n"
               "      | none => none\n"
               "      | some r => some ((r.1, r.2.1, r.2.2.1, r.2.2.2.1, r.2.2.2.2.1),\n"
               "                        resampleWindow r.1 r.2.2.2.2.1 resamplingPeriod maxAge now)\n"
               "  else some ((u.1, u.2.1, u.2.2.1, u.2.2.2.1, u.2.2.2.2.1),\n"
               "             resampleWindow u.1 u.2.2.2.2.1 resamplingPeriod maxAge now)")
    return "\n\n".join(out)


PRELUDE = """\
/-- How one iteration of the timer loop of `Resampler.resample()` ends. -/
inductive LoopExit where
  /-- `raise ResamplingError(…)` -/
  | raised
  /-- `break` / `return` (one_shot) -/
  | stop
  /-- next tick -/
  | next
deriving Repr, DecidableEq
"""


def generate(repo: pathlib.Path) -> str:
    tree = ast.parse((repo / SOURCES[0]).read_text())
    res = RS.find_class(tree, "Resampler")
    stream = RS.find_class(tree, "_StreamingHelper")
    parts = [
        dict_method(res, tree, stream, "add_timeseries", "addTimeseries",
                    "`Resampler.add_timeseries`: (keys of `self._resamplers` afterwards, in insertion order; the returned flag)."),
        dict_method(res, tree, stream, "remove_timeseries", "removeTimeseries",
                    "`Resampler.remove_timeseries`: (keys of `self._resamplers` afterwards; the returned flag)."),
        streaming_resample(stream, tree),
        loop_parts(res, tree),
        helper_parts(RS.find_class(tree, "_ResamplingHelper"), tree),
    ]
    return ("import Frequenz.Model.ResamplingHelper\n\nset_option linter.unusedVariables false\n\n"
            "namespace Extracted.ResamplerLoops\nopen Extracted.Resampling\n\n" + PRELUDE + "\n"
            + "\n\n".join(parts) + "\n\nend Extracted.ResamplerLoops\n")
