"""`PowerManagingActor` (`_power_managing_actor.py`) -> Lean (`Extracted/PowerManagerActor.lean`), ONE component set.

Translated from the current source text, as state-passing functions over the two algorithm instances
(`op` = `self._set_op_power_group`, `reg` = `self._set_power_group`, both `Matryoshka.Mgr`), the cached system bounds
(`sb : Option SystemBounds`, `none` = no bounds tracker for the component ids yet) and the `_run` loop's carried flag:

  * `_calculate_shifted_bounds` whole                                    -> `shiftedBounds`
  * `_calculate_target_power` (order of the two group calls, the bounds each receives, the routing of the proposal by
    `proposal.set_operating_point`, the final None / sum logic)           -> `calculateTargetPower`
  * `_send_updated_target_power` (request sent iff result is not None)   -> `sendUpdatedTargetPower`, `requestAdjustPower`
  * the branches of `_run` (proposals, results, timer) and the body of `_bounds_tracker`
                                                                          -> `onProposal`, `onResult`, `onTimer`, `onBounds`
  * the cache entry written by `_add_system_bounds_tracker`              -> `trackerInitBounds`, the flag's initial value

Effects are sequenced in Python's evaluation order: every call `self.<group>.calculate_target_power(ids, p, b, must)`
becomes `Matryoshka.Mgr.calc` on the *current* state of that group and binds the new state; `get_target_power` reads
`.last` of the current state *at that point*; `drop_old_proposals(t)` is `Matryoshka.Mgr.drop`; reading
`self._system_bounds[ids]` without a cache entry is Python's `KeyError` = result `none` of a handler.  Statement
sequences are translated in continuation-passing style by the translator of `matryoshka_loops.py` (typed values,
Optional narrowing, semantic `match`).  Not translated (checked to have no effect on groups / flag / requests): the
subscription branch of `_run`, `_send_reports`.  Anything that cannot be established raises `py2lean.Unsupported`.
"""
import ast
import pathlib
import sys

sys.path.insert(0, str(pathlib.Path(__file__).resolve().parent))
import matryoshka_loops as ML  # noqa: E402
from matryoshka_loops import Env, If, Kont, Leaf, Let, MatchOpt, Val, atom, is_opt, render  # noqa: E402
from py2lean import Unsupported  # noqa: E402

NAME = "PowerManagerActor"
BASE = "src/frequenz/sdk/microgrid/_power_managing/"
SOURCES = [BASE + "_power_managing_actor.py"]

ML.LEAN_NAMES.update({"Mgr": "Matryoshka.Mgr", "SB": "Matryoshka.SystemBounds", "Proposal": "Matryoshka.Proposal",
                      "PB": "(Matryoshka.Proposal × Bool)"})
ML.BASE_TYPES.update({"Proposal": "PB", "SystemBounds": "SB", "frozenset[int]": "Ids", "Bounds": "Bounds"})

GROUPS = {"self._set_op_power_group": "@op", "self._set_power_group": "@reg"}
STATE_RET = "(Matryoshka.Mgr × Matryoshka.Mgr × Option Rat)"
HANDLER_RET = ("Option ((Bool × Matryoshka.Mgr × Matryoshka.Mgr × Option Matryoshka.SystemBounds) × Option Rat)")
EFFECT_METHODS = {"calculate_target_power", "drop_old_proposals", "_send_updated_target_power",
                  "_calculate_target_power", "_add_system_bounds_tracker"}


def unawait(n):
    return n.value if isinstance(n, ast.Await) else n


class ActorTr(ML.Tr):
    def __init__(self, cls: ast.ClassDef):
        super().__init__({})
        self.cls = cls
        self.all_methods = {f.name: f for f in cls.body if isinstance(f, (ast.FunctionDef, ast.AsyncFunctionDef))}
        self.adjust_power: set = set()
        self.may_raise = False  # a missing cache entry may be read (only handlers can express the KeyError)

    # ------------------------------------------------------------------------------------------ helpers
    def method(self, name: str):
        if name not in self.all_methods:
            raise Unsupported(f"method {name} not found")
        return self.all_methods[name]

    def bind_args(self, fn, call: ast.Call) -> dict:
        params = [a.arg for a in fn.args.args][1:]
        defaults = dict(zip(params[len(params) - len(fn.args.defaults):], fn.args.defaults))
        if len(call.args) > len(params) or fn.args.kwonlyargs or fn.args.vararg or fn.args.kwarg:
            raise Unsupported(f"call of {fn.name}")
        got = dict(zip(params, call.args))
        for k in call.keywords:
            if k.arg is None or k.arg not in params or k.arg in got:
                raise Unsupported(f"keyword in call of {fn.name}")
            got[k.arg] = k.value
        out = {}
        for p in params:  # parameter order
            if p in got:
                out[p] = got[p]
            elif p in defaults:
                out[p] = defaults[p]
            else:
                raise Unsupported(f"missing argument {p} of {fn.name}")
        return out

    def is_ids(self, n: ast.expr, env: Env) -> None:
        if self.val(n, env).ty != "Ids":
            raise Unsupported(f"{ast.unparse(n)} is not the component id set")

    # ------------------------------------------------------------------------------------------ values
    def raw(self, n: ast.expr, env: Env) -> Val:
        n = unawait(n)
        h = f"@h{id(n)}"
        if h in env.vals:
            return env.vals[h]
        if isinstance(n, ast.Attribute):
            src = ast.unparse(n)
            if src in GROUPS:
                return Val(GROUPS[src], "Group")
            if src in env.vals:
                return super().raw(n, env)
            b = self.val(n.value, env)
            if b.ty == "SB" and n.attr in ("inclusion_bounds", "exclusion_bounds"):
                t = f"{atom(b.term)}.{'incl' if n.attr == 'inclusion_bounds' else 'excl'}"
                return Val(t, ("opt", "Bounds"), t)
            if b.ty == "PB" and n.attr == "set_operating_point":
                return Val(f"{atom(b.term)}.2", "Bool")
            if b.ty in ("PB", "Request") and n.attr == "component_ids":
                return Val("ids", "Ids")
            if b.ty == "Result" and n.attr == "request":
                return Val("request", "Request")
            return super().raw(n, env)
        if isinstance(n, ast.Call):
            f = ast.unparse(n.func)
            if f == "isinstance" and len(n.args) == 2 and not n.keywords and self.val(n.args[0], env).ty == "Result":
                kind = ast.unparse(n.args[1]).split(".")[-1]
                if kind not in ("PartialFailure", "Success"):
                    raise Unsupported(f"result class {kind}")
                return Val(f"is{kind}", "Bool")
            if f == "frozenset" and len(n.args) == 1 and not n.keywords:
                self.is_ids(n.args[0], env)
                return Val("ids", "Ids")
            if f == "SystemBounds" and not n.args:
                kw = {k.arg: k.value for k in n.keywords}
                if set(kw) != {"timestamp", "inclusion_bounds", "exclusion_bounds"}:
                    raise Unsupported(f"SystemBounds(...) arguments {sorted(kw)}")
                i = self.want(self.val(kw["inclusion_bounds"], env), ("opt", "Bounds"))
                e = self.want(self.val(kw["exclusion_bounds"], env), ("opt", "Bounds"))
                return Val(f"({{ incl := {i}, excl := {e} }} : Matryoshka.SystemBounds)", "SB")
            if f == "Bounds":
                args = self.bind_named(n, ["lower", "upper"])
                lo = self.want(self.val(args["lower"], env), "Rat")
                hi = self.want(self.val(args["upper"], env), "Rat")
                return Val(f"({{ lower := {lo}, upper := {hi} }} : Bounds)", "Bounds")
            if f == "asyncio.get_event_loop().time" and not n.args and not n.keywords and "@now" in env.vals:
                return env.vals["@now"]
            if f == "self._calculate_shifted_bounds":
                a = list(self.bind_args(self.method("_calculate_shifted_bounds"), n).values())
                b = self.want(self.val(a[0], env), "SB")
                p = self.want(self.val(a[1], env), ("opt", "Rat"))
                return Val(f"(shiftedBounds {atom(b)} {atom(p)})", "SB")
            if isinstance(n.func, ast.Attribute) and self.group_of(n.func.value, env) is not None \
                    and n.func.attr == "get_target_power" and len(n.args) == 1 and not n.keywords:
                self.is_ids(n.args[0], env)
                t = f"{env.vals[self.group_of(n.func.value, env)].term}.last"
                return Val(t, ("opt", "Rat"), t)
            raise Unsupported(f"call {f}")
        return super().raw(n, env)

    @staticmethod
    def bind_named(call: ast.Call, names: list) -> dict:
        out = dict(zip(names, call.args))
        for k in call.keywords:
            if k.arg not in names or k.arg in out:
                raise Unsupported(f"arguments of {ast.unparse(call.func)}")
            out[k.arg] = k.value
        if set(out) != set(names):
            raise Unsupported(f"arguments of {ast.unparse(call.func)}")
        return out

    def want(self, v: Val, ty) -> str:
        if is_opt(v.ty) and is_opt(ty) and v.term == "none":
            return f"(none : {ML.lean_ty(ty)})"
        if v.ty == "PB" and ty == "Proposal":
            return f"{atom(v.term)}.1"
        if v.ty == "PB" and ty == ("opt", "Proposal"):
            return f"(some {atom(v.term)}.1)"
        if v.ty == ("opt", "PB") and ty == ("opt", "Proposal"):
            return f"({atom(v.term)}.map Prod.fst)"
        return super().want(v, ty)

    def cond(self, t: ast.expr, env: Env, T, E):
        # `ids not in self._bound_tracker_tasks`: a tracker exists iff the bounds cache has an entry
        if isinstance(t, ast.Compare) and len(t.ops) == 1 and isinstance(t.ops[0], (ast.In, ast.NotIn)) \
                and ast.unparse(t.comparators[0]) == "self._bound_tracker_tasks" and "@sb" in env.vals:
            self.is_ids(t.left, env)
            sb = env.vals["@sb"]
            return self.cond_none(sb, env, E, T) if isinstance(t.ops[0], ast.In) else self.cond_none(sb, env, T, E)
        return super().cond(t, env, T, E)

    # ------------------------------------------------------------------------------------------ effects
    def group_of(self, e: ast.expr, env: Env | None):
        """The state slot of a group object: `self._set_op_power_group` / a local that names it."""
        src = ast.unparse(e)
        if src in GROUPS:
            return GROUPS[src]
        if env is not None and isinstance(e, ast.Name) and e.id in env.vals and getattr(env.vals[e.id], "ty", None) == "Group":
            return env.vals[e.id].term
        return None

    def effect_site(self, n: ast.AST, env: Env | None = None) -> bool:
        if isinstance(n, ast.Subscript) and isinstance(n.ctx, ast.Load) and ast.unparse(n.value) == "self._system_bounds":
            return True
        if isinstance(n, ast.Call) and isinstance(n.func, ast.Attribute):
            recv, m = ast.unparse(n.func.value), n.func.attr
            if self.group_of(n.func.value, env) is not None and m in ("calculate_target_power", "get_target_power", "drop_old_proposals"):
                return True
            if recv == "self" and m in ("_calculate_target_power", "_send_updated_target_power", "_send_reports",
                                        "_add_system_bounds_tracker"):
                return True
            if recv == "self._power_distributing_requests_sender":
                return True
        return False

    def is_site(self, n: ast.AST, env: Env) -> bool:
        return self.effect_site(n, env) or super().is_site(n, env)

    def read_sb(self, env: Env, k):
        """Read `self._system_bounds[ids]`: k(env, Val) on the path where the entry exists, KeyError otherwise."""
        sb = env.vals["@sb"]
        if sb.key in env.narrow:
            return k(env, Val(env.narrow[sb.key], "SB"))
        if not self.may_raise:
            raise Unsupported("read of a possibly missing bounds cache entry outside an event handler")
        if sb.key in env.none:
            return Leaf("none")
        return self.cond_none(sb, env, lambda e: Leaf("none"), lambda e: k(e, Val(e.narrow[sb.key], "SB")))

    def set_state(self, env: Env, slot: str, term: str, ty: str, base: str):
        name = self.fresh(base)
        e = env.bind(slot, Val(name, "Mgr"))
        return name, e

    def site(self, n: ast.AST, env: Env, k):
        h = f"@h{id(n)}"
        if not self.effect_site(n, env):
            return super().site(n, env, k)
        if isinstance(n, ast.Subscript):
            self.is_ids(n.slice, env)
            return self.read_sb(env, lambda e, v: k(e.bind(h, v)))
        assert isinstance(n, ast.Call) and isinstance(n.func, ast.Attribute)
        recv, m = ast.unparse(n.func.value), n.func.attr
        if self.group_of(n.func.value, env) is not None:
            slot = self.group_of(n.func.value, env)
            st = env.vals[slot].term
            base = "op" if slot == "@op" else "reg"
            if m == "get_target_power":
                return k(env.bind(h, self.raw(n, env)))
            if m == "calculate_target_power":
                a = self.bind_named(n, ["component_ids", "proposal", "system_bounds", "must_return_power"]) \
                    if len(n.args) + len(n.keywords) == 4 else None
                if a is None:
                    raise Unsupported(f"arguments of {ast.unparse(n.func)}")
                self.is_ids(a["component_ids"], env)
                p = self.want(self.val(a["proposal"], env), ("opt", "Proposal"))
                b = self.want(self.val(a["system_bounds"], env), "SB")
                mu = self.want(self.val(a["must_return_power"], env), "Bool")
                r = self.fresh("r")
                new = self.fresh(base)
                e = env.bind(slot, Val(new, "Mgr")).bind(h, Val(f"{r}.2", ("opt", "Rat"), f"{r}.2"))
                return Let(r, "(Matryoshka.Mgr × Option Rat)", f"Matryoshka.Mgr.calc {st} {atom(p)} {atom(b)} {atom(mu)}",
                           Let(new, "Matryoshka.Mgr", f"{r}.1", k(e)))
            if m == "drop_old_proposals":
                if len(n.args) != 1 or n.keywords:
                    raise Unsupported("arguments of drop_old_proposals")
                t = self.want(self.val(n.args[0], env), "Rat")
                new = self.fresh(base)
                e = env.bind(slot, Val(new, "Mgr")).bind(h, Val("none", ("opt", None)))
                return Let(new, "Matryoshka.Mgr",
                           f"Matryoshka.Mgr.drop {st} Extracted.Proposal.maxProposalAgeSec {atom(t)}", k(e))
        if recv == "self._power_distributing_requests_sender":
            if m != "send" or len(n.args) != 1 or n.keywords or "@out" in env.vals:
                raise Unsupported(f"request sending: {ast.unparse(n)[:80]}")
            rq = n.args[0]
            if not (isinstance(rq, ast.Call) and ast.unparse(rq.func) == "_power_distributing.Request" and not rq.args):
                raise Unsupported(f"the request sent is not a fresh _power_distributing.Request(…): {ast.unparse(rq)[:60]}")
            kw = {x.arg: x.value for x in rq.keywords}
            if set(kw) != {"power", "component_ids", "adjust_power"}:
                raise Unsupported(f"Request(...) arguments {sorted(kw)}")
            self.is_ids(kw["component_ids"], env)
            if not (isinstance(kw["adjust_power"], ast.Constant) and isinstance(kw["adjust_power"].value, bool)):
                raise Unsupported("adjust_power is not a literal")
            self.adjust_power.add(kw["adjust_power"].value)
            pw = self.want(self.val(kw["power"], env), "Rat")
            return k(env.bind("@out", Val(f"(some {atom(pw)})", ("opt", "Rat"))).bind(h, Val("none", ("opt", None))))
        if recv == "self":
            fn = self.method(m)
            a = list(self.bind_args(fn, n).values())  # in the callee's parameter order
            if m == "_send_reports":
                self.is_ids(a[0], env)
                return k(env.bind(h, Val("none", ("opt", None))))
            if m == "_add_system_bounds_tracker":
                self.is_ids(a[0], env)
                sb = env.vals["@sb"]
                e = env.copy()
                e.none = e.none - {sb.key}
                e.narrow[sb.key] = "trackerInitBounds"
                return k(e.bind(h, Val("none", ("opt", None))))
            if m in ("_calculate_target_power", "_send_updated_target_power"):
                self.is_ids(a[0], env)
                p = self.want(self.val(a[1], env), ("opt", "PB"))
                mu = self.want(self.val(a[2], env), "Bool")
                lean = "calculateTargetPower" if m == "_calculate_target_power" else "sendUpdatedTargetPower"
                if m == "_send_updated_target_power" and "@out" in env.vals:
                    raise Unsupported("two requests in one handler")

                def call(e: Env, sbv: Val):
                    r, o, g = self.fresh("r"), self.fresh("op"), self.fresh("reg")
                    e2 = e.bind("@op", Val(o, "Mgr")).bind("@reg", Val(g, "Mgr"))
                    if m == "_calculate_target_power":
                        e2 = e2.bind(h, Val(f"{r}.2.2", ("opt", "Rat"), f"{r}.2.2"))
                    else:
                        e2 = e2.bind("@out", Val(f"{r}.2.2", ("opt", "Rat"))).bind(h, Val("none", ("opt", None)))
                    return Let(r, STATE_RET,
                               f"{lean} {e.vals['@op'].term} {e.vals['@reg'].term} {atom(sbv.term)} {atom(p)} {atom(mu)}",
                               Let(o, "Matryoshka.Mgr", f"{r}.1", Let(g, "Matryoshka.Mgr", f"{r}.2.1", k(e2))))
                return self.read_sb(env, call)
        raise Unsupported(f"effect {ast.unparse(n)[:80]}")

    # ------------------------------------------------------------------------------------------ statements
    def assign(self, name: str, value: ast.expr, env: Env, others: list):
        try:
            v = self.val(value, env)
        except Unsupported:
            v = None
        if v is not None and v.ty in ("Result", "Request", "Ids", "Group"):  # event payloads / the id set / a group: aliases
            return (lambda body: body), env.bind(name, v)
        return super().assign(name, value, env, others)

    def block1(self, stmts, env: Env, K: Kont, fa: dict):
        s, rest = stmts[0], stmts[1:]
        go = lambda e: self.block(rest, e, K, fa)  # noqa: E731
        if isinstance(s, ast.Expr) and not isinstance(s.value, ast.Constant) and not ML._only_logging([s]):
            v = unawait(s.value)
            if not (self.effect_site(v, env) or self.callee(v) is not None):
                raise Unsupported(f"statement {ast.unparse(s)[:70]}")
            return go(env)  # executed as a site by `block`
        if isinstance(s, ast.Assign) and len(s.targets) == 1 and isinstance(s.targets[0], ast.Subscript):
            t = s.targets[0]
            if ast.unparse(t.value) != "self._system_bounds" or "@sb" not in env.vals:
                raise Unsupported(f"store {ast.unparse(t)}")
            self.is_ids(t.slice, env)
            v = self.want(self.val(s.value, env), "SB")
            name = self.fresh("sbv")
            sb = env.vals["@sb"]
            e2 = env.copy()
            e2.none = e2.none - {sb.key}
            e2.narrow[sb.key] = name
            return Let(name, "Matryoshka.SystemBounds", v, go(e2))
        if isinstance(s, ast.AnnAssign) and isinstance(s.target, ast.Name) and s.value is not None:
            env = env.copy()
            env.decl[s.target.id] = ML.ann_type(ast.unparse(s.annotation))
            return ML.Tr.block1(self, [ast.Assign(targets=[s.target], value=s.value)] + rest, env, K, fa)
        if isinstance(s, ast.Match) and self.val(s.subject, env).ty == "Result":
            return self.match_result(s, rest, env, K, fa)
        return ML.Tr.block1(self, stmts, env, K, fa)

    def match_result(self, s: ast.Match, rest, env: Env, K: Kont, fa: dict):
        """`match result:` with class patterns of the power distributor's result types."""
        def case_k(i: int, e: Env):
            if i == len(s.cases):
                return self.block(rest, e, K, fa)
            c = s.cases[i]
            p = c.pattern
            if c.guard is not None or not isinstance(p, ast.MatchClass) or p.kwd_patterns:
                raise Unsupported(f"result pattern {ast.unparse(p)}")
            kind = ast.unparse(p.cls).split(".")[-1]
            if kind not in ("PartialFailure", "Success"):
                raise Unsupported(f"result class {kind}")
            e2 = e
            if len(p.patterns) > 1:
                raise Unsupported(f"result pattern {ast.unparse(p)}")
            for sp in p.patterns:  # the first positional field of every result type is `request`
                if not (isinstance(sp, ast.MatchAs) and sp.pattern is None):
                    raise Unsupported(f"result sub-pattern {ast.unparse(sp)}")
                if sp.name is not None:
                    e2 = e2.bind(sp.name, Val("request", "Request"))
            return If(f"is{kind} = true", self.block(c.body + rest, e2, K, fa), case_k(i + 1, e))
        return case_k(0, env)


# ------------------------------------------------------------------------------------------------ continuations
class FuncK(Kont):
    """A method over (op, reg): result `(op', reg', value)`."""

    def __init__(self, tr: ActorTr, rty, implicit_none: bool):
        self.tr, self.rty, self.implicit_none = tr, rty, implicit_none

    def out(self, env: Env, v: str) -> Leaf:
        return Leaf(f"({env.vals['@op'].term}, {env.vals['@reg'].term}, {v})")

    def ret(self, value, env):
        if value is None:
            if not self.implicit_none:
                raise Unsupported("bare return")
            return self.end(env)
        return self.out(env, self.tr.want(self.tr.val(value, env), self.rty))

    def end(self, env):
        if not self.implicit_none:
            raise Unsupported("function may fall off its end")
        return self.out(env, env.vals["@out"].term if "@out" in env.vals else "none")


class PureK(Kont):
    def __init__(self, tr: ActorTr, rty):
        self.tr, self.rty = tr, rty

    def ret(self, value, env):
        return Leaf(self.tr.want(self.tr.val(value, env), self.rty))


class HandlerK(Kont):
    def __init__(self, tr: ActorTr, flag: str | None):
        self.tr, self.flag = tr, flag

    def end(self, env: Env):
        flag = env.vals[self.flag].term if self.flag is not None else "flag"
        sb = self.tr.want(self.tr.view(env.vals["@sb"], env), ("opt", "SB"))
        out = env.vals["@out"].term if "@out" in env.vals else "none"
        return Leaf(f"some (({flag}, {env.vals['@op'].term}, {env.vals['@reg'].term}, {sb}), {out})")


# ------------------------------------------------------------------------------------------------ checks
def no_effects(fn, what: str, allow_tracker: bool = False, methods: dict | None = None, depth: int = 0) -> None:
    """The function (and the private methods it calls) does not touch the groups, the flag, the bounds cache or the
    request channel."""
    for x in ast.walk(fn):
        if methods is not None and depth < 4 and isinstance(x, ast.Call) and isinstance(x.func, ast.Attribute) \
                and ast.unparse(x.func.value) == "self" and x.func.attr in methods and x.func.attr not in EFFECT_METHODS \
                and x.func.attr not in ("_send_reports",):
            no_effects(methods[x.func.attr], f"{what} -> {x.func.attr}", allow_tracker, methods, depth + 1)
        if isinstance(x, ast.Call) and isinstance(x.func, ast.Attribute):
            m = x.func.attr
            if m in EFFECT_METHODS and not (allow_tracker and m == "_add_system_bounds_tracker"):
                raise Unsupported(f"{what}: calls {m}")
            if ast.unparse(x.func.value) == "self._power_distributing_requests_sender":
                raise Unsupported(f"{what}: sends a request")
        if isinstance(x, (ast.Attribute, ast.Subscript)) and isinstance(x.ctx, (ast.Store, ast.Del)):
            root = ast.unparse(x)
            if root.startswith(("self._system_bounds", "self._set_power_group", "self._set_op_power_group",
                                "self._bound_tracker_tasks")):
                raise Unsupported(f"{what}: writes {root}")


def state_env(extra: dict | None = None, sb_known: str | None = None) -> Env:
    e = Env(vals={"@op": Val("op", "Mgr"), "@reg": Val("reg", "Mgr"), "@sb": Val("sb", ("opt", "SB"), "sb"),
                  **(extra or {})})
    if sb_known is not None:
        e.narrow["sb"] = sb_known
    return e


def param_vals(fn, lean_names: list | None = None) -> dict:
    """python parameter -> Val; the Lean names are given by position (python names play no role)."""
    out = {}
    for i, a in enumerate(fn.args.args[1:]):
        if a.annotation is None:
            raise Unsupported(f"{fn.name}: parameter {a.arg} without annotation")
        ty = ML.ann_type(ast.unparse(a.annotation))
        ln = "ids" if ty == "Ids" else (lean_names[i] if lean_names is not None and i < len(lean_names) else a.arg)
        out[a.arg] = Val(ln, ty, ln if is_opt(ty) else None)
    return out


def generate(repo: pathlib.Path) -> str:
    tree = ast.parse((repo / SOURCES[0]).read_text())
    cls = next((c for c in tree.body if isinstance(c, ast.ClassDef) and c.name == "PowerManagingActor"), None)
    if cls is None:
        raise Unsupported("class PowerManagingActor not found")
    tr = ActorTr(cls)
    special = {"__init__", "_run", "_bounds_tracker", "_send_reports", "_add_system_bounds_tracker", "_calculate_shifted_bounds",
               "_calculate_target_power", "_send_updated_target_power", "_stop"}
    tr.methods = {f.name: f for f in cls.body if isinstance(f, ast.FunctionDef) and f.name not in special}
    out = ["import Frequenz.Model.Matryoshka", "import Frequenz.Extracted.Proposal", "",
           "namespace Extracted.PowerManagerActor", ""]

    # the two groups
    groups = set()
    for x in ast.walk(tr.method("__init__")):
        if isinstance(x, (ast.Assign, ast.AnnAssign)) and x.value is not None and isinstance(x.value, ast.Call) \
                and ast.unparse(x.value.func) == "Matryoshka":
            groups.add(ast.unparse(x.targets[0] if isinstance(x, ast.Assign) else x.target))
    if groups != set(GROUPS):
        raise Unsupported(f"__init__: Matryoshka instances {sorted(groups)}")

    # _calculate_shifted_bounds
    fn = tr.method("_calculate_shifted_bounds")
    pv = param_vals(fn, ["bounds", "op_power"])
    if [v.ty for v in pv.values()] != ["SB", ("opt", "Rat")]:
        raise Unsupported("_calculate_shifted_bounds: signature")
    t = tr.block(ML.strip_doc(fn.body), Env(vals=pv), PureK(tr, "SB"), ML.fn_assignments(fn))
    out.append("/-- `_calculate_shifted_bounds(bounds, op_power)` (the timestamp is not modelled). -/\n"
               "def shiftedBounds (bounds : Matryoshka.SystemBounds) (op_power : Option Rat) : Matryoshka.SystemBounds :=\n"
               + render(t, "  ") + "\n")

    # _calculate_target_power
    fn = tr.method("_calculate_target_power")
    names3 = ["ids", "proposal", "must_send"]
    pv = param_vals(fn, names3)
    if [v.ty for v in pv.values()] != ["Ids", ("opt", "PB"), "Bool"]:
        raise Unsupported("_calculate_target_power: signature")
    t = tr.block(ML.strip_doc(fn.body), state_env(pv, sb_known="sbv"), FuncK(tr, ("opt", "Rat"), False), ML.fn_assignments(fn))
    sig = ("(op reg : Matryoshka.Mgr) (sbv : Matryoshka.SystemBounds)\n"
           "    (proposal : Option (Matryoshka.Proposal × Bool)) (must_send : Bool) : " + STATE_RET + " :=\n")
    out.append("/-- `_calculate_target_power(component_ids, proposal, must_send)` over the states of the two groups; `sbv` =\n"
               "`self._system_bounds[component_ids]`, the `Bool` of the proposal = `proposal.set_operating_point`.\n"
               "Result: (operating-point group, regular group, returned power). -/\n"
               "def calculateTargetPower " + sig + render(t, "  ") + "\n")

    # _send_updated_target_power
    fn = tr.method("_send_updated_target_power")
    if [v.ty for v in param_vals(fn, names3).values()] != ["Ids", ("opt", "PB"), "Bool"]:
        raise Unsupported("_send_updated_target_power: signature")
    t = tr.block(ML.strip_doc(fn.body), state_env(param_vals(fn, names3), sb_known="sbv"), FuncK(tr, ("opt", "Rat"), True),
                 ML.fn_assignments(fn))
    out.append("/-- `_send_updated_target_power(component_ids, proposal, must_send)`: third component = the power of the\n"
               "request sent to the power distributor (`none`: nothing is sent). -/\n"
               "def sendUpdatedTargetPower " + sig + render(t, "  ") + "\n")
    if tr.adjust_power != {True} and tr.adjust_power != {False}:
        raise Unsupported(f"adjust_power of the request: {sorted(tr.adjust_power)}")
    out.append("/-- `adjust_power=` of the request. -/\n"
               f"def requestAdjustPower : Bool := {'true' if tr.adjust_power == {True} else 'false'}\n")

    # _add_system_bounds_tracker: the cache entry it creates
    fn = tr.method("_add_system_bounds_tracker")
    no_effects(ast.Module(body=[s for s in fn.body if not (isinstance(s, ast.Assign) and isinstance(s.targets[0], ast.Subscript))],
                          type_ignores=[]), "_add_system_bounds_tracker")
    stores = [s for s in ast.walk(fn) if isinstance(s, ast.Assign) and isinstance(s.targets[0], ast.Subscript)]
    tgt = sorted(ast.unparse(s.targets[0]) for s in stores)
    if tgt != ["self._bound_tracker_tasks[component_ids]", "self._system_bounds[component_ids]"] \
            or any(s not in fn.body for s in stores):
        raise Unsupported(f"_add_system_bounds_tracker: stores {tgt}")
    init = next(s.value for s in stores if ast.unparse(s.targets[0]).startswith("self._system_bounds"))
    out.append("/-- the cache entry written by `_add_system_bounds_tracker`. -/\n"
               f"def trackerInitBounds : Matryoshka.SystemBounds :=\n  {tr.want(tr.val(init, Env()), 'SB')}\n")

    no_effects(tr.method("_send_reports"), "_send_reports", methods=tr.all_methods)

    # _run
    tr.may_raise = True
    run = tr.method("_run")
    body = ML.strip_doc(run.body)
    loops = [s for s in body if isinstance(s, ast.AsyncFor)]
    if len(loops) != 1 or body[-1] is not loops[0] or loops[0].orelse or not isinstance(loops[0].target, ast.Name):
        raise Unsupported("_run: expected a prelude followed by one `async for selected in select(…)`")
    loop = loops[0]
    sel = loop.target.id
    if not (isinstance(loop.iter, ast.Call) and ast.unparse(loop.iter.func) == "select"):
        raise Unsupported("_run: loop is not over select(…)")
    exp, _ = ML.exposed(loop.body, {sel})
    carried = ML._stores(loop.body) & exp
    if len(carried) != 1:
        raise Unsupported(f"_run: loop-carried variables {sorted(carried)}")
    flag = next(iter(carried))
    inits = [s.value for s in body[:-1] if isinstance(s, ast.Assign) and ast.unparse(s.targets[0]) == flag]
    if len(inits) != 1 or not (isinstance(inits[0], ast.Constant) and isinstance(inits[0].value, bool)):
        raise Unsupported(f"_run: initial value of {flag}")
    no_effects(ast.Module(body=body[:-1], type_ignores=[]), "_run prelude")
    out.append(f"/-- initial value of the loop-carried flag of `_run` (`{flag}`). -/\n"
               f"def initialFlag : Bool := {'true' if inits[0].value else 'false'}\n")
    timers = [ast.unparse(s.targets[0]) for s in body[:-1]
              if isinstance(s, ast.Assign) and isinstance(s.value, ast.Call) and ast.unparse(s.value.func) == "Timer"]
    if len(loop.body) != 1 or not isinstance(loop.body[0], ast.If):
        raise Unsupported("_run: the loop body is not one if/elif chain over selected_from(…)")
    branches = {}
    node = loop.body[0]
    while True:
        t = node.test
        if not (isinstance(t, ast.Call) and ast.unparse(t.func) == "selected_from" and len(t.args) == 2
                and ast.unparse(t.args[0]) == sel):
            raise Unsupported(f"_run: branch test {ast.unparse(t)}")
        src = ast.unparse(t.args[1])
        if src in branches:
            raise Unsupported(f"_run: two branches for {src}")
        branches[src] = node.body
        if len(node.orelse) == 1 and isinstance(node.orelse[0], ast.If):
            node = node.orelse[0]
        elif not node.orelse:
            break
        else:
            raise Unsupported("_run: trailing else branch")
    want = {"self._proposals_receiver", "self._bounds_subscription_receiver", "self._power_distributing_results_receiver"}
    if set(branches) - want != set(timers) or len(timers) != 1 or not want <= set(branches):
        raise Unsupported(f"_run: branches {sorted(branches)}")
    if set(ast.unparse(a) for a in loop.iter.args) != set(branches):
        raise Unsupported("_run: select(…) arguments differ from the branches")
    no_effects(ast.Module(body=branches["self._bounds_subscription_receiver"], type_ignores=[]),
               "_run subscription branch", allow_tracker=True, methods=tr.all_methods)
    if flag in ML._stores(branches["self._bounds_subscription_receiver"]):
        raise Unsupported("_run subscription branch: writes the flag")

    hsig = "(flag : Bool) (op reg : Matryoshka.Mgr) (sb : Option Matryoshka.SystemBounds)"
    fa = ML.fn_assignments(run)
    flagv = {flag: Val("flag", "Bool")}
    t = tr.block(branches["self._proposals_receiver"],
                 state_env({**flagv, f"{sel}.message": Val("(p, isOp)", "PB")}), HandlerK(tr, flag), fa)
    out.append("/-- `_run`, proposals branch (`none` = `KeyError`).  Result: ((flag, op group, regular group, bounds cache),\n"
               "power of the request sent). -/\n"
               f"def onProposal {hsig} (p : Matryoshka.Proposal) (isOp : Bool) :\n    {HANDLER_RET} :=\n" + render(t, "  ") + "\n")
    t = tr.block(branches["self._power_distributing_results_receiver"],
                 state_env({**flagv, f"{sel}.message": Val("result", "Result")}), HandlerK(tr, flag), fa)
    out.append("/-- `_run`, results branch; `isPartialFailure` / `isSuccess` = the class of the result (`none` = `KeyError`). -/\n"
               f"def onResult {hsig} (isPartialFailure isSuccess : Bool) :\n    {HANDLER_RET} :=\n" + render(t, "  ") + "\n")
    t = tr.block(branches[timers[0]], state_env({**flagv, "@now": Val("now", "Rat")}), HandlerK(tr, flag), fa)
    out.append("/-- `_run`, timer branch; `now` = `asyncio.get_event_loop().time()`. -/\n"
               f"def onTimer {hsig} (now : Rat) :\n    {HANDLER_RET} :=\n" + render(t, "  ") + "\n")

    # _bounds_tracker
    bt = tr.method("_bounds_tracker")
    bbody = ML.strip_doc(bt.body)
    if not (len(bbody) == 1 and isinstance(bbody[0], ast.AsyncFor) and isinstance(bbody[0].target, ast.Name)
            and not bbody[0].orelse and isinstance(bbody[0].iter, ast.Name)
            and bbody[0].iter.id in [a.arg for a in bt.args.args]):
        raise Unsupported("_bounds_tracker: expected `async for bounds in <receiver parameter>`")
    pv = {k: v for k, v in param_vals(ast.FunctionDef(name="x", args=ast.arguments(
        posonlyargs=[], args=[a for a in bt.args.args if a.arg != bbody[0].iter.id], kwonlyargs=[], kw_defaults=[],
        defaults=[]), body=[], decorator_list=[])).items()}
    if [v.ty for v in pv.values()] != ["Ids"]:
        raise Unsupported("_bounds_tracker: signature")
    if ML._stores(bbody[0].body) & ML.exposed(bbody[0].body, {bbody[0].target.id} | set(pv))[0]:
        raise Unsupported("_bounds_tracker: loop-carried variables")
    t = tr.block(bbody[0].body, state_env({**pv, bbody[0].target.id: Val("bounds", "SB")}), HandlerK(tr, None),
                 ML.fn_assignments(bt))
    out.append("/-- `_bounds_tracker`, one received `bounds`. -/\n"
               f"def onBounds {hsig} (bounds : Matryoshka.SystemBounds) :\n    {HANDLER_RET} :=\n" + render(t, "  ") + "\n")
    out.append("end Extracted.PowerManagerActor")
    return "\n".join(out) + "\n"
