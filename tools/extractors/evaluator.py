"""Structural facts of the formula engine the C06/C19 models rely on -> Lean constants (pure `ast`).

  receiverErrorHandlers        number of `except … ReceiverError …` handlers in `MetricFetcher`
  receiverErrorHandlersCatch   every one of them names the class itself (`except ReceiverError`), not a subscripted
                               generic (`except ReceiverError[Any]` raises TypeError instead of catching)
  threePhaseResyncs            `FormulaEngine3Phase._run` advances the lagging per-phase receivers to the latest of the
                               three timestamps before building the sample (false: it zips them as they come)
  applyWaitsAllCompleted       `FormulaEvaluator.apply` waits for all fetchers (`return_when=asyncio.ALL_COMPLETED`)
  defaultOutputCapacity        default `max_size` of `FormulaEngine.new_receiver`
  fallbackSyncGuardsAhead      `MetricFetcher._synchronize_and_fetch_fallback` returns None (= use the primary sample)
                               and consumes nothing when the primary sample is OLDER than the latest fallback sample
                               (its catch-up loop only handles "newer").  Not read off the statement shapes: the Lean
                               constant EVALUATES the machine translation of the method (`Extracted.FallbackPull`,
                               regenerated from the same source by `fallback_pull.py`) on witness states — the latest
                               sample already held, and the latest sample being the first one received.
"""
import ast
import pathlib

NAME = "Evaluator"
D = "src/frequenz/sdk/timeseries/formula_engine/"
SOURCES = [D + "_formula_steps.py", D + "_formula_engine.py", D + "_formula_evaluator.py"]


def _cls(tree: ast.AST, name: str) -> ast.ClassDef:
    for n in ast.walk(tree):
        if isinstance(n, ast.ClassDef) and n.name == name:
            return n
    raise ValueError(f"class {name} not found")


def _fn(cls: ast.ClassDef, name: str):
    for n in cls.body:
        if isinstance(n, (ast.FunctionDef, ast.AsyncFunctionDef)) and n.name == name:
            return n
    raise ValueError(f"{cls.name}.{name} not found")


def _mentions(node: ast.AST | None, ident: str) -> bool:
    return node is not None and any(
        (isinstance(x, ast.Name) and x.id == ident) or (isinstance(x, ast.Attribute) and x.attr == ident)
        for x in ast.walk(node))


def _fallback_pull_ok(repo: pathlib.Path) -> None:
    """`fallbackSyncGuardsAhead` is evaluated on `Extracted/FallbackPull.lean`: that translation must exist for THIS
    source (raises what `fallback_pull.generate` raises)."""
    import importlib.util

    here = pathlib.Path(__file__).resolve().parent
    spec = importlib.util.spec_from_file_location("extractors.fallback_pull_for_flags", here / "fallback_pull.py")
    mod = importlib.util.module_from_spec(spec)
    spec.loader.exec_module(mod)  # type: ignore[union-attr]
    mod.generate(repo)


GUARD_WITNESS = """/-- evaluated on the translation of `_synchronize_and_fetch_fallback`: a primary sample (tick 5) OLDER than the
latest fallback sample (tick 7) gives `None` and leaves the state alone — (a) the latest sample is already held,
(b) it is the first one received (then only that one is consumed). -/
def fallbackSyncGuardsAhead : Bool :=
  let held : Pull.PSt := ⟨[], false, [⟨8, none⟩], false, true, true, some ⟨7, none⟩, none⟩
  let fresh : Pull.PSt := ⟨[], false, [⟨7, none⟩, ⟨8, none⟩], false, true, true, none, none⟩
  (match Extracted.FallbackPull.priv_synchronize_and_fetch_fallback (some ⟨5, none⟩) held with
   | .ok none c => decide (c = held)
   | _ => false) &&
  (match Extracted.FallbackPull.priv_synchronize_and_fetch_fallback (some ⟨5, none⟩) fresh with
   | .ok none c => decide (c = held)
   | _ => false)
"""


def generate(repo: pathlib.Path) -> str:
    steps = ast.parse((repo / SOURCES[0]).read_text())
    engine = ast.parse((repo / SOURCES[1]).read_text())
    evaluator = ast.parse((repo / SOURCES[2]).read_text())

    mf = _cls(steps, "MetricFetcher")
    for m in ("_fetch_next", "fetch_next_with_fallback", "_synchronize_and_fetch_fallback"):
        _fn(mf, m)
    handlers = [h for h in ast.walk(mf) if isinstance(h, ast.ExceptHandler) and _mentions(h.type, "ReceiverError")]
    if not handlers:
        raise ValueError("MetricFetcher has no ReceiverError handler any more")
    catch = all(isinstance(h.type, (ast.Name, ast.Attribute)) for h in handlers)

    run3 = _fn(_cls(engine, "FormulaEngine3Phase"), "_run")
    recvs = [n for n in ast.walk(run3) if isinstance(n, ast.Await) and isinstance(n.value, ast.Call)
             and isinstance(n.value.func, ast.Attribute) and n.value.func.attr == "receive"]
    if len(recvs) < 3:
        raise ValueError("FormulaEngine3Phase._run: expected at least three receive() calls")
    outer = [n for n in run3.body if isinstance(n, ast.While)]
    if len(outer) != 1:
        raise ValueError("FormulaEngine3Phase._run: expected one main loop")
    inner_loops = [n for n in ast.walk(outer[0]) if isinstance(n, (ast.While, ast.For)) and n is not outer[0]]
    compares_ts = any(isinstance(n, ast.Compare) and _mentions(n, "timestamp") for n in ast.walk(outer[0]))
    if len(recvs) == 3 and not inner_loops and not compares_ts:
        resync = False  # pinned shape: three receives zipped as they come
    else:
        # fixed shape (fixes/C06-3phase-resync.patch): a latest timestamp is computed with max(...) and every phase
        # has a `while <phase>.timestamp < latest: <phase> = await <rx>.receive()` loop
        loops = [n for n in inner_loops if isinstance(n, ast.While) and isinstance(n.test, ast.Compare)
                 and _mentions(n.test, "timestamp") and len(n.test.ops) == 1 and isinstance(n.test.ops[0], ast.Lt)
                 and any(isinstance(x, ast.Await) for x in ast.walk(n))]
        has_max = any(isinstance(n, ast.Call) and isinstance(n.func, ast.Name) and n.func.id == "max"
                      and _mentions(n, "timestamp") for n in ast.walk(outer[0]))
        if len(loops) == 3 and len(inner_loops) == 3 and has_max and len(recvs) == 6:
            resync = True
        else:
            raise ValueError("FormulaEngine3Phase._run: neither the pinned zip nor the resynchronising shape")

    _fallback_pull_ok(repo)

    apply_fn = _fn(_cls(evaluator, "FormulaEvaluator"), "apply")
    _fn(_cls(evaluator, "FormulaEvaluator"), "_synchronize_metric_timestamps")
    # every `asyncio.wait(…)` of the class (wherever a refactoring put it) waits for ALL_COMPLETED, and there is one
    waits = [n for n in ast.walk(_cls(evaluator, "FormulaEvaluator"))
             if isinstance(n, ast.Call) and ast.unparse(n.func) == "asyncio.wait"]
    all_completed = bool(waits) and all(
        any(k.arg == "return_when" and _mentions(k.value, "ALL_COMPLETED") for k in n.keywords) for n in waits)
    del apply_fn

    newrx = _fn(_cls(engine, "FormulaEngine"), "new_receiver")
    cap = None
    args = newrx.args
    for a, d in zip(args.args[len(args.args) - len(args.defaults):], args.defaults):
        if a.arg == "max_size" and isinstance(d, ast.Constant) and isinstance(d.value, int):
            cap = d.value
    if cap is None:
        raise ValueError("FormulaEngine.new_receiver: default max_size not found")

    b = lambda x: "true" if x else "false"  # noqa: E731
    return (
        "import Frequenz.Extracted.FallbackPull\n\n"
        "namespace Extracted.Evaluator\n\n"
        f"def receiverErrorHandlers : Nat := {len(handlers)}\n"
        f"def receiverErrorHandlersCatch : Bool := {b(catch)}\n"
        f"def threePhaseResyncs : Bool := {b(resync)}\n"
        f"def applyWaitsAllCompleted : Bool := {b(all_completed)}\n"
        f"def defaultOutputCapacity : Nat := {cap}\n"
        + GUARD_WITNESS + "\n"
        "end Extracted.Evaluator\n"
    )
