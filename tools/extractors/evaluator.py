"""Structural facts of the formula engine the C06/C19 models rely on -> Lean constants (pure `ast`).

  receiverErrorHandlers        number of `except … ReceiverError …` handlers in `MetricFetcher`
  receiverErrorHandlersCatch   every one of them names the class itself (`except ReceiverError`), not a subscripted
                               generic (`except ReceiverError[Any]` raises TypeError instead of catching)
  threePhaseResyncs            `FormulaEngine3Phase._run` advances the lagging per-phase receivers to the latest of the
                               three timestamps before building the sample (false: it zips them as they come)
  applyWaitsAllCompleted       `FormulaEvaluator.apply` waits for all fetchers (`return_when=asyncio.ALL_COMPLETED`)
  defaultOutputCapacity        default `max_size` of `FormulaEngine.new_receiver`
  fallbackSyncGuardsAhead      `MetricFetcher._synchronize_and_fetch_fallback` returns None (= use the primary sample)
                               when the primary sample is OLDER than the latest fallback sample, before its catch-up
                               loop `while primary.timestamp > latest.timestamp` (which only handles "newer")
"""
import ast
import pathlib

NAME = "Evaluator"
D = "src/frequenz/sdk/timeseries/formula_engine/"
SOURCES = [D + "_formula_steps.py", D + "_formula_engine.py", D + "_formula_evaluator.py"]


def _cls(tree: ast.AST, name: str) -> ast.ClassDef:
    for n in ast.walk(tree):
        if isinstance(n, ast.ClassDef) and n.name == name:
            return n
    raise ValueError(f"class {name} not found")


def _fn(cls: ast.ClassDef, name: str):
    for n in cls.body:
        if isinstance(n, (ast.FunctionDef, ast.AsyncFunctionDef)) and n.name == name:
            return n
    raise ValueError(f"{cls.name}.{name} not found")


def _mentions(node: ast.AST | None, ident: str) -> bool:
    return node is not None and any(
        (isinstance(x, ast.Name) and x.id == ident) or (isinstance(x, ast.Attribute) and x.attr == ident)
        for x in ast.walk(node))


def _ts_of(node: ast.AST) -> str | None:
    """`<expr>.timestamp` -> a name for <expr> (`x` for a local, `self.y` -> `y`), else None."""
    if isinstance(node, ast.Attribute) and node.attr == "timestamp":
        v = node.value
        if isinstance(v, ast.Name):
            return v.id
        if isinstance(v, ast.Attribute):
            return v.attr
    return None


def _returns_none(body: list[ast.stmt]) -> bool:
    return (len(body) >= 1 and isinstance(body[-1], ast.Return)
            and (body[-1].value is None or (isinstance(body[-1].value, ast.Constant) and body[-1].value.value is None))
            and not any(isinstance(x, (ast.Await, ast.Assign, ast.AugAssign)) for st in body for x in ast.walk(st)))


def _fallback_guard(fn) -> bool:
    """Is there, before the catch-up `while`, an `if <primary>.timestamp < <latest>.timestamp: return None`
    (either orientation), `<primary>` being the first parameter of the function?"""
    params = [a.arg for a in fn.args.args if a.arg != "self"]
    if not params:
        raise ValueError("_synchronize_and_fetch_fallback: no parameters")
    primary = params[0]
    loops = [i for i, st in enumerate(fn.body) if isinstance(st, ast.While)]
    if len(loops) != 1:
        raise ValueError("_synchronize_and_fetch_fallback: expected exactly one catch-up loop")
    for st in fn.body[:loops[0]]:
        if not (isinstance(st, ast.If) and isinstance(st.test, ast.Compare) and len(st.test.ops) == 1
                and not st.orelse and _returns_none(st.body)):
            continue
        left, right = _ts_of(st.test.left), _ts_of(st.test.comparators[0])
        op = st.test.ops[0]
        if left is None or right is None or left == right:
            continue
        if (isinstance(op, ast.Lt) and left == primary) or (isinstance(op, ast.Gt) and right == primary):
            return True
    return False


def generate(repo: pathlib.Path) -> str:
    steps = ast.parse((repo / SOURCES[0]).read_text())
    engine = ast.parse((repo / SOURCES[1]).read_text())
    evaluator = ast.parse((repo / SOURCES[2]).read_text())

    mf = _cls(steps, "MetricFetcher")
    for m in ("_fetch_next", "fetch_next_with_fallback", "_synchronize_and_fetch_fallback"):
        _fn(mf, m)
    handlers = [h for h in ast.walk(mf) if isinstance(h, ast.ExceptHandler) and _mentions(h.type, "ReceiverError")]
    if not handlers:
        raise ValueError("MetricFetcher has no ReceiverError handler any more")
    catch = all(isinstance(h.type, (ast.Name, ast.Attribute)) for h in handlers)

    run3 = _fn(_cls(engine, "FormulaEngine3Phase"), "_run")
    recvs = [n for n in ast.walk(run3) if isinstance(n, ast.Await) and isinstance(n.value, ast.Call)
             and isinstance(n.value.func, ast.Attribute) and n.value.func.attr == "receive"]
    if len(recvs) < 3:
        raise ValueError("FormulaEngine3Phase._run: expected at least three receive() calls")
    outer = [n for n in run3.body if isinstance(n, ast.While)]
    if len(outer) != 1:
        raise ValueError("FormulaEngine3Phase._run: expected one main loop")
    inner_loops = [n for n in ast.walk(outer[0]) if isinstance(n, (ast.While, ast.For)) and n is not outer[0]]
    compares_ts = any(isinstance(n, ast.Compare) and _mentions(n, "timestamp") for n in ast.walk(outer[0]))
    if len(recvs) == 3 and not inner_loops and not compares_ts:
        resync = False  # pinned shape: three receives zipped as they come
    else:
        # fixed shape (fixes/C06-3phase-resync.patch): a latest timestamp is computed with max(...) and every phase
        # has a `while <phase>.timestamp < latest: <phase> = await <rx>.receive()` loop
        loops = [n for n in inner_loops if isinstance(n, ast.While) and isinstance(n.test, ast.Compare)
                 and _mentions(n.test, "timestamp") and len(n.test.ops) == 1 and isinstance(n.test.ops[0], ast.Lt)
                 and any(isinstance(x, ast.Await) for x in ast.walk(n))]
        has_max = any(isinstance(n, ast.Call) and isinstance(n.func, ast.Name) and n.func.id == "max"
                      and _mentions(n, "timestamp") for n in ast.walk(outer[0]))
        if len(loops) == 3 and len(inner_loops) == 3 and has_max and len(recvs) == 6:
            resync = True
        else:
            raise ValueError("FormulaEngine3Phase._run: neither the pinned zip nor the resynchronising shape")

    guards_ahead = _fallback_guard(_fn(mf, "_synchronize_and_fetch_fallback"))

    apply_fn = _fn(_cls(evaluator, "FormulaEvaluator"), "apply")
    _fn(_cls(evaluator, "FormulaEvaluator"), "_synchronize_metric_timestamps")
    all_completed = any(isinstance(k, ast.keyword) and k.arg == "return_when" and _mentions(k.value, "ALL_COMPLETED")
                        for n in ast.walk(apply_fn) if isinstance(n, ast.Call) for k in n.keywords)

    newrx = _fn(_cls(engine, "FormulaEngine"), "new_receiver")
    cap = None
    args = newrx.args
    for a, d in zip(args.args[len(args.args) - len(args.defaults):], args.defaults):
        if a.arg == "max_size" and isinstance(d, ast.Constant) and isinstance(d.value, int):
            cap = d.value
    if cap is None:
        raise ValueError("FormulaEngine.new_receiver: default max_size not found")

    b = lambda x: "true" if x else "false"  # noqa: E731
    return (
        "namespace Extracted.Evaluator\n\n"
        f"def receiverErrorHandlers : Nat := {len(handlers)}\n"
        f"def receiverErrorHandlersCatch : Bool := {b(catch)}\n"
        f"def threePhaseResyncs : Bool := {b(resync)}\n"
        f"def applyWaitsAllCompleted : Bool := {b(all_completed)}\n"
        f"def defaultOutputCapacity : Nat := {cap}\n"
        f"def fallbackSyncGuardsAhead : Bool := {b(guards_ahead)}\n\n"
        "end Extracted.Evaluator\n"
    )
