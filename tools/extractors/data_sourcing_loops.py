"""`MicrogridApiSource` / `DataSourcingActor` control flow -> Lean (`Extracted/DataSourcingLoops.lean`).

A symbolic executor over the CURRENT source text (pure `ast`; helper methods, module functions and nested closures are
inlined with parameter binding incl. keyword arguments; locals that alias a container of `self` write through).  It
translates, as total functions over the object state `Src` (the three dictionaries of the source, found by what is
stored in them, plus the tasks that were replaced while still alive):

  * `addMetric`       the method that registers a request and (re)creates the streaming task (`add_metric` with
                      `_update_streams` inlined): category lookup (an oracle parameter `categoryOf`, the result of
                      `api_client.components()`), the `try … except (KeyError, ValueError)` around the extraction
                      dispatch, `setdefault` / `setdefault`, the duplicate test on channel names, `append`, `cancel()`
                      of the old task and `create_task(run_forever(lambda: <streaming method>(id, category)))`;
  * `handlePrologue`  the streaming method up to its `async for`: `_check_requested_component_and_metrics` with its early
                      return, its category chain (`if`/`elif` or `match`) and the inlined per-category helpers (metric
                      validation loop, `if id not in receivers: receivers[id] = await <client>.<x>_data(id)`), the
                      sender snapshot of `_get_metric_senders` (comprehension or loops; one sender per registered
                      request, the extraction method per metric), the receiver that the loop iterates;
  * `handleMessage`   one iteration of that `async for`: the fan-out closure / method run at the point where its task is
                      created (`for (extractor, senders) in snapshot: for sender in senders: send(Sample(msg.timestamp,
                      Quantity(extractor(msg))))`), the set of sending tasks, `asyncio.wait(…, timeout=0)` as an oracle
                      `isDone`;
  * `actorRun`        `DataSourcingActor._run`: `addMetric` for each request, in order.

Python semantics used: dictionaries are association lists in insertion order (`Dict.*`, emitted verbatim below);
`d[k]` of an absent key is `KeyError` (the executor tracks which keys are known to be present / absent on the current
path and emits the raise otherwise); loops are translated by what they mean — a loop whose body only tests and exits
is `List.any`, a loop / comprehension that only appends or sends is `List.map` / `flatMap` / `mapM`; early `return`,
`raise`, `try`/`except` by exception class, `continue`, conditional polarity (`not in` / `in … continue`, `if not`/
`else`) are executed, so behaviour-preserving rewrites give the same decision tree.  A request is identified with its
channel (`get_channel_name()` is injective on the four fields — trusted, as in the model), a sender with the request
whose channel it was created for, an extraction method with the (category, metric) it was looked up for.
Anything that cannot be established raises `Unsupported`.
"""


import ast
import pathlib
import sys
from dataclasses import dataclass, field

sys.path.insert(0, str(pathlib.Path(__file__).resolve().parent))
sys.path.insert(0, str(pathlib.Path(__file__).resolve().parent.parent))
import data_sourcing as DS  # noqa: E402  (read-only: metric tables, role finders)
from py2lean import Unsupported  # noqa: E402

NAME = "DataSourcingLoops"
BASE = "src/frequenz/sdk/microgrid/_data_sourcing/"
SOURCES = [BASE + "microgrid_api_source.py", BASE + "data_sourcing.py"]

FuncDef = (ast.FunctionDef, ast.AsyncFunctionDef)
ROOT_TYPES = {"reqs": "Reqs", "receivers": "Dict Nat (List Msg)", "tasks": "Dict Nat StreamTask", "leaked": "List StreamTask"}
REQUEST_FIELDS = {"component_id": ("cid", "Nat"), "metric_id": ("metric", "Metric"), "namespace": ("ns", "Str"),
                  "start_time": ("start", "OptInt")}
EXC = {"KeyError": "keyError", "ValueError": "valueError"}


# ---- symbolic values -------------------------------------------------------------------------------------------------
@dataclass(frozen=True)
class T:
    """A Lean term of a (loosely tracked) type."""
    term: str
    ty: str


@dataclass(frozen=True)
class Loc:
    """A container that lives in the object state: root dictionary + keys."""
    root: str
    keys: tuple[str, ...]


@dataclass(frozen=True)
class OptLoc:
    """`d.get(k)`: the entry if present, else None."""
    loc: Loc


@dataclass(frozen=True)
class Closure:
    fn: ast.AST
    env: dict
    skip: int = 0          # leading parameters bound implicitly (`self`)


@dataclass(frozen=True)
class Coro:
    """A coroutine object that has not run yet."""
    fn: ast.AST
    env: dict


@dataclass(frozen=True)
class SendCoro:
    sender: str
    sample: str


@dataclass(frozen=True)
class Tup:
    items: tuple


NONE = T("()", "None")
STR = T("\"\"", "Str")


def atom(t: str) -> str:
    t = t.strip()
    if t.replace("_", "").replace(".", "").isalnum() or (t.startswith("(") and t.endswith(")")) or t.startswith('"') \
            or t.startswith("[") or t.startswith("⟨"):
        return t
    return f"({t})"


# ---- decision trees --------------------------------------------------------------------------------------------------
@dataclass
class Leaf:
    kind: str              # ok | raise | next (loop body fell through) | atloop
    ctx: object
    value: object = None   # ok: value term / raise: exception constructor


@dataclass
class If:
    cond: str              # Bool term
    then: object
    els: object


@dataclass
class MatchOpt:
    term: str
    var: str
    none: object
    some: object


@dataclass
class MatchExc:
    term: str
    var: str
    key: object
    value: object
    ok: object


@dataclass
class Let:
    name: str
    ty: str
    term: str
    body: object


@dataclass
class Ctx:
    env: dict
    state: dict                       # root -> current Lean term
    outs: str = "[]"
    present: frozenset = frozenset()  # (root, keys) known present
    absent: frozenset = frozenset()
    handlers: tuple = ()              # stack of (kinds | None = all, handler body, continuation, env names)
    exc: str | None = None            # exception being handled (for a bare `raise`)
    loop: object = None

    def with_(self, **kw) -> "Ctx":
        d = dict(env=self.env, state=self.state, outs=self.outs, present=self.present, absent=self.absent,
                 handlers=self.handlers, exc=self.exc, loop=self.loop)
        d.update(kw)
        return Ctx(**d)

    def bind(self, name: str, v: object) -> "Ctx":
        e = dict(self.env)
        e[name] = v
        return self.with_(env=e)


@dataclass
class LoopRec:
    """Effects of a loop body in terms of the element variable."""
    depth: int
    outer: set = field(default_factory=set)       # names of list variables defined outside the body
    contrib: list = field(default_factory=list)   # (accumulator, list term)
    binds: list = field(default_factory=list)     # (var, Except term, type)


class Exec:
    def __init__(self, mod: ast.Module, cls: ast.ClassDef, tables: dict, roles: dict):
        self.mod, self.cls, self.tables, self.roles = mod, cls, tables, roles
        self.methods = {f.name: f for f in cls.body if isinstance(f, FuncDef)}
        self.modfuncs = {f.name: f for f in mod.body if isinstance(f, FuncDef)}
        self.n = 0
        self.depth = 0
        self.lets: list = []

    # ------------------------------------------------------------------------------------------------ helpers
    def fresh(self, base: str) -> str:
        self.n += 1
        return f"{base}_{self.n}"

    def write(self, ctx: Ctx, root: str, term: str, k) -> object:
        """State write: bind the new value of `root` to a fresh name."""
        name = self.fresh(root)
        st = dict(ctx.state)
        st[root] = name
        return Let(name, ROOT_TYPES[root], term, k(ctx.with_(state=st)))

    def read_path(self, ctx: Ctx, loc: Loc) -> str:
        t = ctx.state[loc.root]
        for k in loc.keys:
            t = f"Dict.getD {atom(t)} {atom(k)} []"
        return t

    def write_path(self, ctx: Ctx, loc: Loc, new: str) -> str:
        """Term of the root dictionary after `root[k1]…[kn] = new`."""
        def rec(cur: str, keys: tuple[str, ...]) -> str:
            if not keys:
                return new
            inner = rec(f"Dict.getD {atom(cur)} {atom(keys[0])} []", keys[1:])
            return f"Dict.set {atom(cur)} {atom(keys[0])} {atom(inner)}"
        return rec(ctx.state[loc.root], loc.keys)

    def know(self, ctx: Ctx, loc: Loc, present: bool) -> Ctx:
        key = (loc.root, loc.keys)
        if present:
            return ctx.with_(present=ctx.present | {key}, absent=ctx.absent - {key})
        return ctx.with_(absent=ctx.absent | {key}, present=ctx.present - {key})

    def forget(self, ctx: Ctx, root: str) -> Ctx:
        return ctx.with_(present=frozenset(p for p in ctx.present if p[0] != root),
                         absent=frozenset(p for p in ctx.absent if p[0] != root))

    def contains(self, ctx: Ctx, loc: Loc) -> str:
        parent = Loc(loc.root, loc.keys[:-1])
        return f"Dict.contains {atom(self.read_path(ctx, parent))} {atom(loc.keys[-1])}"

    def fork_present(self, ctx: Ctx, loc: Loc, k_present, k_absent) -> object:
        key = (loc.root, loc.keys)
        if key in ctx.present:
            return k_present(ctx)
        if key in ctx.absent:
            return k_absent(ctx)
        return self.mk_if(self.contains(ctx, loc), k_present(self.know(ctx, loc, True)),
                          k_absent(self.know(ctx, loc, False)))

    @staticmethod
    def mk_if(cond: str, t: object, e: object) -> object:
        cond = cond.strip()
        while cond.startswith("!"):
            cond = cond[1:].strip()
            if cond.startswith("(") and cond.endswith(")"):
                cond = cond[1:-1].strip()
            t, e = e, t
        if cond == "true":
            return t
        if cond == "false":
            return e
        return If(cond, t, e)

    def raise_(self, ctx: Ctx, kind: str) -> object:
        """Raise `kind` (Python class name): innermost matching handler, else a raise leaf."""
        for i in range(len(ctx.handlers) - 1, -1, -1):
            kinds, body, k_after, loop = ctx.handlers[i]
            if kinds is None or kind in kinds:
                inner = ctx.with_(handlers=ctx.handlers[:i], exc=kind, loop=loop)
                return self.block(body, inner, lambda c: k_after(c.with_(exc=None)))
        if kind not in EXC:
            raise Unsupported(f"exception class {kind}")
        return Leaf("raise", ctx, f"Exc.{EXC[kind]}")

    # ------------------------------------------------------------------------------------------------ calls
    def bind_args(self, fn: ast.AST, call: ast.Call, skip: int, ctx: Ctx, k) -> object:
        a = fn.args  # type: ignore[attr-defined]
        params = [x.arg for x in a.posonlyargs + a.args][skip:]
        if a.vararg or a.kwarg or a.kwonlyargs or any(isinstance(x, ast.Starred) for x in call.args) \
                or any(kw.arg is None for kw in call.keywords) or len(call.args) > len(params):
            raise Unsupported(f"call of {fn.name}: argument shape")  # type: ignore[attr-defined]
        exprs: dict[str, ast.expr] = dict(zip(params, call.args))
        for kw in call.keywords:
            if kw.arg not in params or kw.arg in exprs:
                raise Unsupported(f"call of {fn.name}: keyword {kw.arg}")  # type: ignore[attr-defined]
            exprs[kw.arg] = kw.value  # type: ignore[index]
        defaults = dict(zip(params[len(params) - len(a.defaults):], a.defaults)) if a.defaults else {}
        order = [p for p in params if p in exprs]
        missing = [p for p in params if p not in exprs and p not in defaults]
        if missing:
            raise Unsupported(f"call of {fn.name}: missing {missing}")  # type: ignore[attr-defined]

        def go(i: int, c: Ctx, got: dict) -> object:
            if i == len(order):
                return k(c, got)
            return self.eval(exprs[order[i]], c, lambda c2, v: go(i + 1, c2, {**got, order[i]: v}))
        return go(0, ctx, {})

    def inline(self, fn: ast.AST, bound: dict, outer_env: dict, ctx: Ctx, k) -> object:
        """Run the body of `fn` with parameters `bound`; `k(ctx, return value)` continues the caller."""
        self.depth += 1
        if self.depth > 12:
            raise Unsupported("call depth")
        caller_env, caller_handlers, caller_loop = ctx.env, ctx.handlers, ctx.loop
        env = dict(outer_env)
        env.update(bound)

        def ret(c: Ctx, v: object) -> object:
            return k(c.with_(env=caller_env), v)
        env["@return"] = ret
        body = DS._strip_doc(fn.body)  # type: ignore[attr-defined]
        try:
            return self.block(body, ctx.with_(env=env), lambda c: ret(c, NONE))
        finally:
            self.depth -= 1

    def resolve(self, f: ast.expr, ctx: Ctx):
        """A callable of this module: (function, implicit parameters, closure environment)."""
        if isinstance(f, ast.Name):
            v = ctx.env.get(f.id)
            if isinstance(v, Closure):
                return v.fn, v.skip, v.env
            if f.id in self.modfuncs and f.id not in ctx.env:
                return self.modfuncs[f.id], 0, {}
        if isinstance(f, ast.Attribute) and isinstance(f.value, ast.Name) and f.value.id in ("self", "cls", self.cls.name) \
                and f.attr in self.methods:
            fn = self.methods[f.attr]
            decos = {ast.unparse(d) for d in fn.decorator_list}  # type: ignore[attr-defined]
            if decos - {"staticmethod", "classmethod"}:
                raise Unsupported(f"decorated method {f.attr}")
            if "staticmethod" in decos:
                return fn, 0, {}
            if f.value.id == self.cls.name and "classmethod" not in decos:
                return fn, 0, {}            # unbound call: `self` is passed explicitly
            return fn, 1, {}
        return None

    def call(self, n: ast.Call, ctx: Ctx, k) -> object:
        f = n.func
        src = ast.unparse(f)
        r = self.resolve(f, ctx)
        if r is not None:
            fn, skip, cenv = r
            name = fn.name  # type: ignore[attr-defined]
            if name == self.roles["category"]:
                def got(c: Ctx, b: dict) -> object:
                    (v,) = b.values()
                    return k(c, T(f"categoryOf {atom(self.want(v, 'Nat'))}", "OptCat"))
                return self.bind_args(fn, n, skip, ctx, got)
            if name == self.roles["extraction"]:
                def got2(c: Ctx, b: dict) -> object:
                    vals = list(b.values())
                    if len(vals) != 2:
                        raise Unsupported("extraction dispatch: two arguments expected")
                    term = f"extractionMethod {atom(self.want(vals[0], 'Cat'))} {atom(self.want(vals[1], 'Metric'))}"
                    return self.raising(c, term, "Extractor", k)
                return self.bind_args(fn, n, skip, ctx, got2)
            if isinstance(fn, ast.AsyncFunctionDef):
                return self.bind_args(fn, n, skip, ctx, lambda c, b: k(c, Coro(fn, {**cenv, **b})))
            return self.bind_args(fn, n, skip, ctx, lambda c, b: self.inline(fn, b, cenv, c, k))
        if isinstance(f, ast.Name) and isinstance(ctx.env.get(f.id), T) and ctx.env[f.id].ty == "Extractor" \
                and len(n.args) == 1 and not n.keywords:
            e = ctx.env[f.id].term
            return self.eval(n.args[0], ctx, lambda c, v: k(c, T(
                f"Extractor.apply {atom(e)} {atom(self.want(v, 'Msg'))}", "Value")))
        if src.startswith("_logger.") or src in ("print",):
            return k(ctx, NONE)
        if src == "set" and not n.args:
            return k(ctx, T("[]", "List"))
        if src in ("ValueError", "KeyError", "RuntimeError", "Exception"):
            return k(ctx, T(src, "ExcObj"))
        if src == "any" and len(n.args) == 1 and isinstance(n.args[0], ast.GeneratorExp):
            return self.any_gen(n.args[0], ctx, k)
        if src in ("asyncio.TaskGroup",):
            return k(ctx, T("tg", "TaskGroup"))
        if src == "Quantity" and len(n.args) == 1 and not n.keywords:
            return self.eval(n.args[0], ctx, lambda c, v: k(c, T(self.want(v, "Value"), "Quantity")))
        if src == "Sample":
            names = list(DS._SAMPLE_FIELDS)
            if len(n.args) > 2 or any(kw.arg not in names for kw in n.keywords):
                raise Unsupported("Sample(...) arguments")
            ex: dict[str, ast.expr] = dict(zip(names, n.args))
            for kw in n.keywords:
                ex[kw.arg] = kw.value  # type: ignore[index]
            if set(ex) != set(names):
                raise Unsupported("Sample(...) without timestamp / value")
            return self.eval(ex["timestamp"], ctx, lambda c, ts: self.eval(
                ex["value"], c, lambda c2, v: k(c2, T(
                    f"(⟨{self.want(ts, 'Ts')}, {self.want(v, 'Quantity')}⟩ : Sample)", "Sample"))))
        if src == "asyncio.wait" and len(n.args) == 1 and [kw.arg for kw in n.keywords] == ["timeout"] \
                and isinstance(n.keywords[0].value, ast.Constant) and n.keywords[0].value.value == 0:
            def waited(c: Ctx, v: object) -> object:
                xs = atom(self.want(v, "List"))
                return k(c, Coro(None, {"@value": Tup((T(f"List.filter isDone {xs}", "List"),
                                                        T(f"List.filter (fun t => !isDone t) {xs}", "List")))}))
            return self.eval(n.args[0], ctx, waited)
        if src in ("asyncio.create_task", "asyncio.ensure_future") and n.args:
            return self.create_task(n, ctx, k)
        if src == "run_forever":
            raise Unsupported("run_forever outside create_task")
        if isinstance(f, ast.Attribute):
            return self.method_call(n, f, ctx, k)
        raise Unsupported(f"call {src}")

    def raising(self, ctx: Ctx, term: str, ty: str, k) -> object:
        """A primitive with result `Except Exc _`."""
        if ctx.loop is not None:
            var = f"e{ctx.loop.depth}"
            ctx.loop.binds.append((var, term, ty))
            return k(ctx, T(var, ty))
        var = self.fresh("v")
        return MatchExc(term, var, self.raise_(ctx, "KeyError"), self.raise_(ctx, "ValueError"), k(ctx, T(var, ty)))

    def create_task(self, n: ast.Call, ctx: Ctx, k) -> object:
        arg = n.args[0]
        # `create_task(run_forever(lambda: self.<streaming method>(id, category)))`
        if isinstance(arg, ast.Call) and ast.unparse(arg.func) == "run_forever" and len(arg.args) == 1 \
                and isinstance(arg.args[0], ast.Lambda) and not arg.args[0].args.args:
            inner = arg.args[0].body
            if isinstance(inner, ast.Call):
                r = self.resolve(inner.func, ctx)
                if r is not None and r[0].name == self.roles["stream"]:  # type: ignore[attr-defined]
                    def got(c: Ctx, b: dict) -> object:
                        vals = list(b.values())
                        if len(vals) != 2:
                            raise Unsupported("streaming method: (component id, category) expected")
                        return k(c, T(f"StreamTask.created {atom(self.want(vals[0], 'Nat'))} {atom(self.want(vals[1], 'Cat'))}",
                                      "Task"))
                    return self.bind_args(r[0], inner, r[1], ctx, got)
            raise Unsupported("create_task(run_forever(...)) of something else than the streaming method")

        def started(c: Ctx, v: object) -> object:
            if isinstance(v, Coro) and v.fn is not None and DS._has_send(v.fn):
                msgs = [x for x in v.env.values() if isinstance(x, T) and x.ty == "Msg"]
                if len(msgs) != 1:
                    raise Unsupported("fan-out task: exactly one message argument expected")
                # the detached fan-out task is run where it is created (creation order = execution order: trusted)
                return self.inline(v.fn, {}, v.env, c, lambda c2, _r: k(c2, T(msgs[0].term, "SendTask")))
            raise Unsupported(f"create_task of {ast.unparse(arg)}")
        return self.eval(arg, ctx, started)

    def method_call(self, n: ast.Call, f: ast.Attribute, ctx: Ctx, k) -> object:
        m = f.attr
        if m.endswith("_data") and not n.keywords and len(n.args) == 1:   # `<client>.<x>_data(id)`: a new, empty stream
            return self.eval(n.args[0], ctx, lambda c, v: k(c, Coro(None, {"@value": T("([] : List Msg)", "Recv"),
                                                                          "@for": self.want(v, "Nat")})))
        if m == "get_or_create" and len(n.args) == 2 and not n.keywords:
            return self.eval(n.args[1], ctx, lambda c, v: k(c, T(self.want(v, "ChanName"), "Channel")))

        def on(c: Ctx, base: object) -> object:
            if isinstance(base, OptLoc):
                if (base.loc.root, base.loc.keys) not in c.present:
                    raise Unsupported(f"{ast.unparse(f.value)} may be None here")
                base = base.loc
            if isinstance(base, Loc):
                return self.loc_method(n, m, base, c, k)
            if isinstance(base, T):
                if base.ty == "Chan" and m == "get_channel_name" and not n.args:
                    return k(c, T(base.term, "ChanName"))
                if base.ty == "Channel" and m == "new_sender" and not n.args:
                    return k(c, T(base.term, "Sender"))
                if base.ty == "Sender" and m == "send" and len(n.args) == 1 and not n.keywords:
                    return self.eval(n.args[0], c, lambda c2, s: k(c2, SendCoro(base.term, self.want(s, "Sample"))))
                if base.ty == "TaskGroup" and m == "create_task" and n.args:
                    return self.eval(n.args[0], c, lambda c2, s: self.emit(c2, s, k))
                if base.ty == "SendTask" and m in ("result", "get_name", "exception") and not n.args:
                    return k(c, NONE if m == "result" else STR)
                if base.ty in ("Reqs1", ) and m == "items" and not n.args:
                    return k(c, T(base.term, "Reqs1Items"))
            raise Unsupported(f"method {m} of {ast.unparse(f.value)}")
        # local list / set variables: in-place mutation rebinds the variable
        if isinstance(f.value, ast.Name) and isinstance(ctx.env.get(f.value.id), T) \
                and ctx.env[f.value.id].ty == "List" and m in ("append", "add") and len(n.args) == 1:
            name = f.value.id

            def app(c: Ctx, v: object) -> object:
                item = self.item(v)
                if c.loop is not None and name in c.loop.outer:
                    c.loop.contrib.append((name, f"[{item}]"))
                    return k(c, NONE)
                cur = c.env[name].term
                new = f"[{item}]" if cur == "[]" else f"{cur} ++ [{item}]"
                return k(c.bind(name, T(new, "List")), NONE)
            return self.eval(n.args[0], ctx, app)
        return self.eval(f.value, ctx, on)

    def item(self, v: object) -> str:
        if isinstance(v, Tup):
            return "(" + ", ".join(self.item(x) for x in v.items) + ")"
        if isinstance(v, T):
            return v.term
        raise Unsupported("value stored in a list")

    def emit(self, ctx: Ctx, v: object, k) -> object:
        if not isinstance(v, SendCoro):
            raise Unsupported("task group: only sends are understood")
        out = f"(⟨{v.sender}, {v.sample}⟩ : Out)"
        if ctx.loop is not None:
            ctx.loop.contrib.append(("@outs", f"[{out}]"))
            return k(ctx, NONE)
        return k(ctx.with_(outs=f"[{out}]" if ctx.outs == "[]" else f"{ctx.outs} ++ [{out}]"), NONE)

    def loc_method(self, n: ast.Call, m: str, loc: Loc, ctx: Ctx, k) -> object:
        depth = len(loc.keys)
        if m == "setdefault" and len(n.args) == 2 and not n.keywords and loc.root == "reqs" and depth in (0, 1):
            d = n.args[1]
            if not ((isinstance(d, ast.Dict) and not d.keys and depth == 0)
                    or (isinstance(d, ast.List) and not d.elts and depth == 1)):
                raise Unsupported("setdefault default")

            def got(c: Ctx, key: object) -> object:
                kt = self.want(key, "Nat" if depth == 0 else "Metric")
                child = Loc(loc.root, loc.keys + (kt,))
                if (child.root, child.keys) in c.present:
                    return k(c, child)
                new = self.write_path(c, loc, f"Dict.setdefault {atom(self.read_path(c, loc))} {atom(kt)} []")
                return self.write(c, loc.root, new, lambda c2: k(self.know(c2, child, True), child))
            return self.eval(n.args[0], ctx, got)
        if m == "append" and len(n.args) == 1 and loc.root == "reqs" and depth == 2:
            def got2(c: Ctx, v: object) -> object:
                new = self.write_path(c, loc, f"{atom(self.read_path(c, loc))} ++ [{self.want(v, 'Chan')}]")
                return self.write(c, loc.root, new, lambda c2: k(c2, NONE))
            return self.eval(n.args[0], ctx, got2)
        if m == "cancel" and not n.args and loc.root == "tasks" and depth == 1:
            new = f"Dict.set {atom(ctx.state['tasks'])} {atom(loc.keys[0])} StreamTask.cancelled"
            return self.write(ctx, "tasks", new, lambda c2: k(c2, NONE))
        if m == "pop" and depth == 0 and 1 <= len(n.args) <= 2 and loc.root in ("receivers", "tasks"):
            def got3(c: Ctx, key: object) -> object:
                kt = self.want(key, "Nat")
                child = Loc(loc.root, (kt,))
                done = lambda c2: self.write(  # noqa: E731
                    c2, loc.root, f"Dict.erase {atom(c2.state[loc.root])} {atom(kt)}",
                    lambda c3: k(self.know(self.forget(c3, loc.root), child, False), NONE))
                if len(n.args) == 2:
                    return done(c)
                return self.fork_present(c, child, done, lambda c2: self.raise_(c2, "KeyError"))
            return self.eval(n.args[0], ctx, got3)
        if m == "get" and len(n.args) == 1 and not n.keywords and depth == 0 and loc.root in ("tasks", "receivers"):
            return self.eval(n.args[0], ctx, lambda c, kv: k(c, OptLoc(Loc(loc.root, (self.want(kv, "Nat"),)))))
        if m == "items" and not n.args and loc.root == "reqs" and depth == 1:
            return k(ctx, T(self.read_path(ctx, loc), "Reqs1Items"))
        if m in ("keys",) and not n.args and loc.root == "reqs" and depth == 1:
            return k(ctx, T(self.read_path(ctx, loc), "Reqs1"))
        raise Unsupported(f"{m} on self.{loc.root}{''.join('[…]' for _ in loc.keys)}")

    # ------------------------------------------------------------------------------------------------ expressions
    def want(self, v: object, ty: str) -> str:
        if isinstance(v, Loc):
            raise Unsupported(f"container used as {ty}")
        if not isinstance(v, T):
            raise Unsupported(f"{type(v).__name__} used as {ty}")
        ok = {ty}
        if ty == "Value":
            ok |= {"Value"}
        if ty == "List":
            ok |= {"Snapshot"}
        if v.ty not in ok:
            raise Unsupported(f"{v.term} : {v.ty} used as {ty}")
        return v.term

    def eval(self, n: ast.expr, ctx: Ctx, k) -> object:
        if isinstance(n, ast.Await):
            def awaited(c: Ctx, v: object) -> object:
                if isinstance(v, Coro):
                    if v.fn is None:
                        return k(c, v.env["@value"] if "@for" not in v.env else T(v.env["@value"].term + "@" + v.env["@for"], "RecvFor"))
                    return self.inline(v.fn, {}, v.env, c, k)
                if isinstance(v, SendCoro):
                    return self.emit(c, v, k)
                if isinstance(v, T) and v.ty in ("OptCat", "None"):
                    return k(c, v)          # an oracle call / an inlined coroutine that already ran
                raise Unsupported(f"await of {ast.unparse(n.value)}")
            return self.eval(n.value, ctx, awaited)
        if isinstance(n, ast.Name):
            if n.id in ctx.env:
                return k(ctx, ctx.env[n.id])
            if n.id in self.tables:
                return k(ctx, T(f"Extracted.DataSourcing.{DS._lean_name(n.id)}", "Table"))
            if n.id in self.modfuncs:
                return k(ctx, Closure(self.modfuncs[n.id], {}))
            raise Unsupported(f"name {n.id}")
        if isinstance(n, ast.Constant):
            if n.value is None:
                return k(ctx, T("none", "NoneLit"))
            if isinstance(n.value, str):
                return k(ctx, STR)
            if isinstance(n.value, bool):
                return k(ctx, T("true" if n.value else "false", "Bool"))
            raise Unsupported(f"constant {n.value!r}")
        if isinstance(n, ast.JoinedStr):
            return k(ctx, STR)
        if isinstance(n, ast.List) and not n.elts:
            return k(ctx, T("[]", "List"))
        if isinstance(n, ast.Tuple):
            def go(i: int, c: Ctx, acc: tuple) -> object:
                if i == len(n.elts):
                    return k(c, Tup(acc))
                return self.eval(n.elts[i], c, lambda c2, v: go(i + 1, c2, acc + (v,)))
            return go(0, ctx, ())
        if isinstance(n, ast.Attribute):
            if isinstance(n.value, ast.Name) and n.value.id == "self":
                role = self.roles["attrs"].get(n.attr)
                if role in ("reqs", "receivers", "tasks"):
                    return k(ctx, Loc(role, ()))
                if role == "registry":
                    return k(ctx, T("registry", "Registry"))
                raise Unsupported(f"self.{n.attr}")
            ee = DS._enum_member(n, "ComponentCategory")
            if ee is not None:
                return k(ctx, T(f'"{ee}"', "Cat"))

            def got(c: Ctx, b: object) -> object:
                if isinstance(b, T) and b.ty == "Chan" and n.attr in REQUEST_FIELDS:
                    fl, ty = REQUEST_FIELDS[n.attr]
                    return k(c, T(f"{atom(b.term)}.{fl}", ty))
                if isinstance(b, T) and b.ty == "Msg" and n.attr == "timestamp":
                    return k(c, T(f"{atom(b.term)}.ts", "Ts"))
                if isinstance(b, T) and b.ty == "Sample" and n.attr == "timestamp":
                    return k(c, STR)
                if isinstance(b, T) and b.ty == "Cat" and n.attr == "name":
                    return k(c, STR)
                raise Unsupported(f"attribute {ast.unparse(n)}")
            return self.eval(n.value, ctx, got)
        if isinstance(n, ast.Subscript):
            if ast.unparse(n) in ("Sample[Quantity]",):
                return k(ctx, T("Sample", "TypeArg"))

            def got2(c: Ctx, b: object) -> object:
                if not isinstance(b, Loc):
                    raise Unsupported(f"subscript of {ast.unparse(n.value)}")
                kty = "Nat" if not b.keys else "Metric"
                return self.eval(n.slice, c, lambda c2, kv: self.fork_present(
                    c2, Loc(b.root, b.keys + (self.want(kv, kty),)),
                    lambda c3: k(c3, Loc(b.root, b.keys + (self.want(kv, kty),))),
                    lambda c3: self.raise_(c3, "KeyError")))
            return self.eval(n.value, ctx, got2)
        if isinstance(n, ast.Call):
            return self.call(n, ctx, k)
        if isinstance(n, ast.ListComp):
            return self.comprehension(n, ctx, k)
        if isinstance(n, (ast.Compare, ast.BoolOp, ast.UnaryOp)):
            return self.cond(n, ctx, lambda c, b: k(c, T(b, "Bool")))
        if isinstance(n, ast.NamedExpr) and isinstance(n.target, ast.Name):
            return self.eval(n.value, ctx, lambda c, v: k(c.bind(n.target.id, v), v))
        if isinstance(n, ast.IfExp):
            return self.cond(n.test, ctx, lambda c, b: self.mk_if(b, self.eval(n.body, c, k), self.eval(n.orelse, c, k)))
        raise Unsupported(f"expression {type(n).__name__}: {ast.unparse(n)[:60]}")

    def cond(self, n: ast.expr, ctx: Ctx, k) -> object:
        """Evaluate a condition to a Bool term (no forking: used inside loop predicates as well)."""
        if isinstance(n, ast.UnaryOp) and isinstance(n.op, ast.Not):
            def flip(c: Ctx, b: str) -> object:
                if b.startswith("!"):
                    b = b[1:].strip()
                    if b.startswith("(") and b.endswith(")") and Exec.balanced(b[1:-1]):
                        b = b[1:-1].strip()
                    return k(c, b)
                return k(c, f"!{atom(b)}")
            return self.cond(n.operand, ctx, flip)
        if isinstance(n, ast.BoolOp):
            op = " && " if isinstance(n.op, ast.And) else " || "

            def go(i: int, c: Ctx, acc: list) -> object:
                if i == len(n.values):
                    return k(c, "(" + op.join(atom(a) for a in acc) + ")")
                return self.cond(n.values[i], c, lambda c2, b: go(i + 1, c2, acc + [b]))
            return go(0, ctx, [])
        if isinstance(n, ast.Compare) and len(n.ops) == 1:
            op, l, r = n.ops[0], n.left, n.comparators[0]
            neg = isinstance(op, (ast.NotIn, ast.NotEq, ast.IsNot))
            fin = (lambda c, b: k(c, f"!{atom(b)}")) if neg else k
            if isinstance(op, (ast.In, ast.NotIn)):
                def got(c: Ctx, kv: object) -> object:
                    def got2(c2: Ctx, cont: object) -> object:
                        if isinstance(cont, Loc):
                            child = Loc(cont.root, cont.keys + (self.want(kv, "Nat" if not cont.keys else "Metric"),))
                            key = (child.root, child.keys)
                            if key in c2.present:
                                return fin(c2, "true")
                            if key in c2.absent:
                                return fin(c2, "false")
                            return fin(c2.bind("@atom", child), self.contains(c2, child))
                        if isinstance(cont, T) and cont.ty == "Table":
                            return fin(c2, f"(assoc {cont.term} {atom(self.want(kv, 'Metric'))}).isSome")
                        raise Unsupported(f"membership in {ast.unparse(r)}")
                    return self.eval(r, c, got2)
                return self.eval(l, ctx, got)
            if isinstance(op, (ast.Eq, ast.NotEq, ast.Is, ast.IsNot)):
                def got3(c: Ctx, a: object) -> object:
                    def got4(c2: Ctx, b: object) -> object:
                        for x, y in ((a, b), (b, a)):
                            if isinstance(x, OptLoc) and isinstance(y, T) and y.ty == "NoneLit" \
                                    and isinstance(op, (ast.Is, ast.IsNot, ast.Eq, ast.NotEq)):
                                key = (x.loc.root, x.loc.keys)
                                if key in c2.present:
                                    return fin(c2, "false")
                                if key in c2.absent:
                                    return fin(c2, "true")
                                return fin(c2.bind("@atom", x.loc), f"!{atom(self.contains(c2, x.loc))}")
                        if isinstance(a, T) and isinstance(b, T):
                            if {a.ty, b.ty} == {"OptCat", "NoneLit"}:
                                o = a if a.ty == "OptCat" else b
                                return fin(c2, f"Option.isNone {atom(o.term)}")
                            if a.ty == b.ty and a.ty in ("ChanName", "Str", "Cat", "Nat", "Metric", "OptInt") \
                                    and a.term != '""' and isinstance(op, (ast.Eq, ast.NotEq)) or \
                                    (a.ty == b.ty == "Cat"):
                                x, y = sorted((a.term, b.term))   # `==` is symmetric: one canonical orientation
                                return fin(c2, f"decide ({x} = {y})")
                        raise Unsupported(f"comparison {ast.unparse(n)}")
                    return self.eval(r, c, got4)
                return self.eval(l, ctx, got3)
        v_k = lambda c, v: k(c, self.want(v, "Bool"))  # noqa: E731
        if isinstance(n, (ast.Name, ast.Call)):
            return self.eval(n, ctx, v_k)
        raise Unsupported(f"condition {ast.unparse(n)[:60]}")

    def branch(self, test: ast.expr, ctx: Ctx, k_true, k_false) -> object:
        """Fork on a condition, recording what it tells about keys / optionals."""
        def got(c: Ctx, b: str) -> object:
            a = c.env.get("@atom")
            c = c.with_(env={x: y for x, y in c.env.items() if x != "@atom"})
            core, neg = b, False
            while core.startswith("!"):
                core = core[1:].strip()
                if core.startswith("(") and core.endswith(")"):
                    core = core[1:-1].strip()
                neg = not neg
            if core.startswith("Option.isNone "):
                opt = core[len("Option.isNone "):].strip()
                var = self.fresh("c")
                narrowed = {x: (T(var, "Cat") if isinstance(y, T) and atom(y.term) == opt else y) for x, y in c.env.items()}
                none_t, some_t = k_true(c), k_false(c.with_(env=narrowed))
                if neg:
                    none_t, some_t = k_false(c), k_true(c.with_(env=narrowed))
                return MatchOpt(opt, var, none_t, some_t)
            ct, cf = c, c
            if isinstance(a, Loc) and core.startswith("Dict.contains "):
                ct, cf = self.know(c, a, not neg), self.know(c, a, neg)
            return self.mk_if(b, k_true(ct), k_false(cf))
        return self.cond(test, ctx, got)

    # ------------------------------------------------------------------------------------------------ loops
    def iterable(self, it: ast.expr, ctx: Ctx, k) -> object:
        """k(ctx, list term, element kind)."""
        def got(c: Ctx, v: object) -> object:
            if isinstance(v, Loc) and v.root == "reqs" and len(v.keys) == 2:
                return k(c, self.read_path(c, v), "Chan")
            if isinstance(v, Loc) and v.root == "reqs" and len(v.keys) == 1:
                return k(c, self.read_path(c, v), "MetricKey")
            if isinstance(v, T) and v.ty == "Reqs1":
                return k(c, v.term, "MetricKey")
            if isinstance(v, T) and v.ty == "Reqs1Items":
                return k(c, v.term, "MetricItem")
            if isinstance(v, T) and v.ty == "Snapshot":
                return k(c, v.term, "SnapItem")
            if isinstance(v, T) and v.ty == "Senders":
                return k(c, v.term, "Sender")
            if isinstance(v, T) and v.ty == "ChanList":
                return k(c, v.term, "Chan")
            if isinstance(v, T) and v.ty == "List":
                return k(c, v.term, "SendTask")
            raise Unsupported(f"iteration over {ast.unparse(it)}")
        return self.eval(it, ctx, got)

    def bind_target(self, target: ast.expr, var: str, kind: str, ctx: Ctx) -> Ctx:
        def names(n: int) -> list[str]:
            if not (isinstance(target, ast.Tuple) and len(target.elts) == n and all(isinstance(e, ast.Name) for e in target.elts)):
                raise Unsupported(f"loop target {ast.unparse(target)}")
            return [e.id for e in target.elts]  # type: ignore[attr-defined]
        if kind == "MetricItem":
            a, b = names(2)
            return ctx.bind(a, T(f"{var}.1", "Metric")).bind(b, T(f"{var}.2", "ChanList"))
        if kind == "SnapItem":
            a, b = names(2)
            return ctx.bind(a, T(f"{var}.1", "Extractor")).bind(b, T(f"{var}.2", "Senders"))
        if not isinstance(target, ast.Name):
            raise Unsupported(f"loop target {ast.unparse(target)}")
        if kind == "MetricKey":
            return ctx.bind(target.id, T(f"{var}.1", "Metric"))
        return ctx.bind(target.id, T(var, kind))

    def loop(self, target: ast.expr, it: ast.expr, body_fn, ctx: Ctx, k, acc_names: set) -> object:
        """A `for` loop / comprehension clause.  `body_fn(ctx, k_next)` executes one iteration."""
        def got(c: Ctx, xs: str, kind: str) -> object:
            depth = (c.loop.depth + 1) if c.loop is not None else 1
            var = f"x{depth}"
            rec = LoopRec(depth, set(acc_names))
            inner = self.bind_target(target, var, kind, c).with_(loop=rec, outs="[]")
            n_before, entry_state = self.n, c.state
            tree = body_fn(inner, lambda c2: Leaf("next", c2))
            leaves = list(self.leaves(tree))
            nexts = [l for l in leaves if l.kind == "next"]
            for l in nexts:
                if l.ctx.state != entry_state:
                    raise Unsupported("loop body writes object state")
            if isinstance(tree, Leaf) and tree.kind == "next":
                return self.collect(rec, var, xs, kind, c, k)
            if rec.contrib or rec.binds:
                raise Unsupported("loop with both exits and effects")
            # search loop: every path either continues without effect or leaves the loop in one and the same way
            exits = [self.render(t, 0) for t in self.exit_subtrees(tree)]
            if len(set(exits)) != 1 or f"{var}." in exits[0] or f"{var} " in exits[0] or exits[0].endswith(var):
                raise Unsupported("loop exits in different ways / with a value that depends on the element")
            cond = self.exit_cond(tree)
            exit_tree = next(iter(self.exit_subtrees(tree)))
            return self.mk_if(f"List.any {atom(xs)} (fun {var} => {cond})", exit_tree, k(c))
        return self.iterable(it, ctx, got)

    def leaves(self, t: object):
        if isinstance(t, Leaf):
            yield t
        elif isinstance(t, If):
            yield from self.leaves(t.then); yield from self.leaves(t.els)
        elif isinstance(t, MatchOpt):
            yield from self.leaves(t.none); yield from self.leaves(t.some)
        elif isinstance(t, MatchExc):
            yield from self.leaves(t.key); yield from self.leaves(t.value); yield from self.leaves(t.ok)
        elif isinstance(t, Let):
            yield from self.leaves(t.body)

    def has_next(self, t: object) -> bool:
        return any(l.kind == "next" for l in self.leaves(t))

    def exit_subtrees(self, t: object):
        """Maximal subtrees without a `next` leaf."""
        if not self.has_next(t):
            yield t
        elif isinstance(t, If):
            yield from self.exit_subtrees(t.then); yield from self.exit_subtrees(t.els)
        elif isinstance(t, Leaf):
            return
        else:
            raise Unsupported("loop body: only plain conditions may decide between leaving and continuing")

    def exit_cond(self, t: object) -> str:
        if not self.has_next(t):
            return "true"
        if isinstance(t, Leaf):
            return "false"
        assert isinstance(t, If)
        a, b = self.exit_cond(t.then), self.exit_cond(t.els)
        if a == "true" and b == "false":
            return t.cond
        if a == "false" and b == "true":
            return f"!{atom(t.cond)}"
        parts = []
        if a != "false":
            parts.append(t.cond if a == "true" else f"({atom(t.cond)} && {atom(a)})")
        if b != "false":
            parts.append(f"!{atom(t.cond)}" if b == "true" else f"(!{atom(t.cond)} && {atom(b)})")
        return "(" + " || ".join(parts) + ")"

    def collect(self, rec: LoopRec, var: str, xs: str, kind: str, ctx: Ctx, k) -> object:
        accs: dict[str, list[str]] = {}
        for a, t in rec.contrib:
            accs.setdefault(a, []).append(t)
        if not accs:
            if rec.binds:
                raise Unsupported("loop that only validates through a raising call")
            return k(ctx)           # a loop without effect (e.g. logging the results of finished tasks)
        if len(accs) != 1:
            raise Unsupported("loop feeding several lists")
        (acc, parts), = accs.items()
        single = len(parts) == 1 and parts[0].startswith("[") and parts[0].endswith("]") and self.balanced(parts[0][1:-1])
        if rec.binds:
            if len(rec.binds) != 1 or not single:
                raise Unsupported("loop with a raising call: one call and one appended item expected")
            ev, eterm, _ty = rec.binds[0]
            term = f"List.mapM (fun {var} => Except.map (fun {ev} => {parts[0][1:-1]}) ({eterm})) {atom(xs)}"
            v = self.fresh("v")
            ty = "Snapshot" if _ty == "Extractor" else "List"
            cont = lambda c: self.add_to(acc, v, c, k, ty)  # noqa: E731
            return MatchExc(term, v, self.raise_(ctx, "KeyError"), self.raise_(ctx, "ValueError"), cont(ctx))
        if single:
            item = parts[0][1:-1]
            term = xs if item.strip() == var else f"List.map (fun {var} => {item}) {atom(xs)}"
        else:
            term = f"List.flatMap (fun {var} => {' ++ '.join(parts)}) {atom(xs)}"
        return self.add_to(acc, term, ctx, k)

    @staticmethod
    def balanced(s: str) -> bool:
        d = 0
        for ch in s:
            d += ch in "([⟨"
            d -= ch in ")]⟩"
            if d < 0:
                return False
        return d == 0

    def add_to(self, acc: str, term: str, ctx: Ctx, k, ty: str = "List") -> object:
        if acc == "@result":
            return k(ctx.bind("@result", T(term, ty)))
        if acc == "@outs":
            if ctx.loop is not None:
                ctx.loop.contrib.append(("@outs", term))
                return k(ctx)
            return k(ctx.with_(outs=term if ctx.outs == "[]" else f"{ctx.outs} ++ {atom(term)}"))
        if ctx.loop is not None and acc in ctx.loop.outer:
            ctx.loop.contrib.append((acc, term))
            return k(ctx)
        cur = ctx.env[acc].term
        return k(ctx.bind(acc, T(term if cur == "[]" else f"{cur} ++ {atom(term)}", ty)))

    def outer_lists(self, ctx: Ctx) -> set:
        return {n for n, v in ctx.env.items() if isinstance(v, T) and v.ty == "List"}

    def comprehension(self, n: ast.ListComp, ctx: Ctx, k) -> object:
        def clause(i: int, c: Ctx, k_next) -> object:
            if i == len(n.generators):
                def got(c2: Ctx, v: object) -> object:
                    c2.loop.contrib.append(("@result", f"[{self.item(v)}]"))
                    return k_next(c2)
                return self.eval(n.elt, c, got)
            g = n.generators[i]
            if g.ifs or g.is_async:
                raise Unsupported("comprehension filter")
            return self.loop(g.target, g.iter, lambda c2, kn: clause(i + 1, c2, kn), c, k_next, {"@result"})
        return clause(0, ctx.bind("@result", T("[]", "List")),
                      lambda c: k(c, self.typed_list(c.env["@result"])))

    def typed_list(self, v: T) -> T:
        return v

    def any_gen(self, g: ast.GeneratorExp, ctx: Ctx, k) -> object:
        if len(g.generators) != 1 or g.generators[0].ifs:
            raise Unsupported("any(...) shape")
        gen = g.generators[0]

        def got(c: Ctx, xs: str, kind: str) -> object:
            depth = (c.loop.depth + 1) if c.loop is not None else 1
            var = f"x{depth}"
            inner = self.bind_target(gen.target, var, kind, c)
            return self.cond(g.elt, inner, lambda _c, b: k(c, T(f"List.any {atom(xs)} (fun {var} => {b})", "Bool")))
        return self.iterable(gen.iter, ctx, got)

    # ------------------------------------------------------------------------------------------------ statements
    def assign(self, target: ast.expr, v: object, ctx: Ctx, k) -> object:
        if isinstance(target, ast.Name):
            return k(ctx.bind(target.id, v))
        if isinstance(target, ast.Tuple) and isinstance(v, Tup) and len(v.items) == len(target.elts):
            def go(i: int, c: Ctx) -> object:
                if i == len(target.elts):
                    return k(c)
                return self.assign(target.elts[i], v.items[i], c, lambda c2: go(i + 1, c2))
            return go(0, ctx)
        if isinstance(target, ast.Subscript):
            def got(c: Ctx, base: object) -> object:
                if not (isinstance(base, Loc) and not base.keys and base.root in ("receivers", "tasks")):
                    raise Unsupported(f"assignment to {ast.unparse(target)}")

                def got2(c2: Ctx, kv: object) -> object:
                    kt = self.want(kv, "Nat")
                    child = Loc(base.root, (kt,))
                    if base.root == "receivers":
                        if not (isinstance(v, T) and v.ty == "RecvFor"):
                            raise Unsupported("receivers[...] = something that is not `await <client>.<x>_data(id)`")
                        term, _, for_id = v.term.partition("@")
                        if for_id != kt:
                            raise Unsupported("the stream is opened for another component id than the key it is stored under")
                        return self.write(c2, "receivers", f"Dict.set {atom(c2.state['receivers'])} {atom(kt)} {term}",
                                          lambda c3: k(self.know(c3, child, True)))
                    t = self.want(v, "Task")
                    return self.write(c2, "leaked", f"Tasks.leak {atom(c2.state['tasks'])} {atom(c2.state['leaked'])} {atom(kt)}",
                                      lambda c3: self.write(c3, "tasks", f"Dict.set {atom(c3.state['tasks'])} {atom(kt)} {atom(t)}",
                                                            lambda c4: k(self.know(c4, child, True))))
                return self.eval(target.slice, c, got2)
            return self.eval(target.value, ctx, got)
        raise Unsupported(f"assignment target {ast.unparse(target)}")

    def block(self, stmts: list, ctx: Ctx, k) -> object:
        if not stmts:
            return k(ctx)
        st, rest = stmts[0], stmts[1:]
        nxt = lambda c: self.block(rest, c, k)  # noqa: E731
        if isinstance(st, FuncDef):
            return nxt(ctx.bind(st.name, Closure(st, ctx.env)))
        if isinstance(st, (ast.Pass, ast.Import, ast.ImportFrom, ast.Nonlocal, ast.Global)):
            return nxt(ctx)
        if isinstance(st, ast.Expr):
            if isinstance(st.value, ast.Constant):
                return nxt(ctx)
            return self.eval(st.value, ctx, lambda c, _v: nxt(c))
        if isinstance(st, ast.Assign) and len(st.targets) == 1:
            return self.eval(st.value, ctx, lambda c, v: self.assign(st.targets[0], v, c, nxt))
        if isinstance(st, ast.AnnAssign):
            if st.value is None:
                return nxt(ctx)
            return self.eval(st.value, ctx, lambda c, v: self.assign(st.target, v, c, nxt))
        if isinstance(st, ast.Return):
            ret = ctx.env.get("@return")
            if ret is None:
                raise Unsupported("return outside a function")
            if st.value is None:
                return ret(ctx, NONE)
            return self.eval(st.value, ctx, ret)
        if isinstance(st, ast.Raise):
            if st.exc is None:
                if ctx.exc is None:
                    raise Unsupported("bare raise outside a handler")
                return self.raise_(ctx, ctx.exc)
            if st.cause is not None and not isinstance(st.cause, (ast.Name, ast.Constant)):
                raise Unsupported("raise … from <expression>")

            def thrown(c: Ctx, v: object) -> object:
                if isinstance(v, T) and v.ty == "ExcObj":
                    return self.raise_(c, v.term)
                raise Unsupported(f"raise of {ast.unparse(st.exc)}")
            if isinstance(st.exc, ast.Name) and st.exc.id not in ctx.env:
                return self.raise_(ctx, st.exc.id)          # `raise ValueError`
            return self.eval(st.exc, ctx, thrown)
        if isinstance(st, ast.Continue):
            if ctx.loop is None:
                raise Unsupported("continue outside a loop")
            return Leaf("next", ctx)
        if isinstance(st, ast.If):
            return self.branch(st.test, ctx, lambda c: self.block(st.body + rest, c, k),
                               lambda c: self.block(st.orelse + rest, c, k))
        if isinstance(st, ast.Match):
            return self.match(st, ctx, rest, k)
        if isinstance(st, ast.Try):
            if st.finalbody or st.orelse:
                raise Unsupported("try … else / finally")
            hs = ctx.handlers
            for h in reversed(st.handlers):
                if h.name is not None:
                    raise Unsupported("except … as name")
                kinds = None
                if h.type is not None:
                    ts = h.type.elts if isinstance(h.type, ast.Tuple) else [h.type]
                    kinds = {ast.unparse(t).split(".")[-1] for t in ts}
                    if "Exception" in kinds or "BaseException" in kinds:
                        kinds = None
                hs = hs + ((kinds, h.body, nxt, ctx.loop),)
            return self.block(st.body, ctx.with_(handlers=hs), lambda c: nxt(c.with_(handlers=ctx.handlers)))
        if isinstance(st, (ast.With, ast.AsyncWith)):
            def items(i: int, c: Ctx) -> object:
                if i == len(st.items):
                    return self.block(st.body + rest, c, k)
                it = st.items[i]

                def got(c2: Ctx, v: object) -> object:
                    if not (isinstance(v, T) and v.ty == "TaskGroup"):
                        raise Unsupported(f"with {ast.unparse(it.context_expr)}")
                    if it.optional_vars is None:
                        return items(i + 1, c2)
                    return self.assign(it.optional_vars, v, c2, lambda c3: items(i + 1, c3))
                return self.eval(it.context_expr, c, got)
            return items(0, ctx)
        if isinstance(st, ast.For):
            if st.orelse:
                raise Unsupported("for … else")
            return self.loop(st.target, st.iter, lambda c, kn: self.block(st.body, c, kn), ctx, nxt,
                             self.outer_lists(ctx))
        if isinstance(st, ast.AsyncFor):
            return Leaf("atloop", ctx, st)
        raise Unsupported(f"statement {type(st).__name__}")

    def match(self, st: ast.Match, ctx: Ctx, rest: list, k) -> object:
        def got(c: Ctx, subj: object) -> object:
            s = self.want(subj, "Cat")

            def case(i: int, c2: Ctx) -> object:
                if i == len(st.cases):
                    return self.block(rest, c2, k)
                cs = st.cases[i]
                cats = DS._cats_of_pattern(cs.pattern)
                if cats is None or cs.guard is not None:
                    raise Unsupported("match pattern")
                if not cats:
                    return self.block(cs.body + rest, c2, k)
                def eq(x: str) -> str:
                    a, b = sorted((s, f'"{x}"'))
                    return f"decide ({a} = {b})"
                cond = " || ".join(eq(x) for x in cats)
                return self.mk_if(cond if len(cats) == 1 else f"({cond})", self.block(cs.body + rest, c2, k), case(i + 1, c2))
            return case(0, c)
        return self.eval(st.subject, ctx, got)

    # ------------------------------------------------------------------------------------------------ rendering
    def render(self, t: object, ind: int, value=None) -> str:
        pad = "  " * ind
        if isinstance(t, Leaf):
            if t.kind == "raise":
                return f"{pad}.error {t.value}"
            if t.kind == "ok":
                s = t.ctx.state
                val = t.value if value is None else value(t)
                return (f"{pad}.ok (⟨{s['reqs']}, {s['receivers']}, {s['tasks']}, {s['leaked']}⟩, {t.ctx.outs}, {val})")
            raise Unsupported(f"leaf {t.kind} cannot be rendered here")
        if isinstance(t, If):
            return (f"{pad}if {t.cond} = true then\n{self.render(t.then, ind + 1, value)}\n{pad}else\n"
                    f"{self.render(t.els, ind + 1, value)}")
        if isinstance(t, MatchOpt):
            return (f"{pad}match {t.term} with\n{pad}| none =>\n{self.render(t.none, ind + 1, value)}\n"
                    f"{pad}| some {t.var} =>\n{self.render(t.some, ind + 1, value)}")
        if isinstance(t, MatchExc):
            return (f"{pad}match {t.term} with\n{pad}| .error Exc.keyError =>\n{self.render(t.key, ind + 1, value)}\n"
                    f"{pad}| .error Exc.valueError =>\n{self.render(t.value, ind + 1, value)}\n"
                    f"{pad}| .ok {t.var} =>\n{self.render(t.ok, ind + 1, value)}")
        if isinstance(t, Let):
            return f"{pad}let {t.name} : {t.ty} := {t.term}\n{self.render(t.body, ind, value)}"
        raise Unsupported("tree node")


# ---- roles -----------------------------------------------------------------------------------------------------------
def find_roles(mod: ast.Module, cls: ast.ClassDef, tables: dict) -> dict:
    methods = {f.name: f for f in cls.body if isinstance(f, FuncDef)}
    funcs = DS._functions(mod)
    attrs: dict[str, str] = {}

    def self_attr(n: ast.expr) -> str | None:
        if isinstance(n, ast.Attribute) and isinstance(n.value, ast.Name) and n.value.id == "self":
            return n.attr
        return None

    def is_create_task(v: ast.expr) -> bool:
        return isinstance(v, ast.Call) and ast.unparse(v.func) in ("asyncio.create_task", "asyncio.ensure_future")
    task_names = {n.targets[0].id for n in ast.walk(cls) if isinstance(n, ast.Assign) and len(n.targets) == 1
                  and isinstance(n.targets[0], ast.Name) and is_create_task(n.value)}
    for n in ast.walk(cls):
        if isinstance(n, ast.Assign) and len(n.targets) == 1 and isinstance(n.targets[0], ast.Subscript):
            a = self_attr(n.targets[0].value)
            v = n.value
            if a is None:
                continue
            if isinstance(v, ast.Name) and v.id in task_names:
                if attrs.setdefault(a, "tasks") != "tasks":
                    raise Unsupported(f"self.{a}: role conflict")
                continue
            if isinstance(v, ast.Await) and isinstance(v.value, ast.Call) and isinstance(v.value.func, ast.Attribute) \
                    and v.value.func.attr.endswith("_data"):
                role = "receivers"
            elif isinstance(v, ast.Call) and ast.unparse(v.func) in ("asyncio.create_task", "asyncio.ensure_future"):
                role = "tasks"
            else:
                continue
            if attrs.setdefault(a, role) != role:
                raise Unsupported(f"self.{a} holds both {attrs[a]} and {role}")
        if isinstance(n, ast.Call) and isinstance(n.func, ast.Attribute):
            a = self_attr(n.func.value)
            if a is not None and n.func.attr == "setdefault" and len(n.args) == 2 and isinstance(n.args[1], ast.Dict):
                if attrs.setdefault(a, "reqs") != "reqs":
                    raise Unsupported(f"self.{a}: role conflict")
            if a is not None and n.func.attr == "get_or_create":
                attrs.setdefault(a, "registry")
    for role in ("reqs", "receivers", "tasks"):
        if list(attrs.values()).count(role) != 1:
            raise Unsupported(f"expected exactly one attribute holding the {role}, found "
                              f"{[a for a, r in attrs.items() if r == role]}")
    category = [name for name, f in methods.items()
                if any(isinstance(n, ast.Call) and isinstance(n.func, ast.Attribute) and n.func.attr == "components"
                       for n in ast.walk(f))]
    if len(category) != 1:
        raise Unsupported(f"expected one method asking the API for the components, found {category}")
    extraction = []
    for name, f in methods.items():
        if isinstance(f, ast.AsyncFunctionDef):
            continue
        tabs = {n.id for n in ast.walk(f) if isinstance(n, ast.Name) and n.id in tables}
        if len(tabs) >= 2:
            extraction.append(name)
    if len(extraction) != 1:
        raise Unsupported(f"expected one method selecting a metric table by category, found {extraction}")
    stream = [name for name, f in methods.items() if any(isinstance(n, ast.AsyncFor) for n in DS._walk_no_defs(f))]
    if len(stream) != 1:
        raise Unsupported(f"expected one method with an `async for` loop, found {stream}")

    def creates_task(f: ast.AST) -> bool:
        return any(isinstance(n, ast.Call) and ast.unparse(n.func) == "run_forever" for n in ast.walk(f))

    def calls(f: ast.AST) -> set:
        return {n.func.attr for n in ast.walk(f) if isinstance(n, ast.Call) and isinstance(n.func, ast.Attribute)
                and isinstance(n.func.value, ast.Name) and n.func.value.id == "self"}
    reach: dict[str, set] = {name: calls(f) & set(methods) for name, f in methods.items()}
    changed = True
    while changed:
        changed = False
        for name in reach:
            new = set().union(*(reach[c] for c in reach[name])) if reach[name] else set()
            if not new <= reach[name]:
                reach[name] |= new
                changed = True
    cands = [name for name, f in methods.items()
             if name != stream[0] and (creates_task(f) or any(creates_task(methods[c]) for c in reach[name]))]
    entry = [c for c in cands if not any(c in reach[o] for o in cands if o != c)]
    if len(entry) != 1:
        raise Unsupported(f"expected one entry point that (re)creates the streaming task, found {entry}")
    _ = funcs
    return {"attrs": attrs, "category": category[0], "extraction": extraction[0], "stream": stream[0], "entry": entry[0]}


# ---- the four translations -------------------------------------------------------------------------------------------
def init_ctx(env: dict) -> Ctx:
    return Ctx(env=env, state={"reqs": "s.reqs", "receivers": "s.receivers", "tasks": "s.tasks", "leaked": "s.leaked"})


def translate_entry(ex: Exec, fn: ast.AST) -> str:
    params = [a.arg for a in fn.args.args][1:]  # type: ignore[attr-defined]
    if len(params) != 1:
        raise Unsupported("entry point: one parameter (the request) expected")
    env: dict = {params[0]: T("request", "Chan")}
    env["@return"] = lambda c, v: Leaf("ok", c, "()")
    tree = ex.block(DS._strip_doc(fn.body), init_ctx(env), lambda c: Leaf("ok", c, "()"))  # type: ignore[attr-defined]
    return ex.render(tree, 1)


def translate_stream(ex: Exec, fn: ast.AST) -> tuple[str, str]:
    params = [a.arg for a in fn.args.args][1:]  # type: ignore[attr-defined]
    if len(params) != 2:
        raise Unsupported("streaming method: (component id, category) expected")
    # which parameter is which: the one compared with / passed as a category
    cat_param = None
    for p in params:
        for n in ast.walk(fn):
            if isinstance(n, ast.Attribute) and isinstance(n.value, ast.Name) and n.value.id == p and n.attr == "name":
                cat_param = p
    if cat_param is None:
        anns = {a.arg: ast.unparse(a.annotation) if a.annotation else "" for a in fn.args.args}  # type: ignore[attr-defined]
        cs = [p for p in params if "Category" in anns.get(p, "")]
        if len(cs) != 1:
            raise Unsupported("streaming method: cannot tell the category parameter")
        cat_param = cs[0]
    id_param = [p for p in params if p != cat_param][0]
    env: dict = {id_param: T("comp_id", "Nat"), cat_param: T("category", "Cat")}
    env["@return"] = lambda c, v: (_ for _ in ()).throw(Unsupported("the streaming method returns before its loop"))
    tree = ex.block(DS._strip_doc(fn.body), init_ctx(env), lambda c: (_ for _ in ()).throw(  # type: ignore[attr-defined]
        Unsupported("the streaming method ends without reaching its loop")))
    leaves = [l for l in ex.leaves(tree) if l.kind == "atloop"]
    if not leaves:
        raise Unsupported("no path reaches the message loop")
    loops = {id(l.value) for l in leaves}
    if len(loops) != 1:
        raise Unsupported("several message loops")
    loop: ast.AsyncFor = leaves[0].value  # type: ignore[assignment]

    # variables of the prologue that the loop body (and the closures it calls) reads
    used = {n.id for st in loop.body for n in ast.walk(st) if isinstance(n, ast.Name)}
    frontier = set(used)
    while frontier:
        name = frontier.pop()
        for l in leaves:
            v = l.ctx.env.get(name)
            if isinstance(v, Closure):
                more = {n.id for n in ast.walk(v.fn) if isinstance(n, ast.Name)} - used
                used |= more
                frontier |= more
    snap_vars, task_vars = set(), set()
    for l in leaves:
        for name in used:
            v = l.ctx.env.get(name)
            if isinstance(v, T) and v.ty in ("Snapshot",):
                snap_vars.add(name)
    # the set of sending tasks is the list variable that is not the snapshot; the snapshot is what `mapM` produced
    for l in leaves:
        for name in used:
            v = l.ctx.env.get(name)
            if isinstance(v, T) and v.ty == "List" and name not in snap_vars:
                others = [l2.ctx.env.get(name) for l2 in leaves]
                if any(isinstance(o, T) and o.ty == "Snapshot" for o in others):
                    snap_vars.add(name)
                else:
                    task_vars.add(name)
    if len(snap_vars) != 1:
        raise Unsupported(f"expected one sender snapshot read by the loop, found {sorted(snap_vars)}")
    snap_var = next(iter(snap_vars))
    # an empty `[]` default that meets the snapshot is the snapshot
    task_vars = {t for t in task_vars if t != snap_var}
    if len(task_vars) != 1:
        raise Unsupported(f"expected one set of sending tasks, found {sorted(task_vars)}")
    task_var = next(iter(task_vars))

    # the receiver iterated by the loop
    recv_keys = set()

    def loop_value(l: Leaf) -> str:
        ctx = l.ctx
        res: list = []
        ex.eval(loop.iter, ctx, lambda c, v: res.append(v) or Leaf("ok", c, "()"))
        if len(res) != 1 or not (isinstance(res[0], Loc) and res[0].root == "receivers" and len(res[0].keys) == 1):
            raise Unsupported("the loop does not iterate a receiver of the receivers dictionary")
        recv_keys.add(res[0].keys[0])
        if ("receivers", res[0].keys) not in ctx.present:
            raise Unsupported("the loop's receiver is not known to exist")
        return f"({ctx.env[snap_var].term}, {ctx.env[task_var].term})"

    def as_ok(t: object) -> object:
        if isinstance(t, Leaf):
            if t.kind == "atloop":
                return Leaf("ok", t.ctx, loop_value(t))
            return t
        if isinstance(t, If):
            return If(t.cond, as_ok(t.then), as_ok(t.els))
        if isinstance(t, MatchOpt):
            return MatchOpt(t.term, t.var, as_ok(t.none), as_ok(t.some))
        if isinstance(t, MatchExc):
            return MatchExc(t.term, t.var, as_ok(t.key), as_ok(t.value), as_ok(t.ok))
        if isinstance(t, Let):
            return Let(t.name, t.ty, t.term, as_ok(t.body))
        raise Unsupported("tree")
    prologue = ex.render(as_ok(tree), 1)
    if recv_keys != {"comp_id"}:
        raise Unsupported(f"the loop iterates the receiver of {sorted(recv_keys)}, not of its own component")

    # one iteration of the loop
    if not isinstance(loop.target, ast.Name):
        raise Unsupported("loop target")
    base_env = dict(leaves[0].ctx.env)
    for name, v in list(base_env.items()):
        if isinstance(v, Closure):
            base_env[name] = v
    base_env[snap_var] = T("snap", "Snapshot")
    base_env[task_var] = T("sending", "List")
    base_env[loop.target.id] = T("data", "Msg")
    base_env["@return"] = lambda c, v: (_ for _ in ()).throw(Unsupported("return inside the message loop"))
    # closures must see the symbolic snapshot, not the prologue's value
    def reclose(v: object) -> object:
        if isinstance(v, Closure):
            e = dict(v.env)
            for nm in (snap_var, task_var):
                if nm in e:
                    e[nm] = base_env[nm]
            return Closure(v.fn, {a: reclose(b) if isinstance(b, Closure) and b is not v else b for a, b in e.items()}, v.skip)
        return v
    base_env = {a: reclose(b) for a, b in base_env.items()}
    ctx = init_ctx(base_env)
    ctx = ctx.with_(present=frozenset({("receivers", ("comp_id",))}))
    body_tree = ex.block(loop.body, ctx, lambda c: Leaf("ok", c, c.env[task_var].term))
    return prologue, ex.render(body_tree, 1)


def translate_actor(repo: pathlib.Path, src_cls: str, entry: str) -> None:
    """`DataSourcingActor._run`: `async for request in <receiver>: await <source>.<entry>(request)` and nothing else."""
    mod = ast.parse((repo / SOURCES[1]).read_text())
    found = []
    for cls in [c for c in mod.body if isinstance(c, ast.ClassDef)]:
        src_attrs = set()
        for n in ast.walk(cls):
            if isinstance(n, ast.Assign) and len(n.targets) == 1 and isinstance(n.value, ast.Call) \
                    and ast.unparse(n.value.func) == src_cls:
                t = n.targets[0]
                if isinstance(t, ast.Attribute) and isinstance(t.value, ast.Name) and t.value.id == "self":
                    src_attrs.add(t.attr)
        if not src_attrs:
            continue
        for f in [f for f in cls.body if isinstance(f, FuncDef)]:
            body = DS._strip_doc(f.body)
            aliases = {}
            for st in body:
                if isinstance(st, ast.Assign) and len(st.targets) == 1 and isinstance(st.targets[0], ast.Name) \
                        and isinstance(st.value, ast.Attribute) and isinstance(st.value.value, ast.Name) \
                        and st.value.value.id == "self" and st.value.attr in src_attrs:
                    aliases[st.targets[0].id] = st.value.attr
            loops = [st for st in body if isinstance(st, ast.AsyncFor)]
            rest = [st for st in body if not isinstance(st, ast.AsyncFor) and not (
                isinstance(st, ast.Assign) and isinstance(st.targets[0], ast.Name) and st.targets[0].id in aliases)]
            if not loops:
                continue
            if len(loops) != 1 or rest or loops[0].orelse or not isinstance(loops[0].target, ast.Name):
                raise Unsupported(f"{cls.name}.{f.name}: more than the request loop")
            lp = loops[0]
            if len(lp.body) != 1 or not (isinstance(lp.body[0], ast.Expr) and isinstance(lp.body[0].value, ast.Await)
                                         and isinstance(lp.body[0].value.value, ast.Call)):
                raise Unsupported(f"{cls.name}.{f.name}: the loop body is not one awaited call")
            call = lp.body[0].value.value
            fn = call.func
            ok_recv = isinstance(fn, ast.Attribute) and fn.attr == entry and (
                (isinstance(fn.value, ast.Name) and fn.value.id in aliases)
                or (isinstance(fn.value, ast.Attribute) and isinstance(fn.value.value, ast.Name)
                    and fn.value.value.id == "self" and fn.value.attr in src_attrs))
            args = list(call.args) + [kw.value for kw in call.keywords]
            if not ok_recv or len(args) != 1 or not (isinstance(args[0], ast.Name) and args[0].id == lp.target.id):
                raise Unsupported(f"{cls.name}.{f.name}: the loop body is not `await <source>.{entry}(<request>)`")
            it = lp.iter
            if any(isinstance(n, (ast.Call, ast.Lambda)) for n in ast.walk(it)):
                raise Unsupported(f"{cls.name}.{f.name}: the request stream is wrapped")
            found.append(f"{cls.name}.{f.name}")
    if len(found) != 1:
        raise Unsupported(f"expected one actor loop feeding requests to {src_cls}.{entry}, found {found}")


PRELUDE = '''import Frequenz.Model.DataSourcing

/-! Machine translation of `MicrogridApiSource` / `DataSourcingActor._run` (see `tools/extractors/data_sourcing_loops.py`). -/
set_option linter.unusedVariables false

namespace Extracted.DataSourcingLoops

open _root_.DataSourcing

/-! ### Python containers (fixed text): a `dict` is an association list in insertion order -/

abbrev Dict (κ : Type) (α : Type) := List (κ × α)

namespace Dict
variable {κ α : Type} [DecidableEq κ]

/-- `d.get(k)` -/
def get? : Dict κ α → κ → Option α
  | [], _ => none
  | (k, v) :: d, a => if k = a then some v else get? d a

/-- `k in d` -/
def contains (d : Dict κ α) (k : κ) : Bool := (get? d k).isSome

/-- `d[k]` of a key that is present (`dflt` is never used then) -/
def getD (d : Dict κ α) (k : κ) (dflt : α) : α := (get? d k).getD dflt

/-- `d[k] = v`: replaces the value in place, or appends a new entry -/
def set : Dict κ α → κ → α → Dict κ α
  | [], a, v => [(a, v)]
  | (k, w) :: d, a, v => if k = a then (k, v) :: d else (k, w) :: set d a v

/-- the dictionary after `d.setdefault(k, dflt)` -/
def setdefault (d : Dict κ α) (k : κ) (dflt : α) : Dict κ α := if contains d k = true then d else d ++ [(k, dflt)]

/-- the dictionary after `d.pop(k, None)` -/
def erase : Dict κ α → κ → Dict κ α
  | [], _ => []
  | (k, w) :: d, a => if k = a then d else (k, w) :: erase d a

end Dict

inductive Exc where
  | keyError
  | valueError
deriving DecidableEq, Repr

/-- `_get_data_extraction_method(category, metric)` as a value: the method looked up for (category, metric). -/
abbrev Extractor := Category × Metric

/-- The extraction dispatch: `ValueError` for a category without table, `KeyError` for a metric the table lacks. -/
def extractionMethod (cat : Category) (μ : Metric) : Except Exc Extractor :=
  match assoc Extracted.DataSourcing.extractionDispatch cat with
  | none => .error Exc.valueError
  | some tbl => if (assoc tbl μ).isSome = true then .ok (cat, μ) else .error Exc.keyError

/-- `extractor(msg)` -/
def Extractor.apply (e : Extractor) (m : Msg) : Option Rat := extract (some e.1) e.2 m

/-- `stream_senders`: per registered metric the extraction method and one sender per request (sender = its channel). -/
abbrev Snapshot := List (Extractor × List Chan)

/-- An `asyncio.Task` running the streaming method for (component id, category). -/
inductive StreamTask where
  | created (cid : Nat) (cat : Category)
  | running (cid : Nat) (cat : Category) (snap : Snapshot) (sending : List Msg)
  | cancelled
deriving Repr

def StreamTask.alive : StreamTask → Bool
  | .cancelled => false
  | _ => true

abbrev Reqs := Dict Nat (Dict Metric (List Chan))

/-- Tasks that were dropped from the task dictionary while still alive (they keep running). -/
def Tasks.leak (tasks : Dict Nat StreamTask) (leaked : List StreamTask) (k : Nat) : List StreamTask :=
  match Dict.get? tasks k with
  | some t => if t.alive = true then leaked ++ [t] else leaked
  | none => leaked

/-- The object state of `MicrogridApiSource` that the translated methods touch. -/
structure Src where
  /-- `_req_streaming_metrics` -/
  reqs : Reqs
  /-- `comp_data_receivers`: the messages buffered in the API stream receiver of each component -/
  receivers : Dict Nat (List Msg)
  /-- `comp_data_tasks` -/
  tasks : Dict Nat StreamTask
  leaked : List StreamTask

def Src.init : Src := ⟨[], [], [], []⟩

'''


def renumber(text: str) -> str:
    """Bound names `<base>_<n>` renumbered in order of first appearance (the executor's counter also counts paths that
    were explored and dropped)."""
    import re
    pat = re.compile(r"\b(reqs|receivers|tasks|leaked|v|c)_(\d+)\b")
    order: dict[str, str] = {}
    for m in pat.finditer(text):
        order.setdefault(m.group(0), f"{m.group(1)}_{len(order) + 1}")
    return pat.sub(lambda m: order[m.group(0)], text)


def generate(repo: pathlib.Path) -> str:
    mod = ast.parse((repo / SOURCES[0]).read_text())
    tables = DS._tables(mod)
    DS._dispatches(mod, tables)          # the dispatch functions have the shape the tables were read from
    classes = [c for c in mod.body if isinstance(c, ast.ClassDef)
               and any(isinstance(n, ast.AsyncFor) for n in ast.walk(c))]
    if len(classes) != 1:
        raise Unsupported("expected one class with a streaming loop")
    cls = classes[0]
    roles = find_roles(mod, cls, tables)
    methods = {f.name: f for f in cls.body if isinstance(f, FuncDef)}
    ex = Exec(mod, cls, tables, roles)
    add = translate_entry(ex, methods[roles["entry"]])
    ex.n = 0
    prologue, body = translate_stream(ex, methods[roles["stream"]])
    translate_actor(repo, cls.name, roles["entry"])
    out = [PRELUDE]
    out.append("/-- The request entry point (`add_metric`, helpers inlined).  `categoryOf` = what `_get_component_category`")
    out.append("    answers (the API's component list). -/")
    out.append("def addMetric (categoryOf : Nat → Option Category) (s : Src) (request : Chan) :")
    out.append("    Except Exc (Src × List Out × Unit) :=")
    out.append(renumber(add))
    out.append("")
    out.append("/-- The streaming method from its start to its `async for`: the state it leaves, the sender snapshot and the")
    out.append("    (empty) set of sending tasks.  The loop then iterates `receivers[comp_id]`. -/")
    out.append("def handlePrologue (s : Src) (comp_id : Nat) (category : Category) :")
    out.append("    Except Exc (Src × List Out × (Snapshot × List Msg)) :=")
    out.append(renumber(prologue))
    out.append("")
    out.append("/-- One iteration of the `async for` for the received message `data`: what is sent (the fan-out task is run where")
    out.append("    it is created) and the sending tasks kept (`isDone` = which tasks `asyncio.wait(…, timeout=0)` reports done). -/")
    out.append("def handleMessage (isDone : Msg → Bool) (s : Src) (comp_id : Nat) (snap : Snapshot) (sending : List Msg)")
    out.append("    (data : Msg) : Except Exc (Src × List Out × List Msg) :=")
    out.append(renumber(body))
    out.append("")
    out.append("/-- `DataSourcingActor._run`: the entry point for each request of the request stream, in order. -/")
    out.append("def actorRun (categoryOf : Nat → Option Category) (s : Src) (requests : List Chan) : Except Exc Src :=")
    out.append("  requests.foldlM (fun s request => (addMetric categoryOf s request).map (·.1)) s")
    out.append("")
    out.append("end Extracted.DataSourcingLoops")
    return "\n".join(out) + "\n"
