"""`Actor._run_loop` / `start`, `BackgroundService.wait / stop / _wait_all / cancel / is_running`, `cancel_and_await`
-> Lean, statement by statement (C10 "model is source").

Scheme.  A coroutine is cut at its `await`s: one Lean function per SEGMENT — from the entry of the function, or from the
resumption of an await, up to the next await or the end of the function.  A segment returns where the coroutine
stands: blocked in which await (with the frame that survives it) or finished (returned / raised what).  `while` loops
become one function for the loop head whose parameters are the loop-carried variables; `continue`, falling off the end
of the body and the resumed segments call it; every iteration must pass an await, so no generated function is recursive.
The event machine of `Frequenz/Model/Actor.lean` has exactly these segments as its atomic steps, and
`Frequenz/Lemmas/ActorTie.lean` proves each of its steps equal to the segment translated here.

The translator is a symbolic interpreter in continuation-passing style over the RAW Python AST (no statement-shape
matching): guard clauses, early returns, `try/except/else`, `while True … break`, inverted tests, walrus, conditional
expressions, `len(x) > 0`, comprehension ↔ search loop, keyword arguments, renamed / reordered locals and statements
are all executed for what they mean.  Calls of private helpers (methods found along Actor → BackgroundService, module
functions, properties, static methods) are executed in a fresh frame with their parameters bound (positional, keyword,
defaults), whatever the number of `return`s.  Values are abstract: python constants (decided at translation time),
the restart counter (`Nat`), `self._restart_limit` (`Option Nat`), the task set `self._tasks` (by reference; an alias
taken before `self._tasks` is re-bound is refused), sets of task ids returned by `asyncio.wait`, single tasks, the
exception a task ended with, lists of those, exception groups, and opaque values (log strings, messages) that may flow
anywhere except into control flow.  Roles are found by dataflow and by the API that is called (`asyncio.sleep`,
`asyncio.wait`, `asyncio.create_task`, `Task.cancel/done/result`, `self._run()`, `BaseExceptionGroup(...)`,
`.split(CancelledError)`), never by the names of locals, parameters or private helpers.  `except` clauses are
dispatched with the builtin hierarchy of `tools/extractors/actor.py` (first match, source order) at translation time.
Logging calls and `assert`s are skipped.  Anything else raises `py2lean.Unsupported`.

Frames that must survive an await are those of the model: the restart counter for `_run_loop` (`Phase.delay n _`,
`Phase.running n`), the collected exceptions for `wait()/stop()` (`Caller.acc`); any other live run-time value raises.
Time: `asyncio.sleep(self.RESTART_DELAY.total_seconds())` blocks until `now + RESTART_DELAY` (µs).
"""


import ast
import pathlib
import sys
from dataclasses import dataclass, field

sys.path.insert(0, str(pathlib.Path(__file__).resolve().parent))
import actor as AX  # noqa: E402   (hierarchy table, kinds)
from py2lean import Unsupported  # noqa: E402

NAME = "ActorLoops"
SOURCES = ["src/frequenz/sdk/actor/_actor.py", "src/frequenz/sdk/actor/_background_service.py",
           "src/frequenz/sdk/_internal/_asyncio.py", "src/frequenz/sdk/actor/_run_utils.py"]

ERR_T = "List (Nat × Outcome)"


# ----------------------------------------------------------------------------- values
class _SetDiffComp(ast.NodeTransformer):
    """`{x for x in A if x not in B}` (one generator, one `not in` filter on the element itself, element = the loop variable)
    is the set difference `A - B` when `A` is a set — here `A` is always `self._tasks`, a `set[asyncio.Task]`."""
    def visit_SetComp(self, n):              # noqa: N802
        self.generic_visit(n)
        if len(n.generators) == 1:
            g = n.generators[0]
            if (isinstance(g.target, ast.Name) and isinstance(n.elt, ast.Name) and n.elt.id == g.target.id and not g.is_async
                    and len(g.ifs) == 1 and isinstance(g.ifs[0], ast.Compare) and len(g.ifs[0].ops) == 1
                    and isinstance(g.ifs[0].ops[0], ast.NotIn) and isinstance(g.ifs[0].left, ast.Name)
                    and g.ifs[0].left.id == g.target.id and ast.unparse(g.iter) == "self._tasks"
                    and g.target.id not in {x.id for x in ast.walk(g.ifs[0].comparators[0]) if isinstance(x, ast.Name)}):
                return ast.copy_location(ast.BinOp(left=g.iter, op=ast.Sub(), right=g.ifs[0].comparators[0]), n)
        return n


def _parse(src: str) -> ast.Module:
    return ast.fix_missing_locations(_SetDiffComp().visit(ast.parse(src)))



@dataclass(frozen=True)
class V:
    k: str                    # const | nat | bool | limit | opaque | self | tasks | idset | emptyset | task | err | errlist
    t: str = ""               # | group | optgroup | splitpair | outcome | seconds | delay | newtask | catask | coro | len
    c: object = None


OPAQUE = V("opaque")
RUNTIME = {"nat": "Nat", "errlist": ERR_T, "bool": "Bool"}


def const(c) -> V:
    return V("const", c=c)


@dataclass(frozen=True)
class Exc:
    k: str                    # outcome (t : Outcome term, c = static kind name or None) | group (t : list term) | err
    t: str = ""
    c: object = None


# ----------------------------------------------------------------------------- IR
@dataclass
class Ite:
    c: str
    a: object
    b: object


@dataclass
class Match:
    scrut: str
    arms: list            # [(pattern, ir)]


@dataclass
class Leaf:
    t: str


@dataclass
class Let:
    x: str
    e: str
    body: object


def simp(ir):
    """Canonical decision trees: no negated tests, `if a then X else if b then X else Y` = `if a || b then X else Y`, …"""
    if isinstance(ir, Let):
        return Let(ir.x, ir.e, simp(ir.body))
    if isinstance(ir, Match):
        return Match(ir.scrut, [(p, simp(b)) for p, b in ir.arms])
    if isinstance(ir, Ite):
        a, b, c = simp(ir.a), simp(ir.b), ir.c
        if _same(a, b):
            return a
        if _negative_head(c):                           # canonical polarity: test the positive form
            c, a, b = neg_term(c), b, a
        if isinstance(b, Ite) and _same(a, b.a):
            return simp(Ite(_or(c, b.c), a, b.b))
        if isinstance(a, Ite) and _same(b, a.b):
            return simp(Ite(_and(c, a.c), a.a, b))
        return Ite(c, a, b)
    return ir


def _split_top(t: str, op: str) -> list[str] | None:
    """`(a op b op c)` -> [a, b, c] (top level only)."""
    if not (t.startswith("(") and t.endswith(")") and _balanced(t[1:-1])):
        return None
    body, parts, d, cur, i = t[1:-1], [], 0, "", 0
    while i < len(body):
        ch = body[i]
        d += ch == "("
        d -= ch == ")"
        if d == 0 and body.startswith(f" {op} ", i):
            parts.append(cur)
            cur = ""
            i += len(op) + 2
            continue
        cur += ch
        i += 1
    parts.append(cur)
    other = "&&" if op == "||" else "||"
    if len(parts) < 2 or any(_split_top(f"({x})", other) for x in parts if not x.startswith("(")):
        return None
    return parts


_COMPL = {"<": "≥", "≥": "<", "≤": ">", ">": "≤", "=": "≠", "≠": "="}


def neg_term(t: str) -> str:
    """The negation of a Bool term, pushed inside (Int comparisons are complemented: exact on a total order)."""
    if t.startswith("!"):
        u_ = t[1:]
        return u_[1:-1] if u_.startswith("(") and u_.endswith(")") and _balanced(u_[1:-1]) else u_
    if t == "limit.isNone":
        return "limit.isSome"
    if t == "limit.isSome":
        return "limit.isNone"
    if t.startswith("decide (") and t.endswith(")") and _balanced(t[len("decide ("):-1]):
        inner = t[len("decide ("):-1]
        d = 0
        for i, ch in enumerate(inner):
            d += ch == "("
            d -= ch == ")"
            if d == 0 and ch in _COMPL and inner[i - 1] == " " and inner[i + 1] == " ":
                return f"decide ({inner[:i]}{_COMPL[ch]}{inner[i + 1:]})"
    for op, other in (("||", "&&"), ("&&", "||")):
        parts = _split_top(t, op)
        if parts:
            return "(" + f" {other} ".join(neg_term(x) for x in parts) + ")"
    return f"!{t}" if _atomic(t) else f"!({t})"


def _negative_head(c: str) -> bool:
    """Polarity of the first atom of a condition: `isSome`, `≤`, `≥`, `≠` and `!…` count as negative."""
    for op in ("||", "&&"):
        parts = _split_top(c, op)
        if parts:
            return _negative_head(parts[0])
    if c.startswith("!") or c == "limit.isSome":
        return True
    if c.startswith("decide ("):
        inner, d = c[len("decide ("):-1], 0
        for i, ch in enumerate(inner):
            d += ch == "("
            d -= ch == ")"
            if d == 0 and ch in _COMPL and inner[i - 1] == " ":
                return ch in "≤≥≠"
    return False


def _balanced(t: str) -> bool:
    d = 0
    for ch in t:
        d += ch == "("
        d -= ch == ")"
        if d < 0:
            return False
    return d == 0


def _atomic(t: str) -> bool:
    return (t.startswith("(") and t.endswith(")") and _balanced(t[1:-1])) or all(ch.isalnum() or ch in "._" for ch in t)


def _or(a: str, b: str) -> str:
    if a == b:
        return a
    return f"({a if _atomic(a) or a.startswith(('decide', 'Src.')) else '(' + a + ')'} || {b if _atomic(b) or b.startswith(('decide', 'Src.')) else '(' + b + ')'})"


def _and(a: str, b: str) -> str:
    if a == b:
        return a
    return f"({a if _atomic(a) or a.startswith(('decide', 'Src.')) else '(' + a + ')'} && {b if _atomic(b) or b.startswith(('decide', 'Src.')) else '(' + b + ')'})"


def render(ir, ind: int) -> str:
    p = "  " * ind
    if isinstance(ir, Leaf):
        return p + ir.t
    if isinstance(ir, Let):
        return f"{p}let {ir.x} := {ir.e}\n" + render(ir.body, ind)
    if isinstance(ir, Ite):
        if _same(ir.a, ir.b):
            return render(ir.a, ind)
        return f"{p}if {ir.c} then\n{render(ir.a, ind + 1)}\n{p}else\n{render(ir.b, ind + 1)}"
    if isinstance(ir, Match):
        groups: list[tuple[list[str], object]] = []
        for pat, body in ir.arms:                      # arms with the same body (constructor patterns without variables)
            for g in groups:
                if pat.startswith(".") and " " not in pat and g[0][0].startswith(".") and " " not in g[0][0] and _same(g[1], body):
                    g[0].append(pat)
                    break
            else:
                groups.append(([pat], body))
        out = f"{p}(match {ir.scrut} with"
        for pats, body in groups:
            out += f"\n{p}| " + " | ".join(pats) + " =>\n" + render(body, ind + 2)
        return out + ")"
    raise TypeError(ir)


def _same(a, b) -> bool:
    return render(a, 0) == render(b, 0)


def inline(ir) -> str:
    """One-line rendering (inside a lambda)."""
    if isinstance(ir, Leaf):
        return ir.t
    if isinstance(ir, Ite):
        if _same(ir.a, ir.b):
            return inline(ir.a)
        return f"(if {ir.c} then {inline(ir.a)} else {inline(ir.b)})"
    if isinstance(ir, Match):
        pats = [pat for pat, _ in ir.arms]
        if pats == ["none", "some e"]:                  # (no auxiliary matcher inside a lambda: terms stay comparable)
            return f"Option.elim ({ir.scrut}) {_p(inline(ir.arms[0][1]))} (fun e => {inline(ir.arms[1][1])})"
        return "(match " + ir.scrut + " with " + " ".join(f"| {pat} => {inline(b)}" for pat, b in ir.arms) + ")"
    raise TypeError(ir)


def _p(t: str) -> str:
    return t if _atomic(t) else f"({t})"


# ----------------------------------------------------------------------------- state
@dataclass
class Frame:
    env: dict
    mod: ast.Module
    fname: str


@dataclass
class St:
    frames: list
    co: str                          # runloop | call | start | caa
    ts: str | None = None            # current task table (term)
    tsgen: int = 0                   # bumped when `self._tasks` is re-bound
    tbl: str | None = None           # the table as found when the segment began (task states are read from it)
    h: str | None = None             # run loop: ghost history term
    now: str = "now"
    ca: str | None = None            # cancel_and_await: the task (term)
    exc: Exc | None = None           # the exception being handled (bare `raise`)
    seg: object = None               # loop head being generated with no await crossed yet
    tf: str | None = None            # inside `for task in self._tasks`: the transform applied to the task so far

    def copy(self, **kw) -> "St":
        s = St(frames=[Frame(dict(f.env), f.mod, f.fname) for f in self.frames], co=self.co, ts=self.ts, tsgen=self.tsgen,
               tbl=self.tbl, h=self.h, now=self.now, ca=self.ca, exc=self.exc, seg=self.seg, tf=self.tf)
        for k, v in kw.items():
            setattr(s, k, v)
        return s

    @property
    def env(self) -> dict:
        return self.frames[-1].env

    def bind(self, name: str, v: V) -> "St":
        s = self.copy()
        s.frames[-1].env[name] = v
        return s

    def same_effects(self, other: "St", ignore: tuple = (), tf: bool = True) -> bool:
        """Nothing but loop-local names (and `ignore`) differs from `other` (the state at the head of a loop body)."""
        if (self.ts, self.tsgen, self.h, self.ca) != (other.ts, other.tsgen, other.h, other.ca) or (tf and self.tf != other.tf):
            return False
        if len(self.frames) != len(other.frames) or any(a.env != b.env for a, b in zip(self.frames[:-1], other.frames[:-1])):
            return False
        return all(self.env.get(nm) == v for nm, v in other.env.items() if nm not in ignore)

    def sig(self):
        return (self.ts, self.tsgen, self.h, self.ca, self.tf, tuple(tuple(sorted(f.env.items(), key=lambda kv: kv[0])) for f in self.frames))


@dataclass
class K:
    normal: object
    raise_: object
    ret: object
    brk: object = None
    cont: object = None

    def but(self, **kw) -> "K":
        k = K(self.normal, self.raise_, self.ret, self.brk, self.cont)
        for a, b in kw.items():
            setattr(k, a, b)
        return k


def u(n: ast.AST) -> str:
    return ast.unparse(n)


def is_log(call: ast.Call) -> bool:
    return u(call.func).startswith(("_logger.", "logging.", "print", "warnings."))


# ----------------------------------------------------------------------------- the interpreter
class Tr:
    def __init__(self, classes: list[tuple[ast.ClassDef, ast.Module]], delay_us: int | None = None):
        self.classes = classes
        self.delay_us = delay_us
        self.defs: list[tuple[str, str, str]] = []          # (name, doc, text)
        self.names: dict[str, int] = {}
        self.memo: dict = {}
        self.depth = 0

    # ---- lookup
    def method(self, name: str):
        for cls, mod in self.classes:
            for n in cls.body:
                if isinstance(n, (ast.FunctionDef, ast.AsyncFunctionDef)) and n.name == name:
                    return n, mod
        return None

    def modfn(self, mod: ast.Module, name: str):
        for n in mod.body:
            if isinstance(n, (ast.FunctionDef, ast.AsyncFunctionDef)) and n.name == name:
                return n
        return None

    def class_attr(self, name: str):
        for cls, _ in self.classes:
            for n in cls.body:
                tgt = n.target if isinstance(n, ast.AnnAssign) else (n.targets[0] if isinstance(n, ast.Assign) and len(n.targets) == 1 else None)
                if isinstance(tgt, ast.Name) and tgt.id == name and n.value is not None:
                    return n.value
        return None

    def fresh(self, base: str) -> str:
        self.names[base] = self.names.get(base, 0) + 1
        return base if self.names[base] == 1 else f"{base}{self.names[base]}"

    # ---- blocks
    def block(self, stmts, st: St, k: K):
        if not stmts:
            return k.normal(st)
        return self.stmt(stmts[0], st, k.but(normal=lambda s: self.block(stmts[1:], s, k)))

    def stmt(self, s: ast.stmt, st: St, k: K):
        if isinstance(s, (ast.Pass, ast.Assert, ast.Import, ast.ImportFrom, ast.Global, ast.Nonlocal)):
            return k.normal(st)
        if isinstance(s, ast.Expr):
            if isinstance(s.value, ast.Constant):
                return k.normal(st)
            if isinstance(s.value, ast.Call) and is_log(s.value):
                return k.normal(st)
            return self.eval(s.value, st, lambda s2, _v: k.normal(s2), k)
        if isinstance(s, ast.AnnAssign):
            if s.value is None:
                return k.normal(st)
            return self.eval(s.value, st, lambda s2, v: self.assign(s.target, v, s2, k), k)
        if isinstance(s, ast.Assign):
            def go(s2, v, targets=s.targets):
                if not targets:
                    return k.normal(s2)
                return self.assign(targets[0], v, s2, k.but(normal=lambda s3: go(s3, v, targets[1:])))
            return self.eval(s.value, st, go, k)
        if isinstance(s, ast.AugAssign):
            return self.eval(s.value, st, lambda s2, v: self.augassign(s, v, s2, k), k)
        if isinstance(s, ast.If):
            return self.cond(s.test, st, lambda s2: self.block(s.body, s2, k), lambda s2: self.block(s.orelse, s2, k), k)
        if isinstance(s, ast.Return):
            if s.value is None:
                return k.ret(st, const(None))
            return self.eval(s.value, st, lambda s2, v: k.ret(s2, v), k)
        if isinstance(s, ast.Break):
            if k.brk is None:
                raise Unsupported("break outside a translated loop")
            return k.brk(st)
        if isinstance(s, ast.Continue):
            if k.cont is None:
                raise Unsupported("continue outside a translated loop")
            return k.cont(st)
        if isinstance(s, ast.Raise):
            return self.raise_stmt(s, st, k)
        if isinstance(s, ast.Try):
            return self.try_stmt(s, st, k)
        if isinstance(s, ast.While):
            return self.while_stmt(s, st, k)
        if isinstance(s, ast.For):
            return self.for_stmt(s, st, k)
        raise Unsupported(f"statement {type(s).__name__}: {u(s)[:60]}")

    # ---- assignment
    def assign(self, target: ast.expr, v: V, st: St, k: K):
        if isinstance(target, ast.Name):
            return k.normal(st.bind(target.id, v))
        if isinstance(target, (ast.Tuple, ast.List)):
            if v.k == "waitresult" and len(target.elts) == 2:
                parts = [V("idset", v.t), V("emptyset")]
            elif v.k == "splitpair" and len(target.elts) == 2:
                parts = [OPAQUE, V("optgroup", f"Src.splitRest {v.t}")]
            elif v.k == "opaque":
                parts = [OPAQUE] * len(target.elts)
            else:
                raise Unsupported(f"unpacking a {v.k}")
            def go(s2, i=0):
                if i == len(parts):
                    return k.normal(s2)
                return self.assign(target.elts[i], parts[i], s2, k.but(normal=lambda s3: go(s3, i + 1)))
            return go(st)
        if isinstance(target, ast.Attribute) and isinstance(target.value, ast.Name) and self.is_self(target.value, st):
            if target.attr == "_tasks":
                if v.k != "taskstate":
                    raise Unsupported(f"self._tasks = <{v.k}>")
                return k.normal(st.copy(ts=v.t, tsgen=st.tsgen + 1))
            raise Unsupported(f"store to self.{target.attr}")
        raise Unsupported(f"assignment target {u(target)}")

    def augassign(self, s: ast.AugAssign, v: V, st: St, k: K):
        if isinstance(s.target, ast.Name):
            cur = self.name(s.target.id, st)
            if isinstance(s.op, ast.Add):
                return k.normal(st.bind(s.target.id, self.add(cur, v)))
            raise Unsupported(f"augmented assignment {u(s)}")
        if isinstance(s.target, ast.Attribute) and self.is_self(s.target.value, st) and s.target.attr == "_tasks" \
                and isinstance(s.op, ast.Sub) and v.k == "idset":
            return k.normal(st.copy(ts=f"Src.remove {v.t} {self.par(st.ts)}"))        # in place: aliases stay valid
        raise Unsupported(f"augmented assignment {u(s)}")

    @staticmethod
    def par(t: str) -> str:
        if t.replace("_", "a").replace(".", "a").isalnum() or t == "[]" or (t.startswith("(") and t.endswith(")") and _balanced(t[1:-1])):
            return t
        return f"({t})"

    def add(self, a: V, b: V) -> V:
        if a.k == "const" and b.k == "const" and isinstance(a.c, int) and isinstance(b.c, int):
            return const(a.c + b.c)
        if a.k == "nat" and b.k == "const" and isinstance(b.c, int) and not isinstance(b.c, bool) and b.c >= 0:
            return V("nat", f"({a.t} + {b.c})")
        if b.k == "nat" and a.k == "const" and isinstance(a.c, int) and not isinstance(a.c, bool) and a.c >= 0:
            return V("nat", f"({b.t} + {a.c})")
        if "opaque" in (a.k, b.k):
            return OPAQUE
        raise Unsupported(f"{a.k} + {b.k}")

    # ---- names / self
    def is_self(self, e: ast.expr, st: St) -> bool:
        return isinstance(e, ast.Name) and st.env.get(e.id, V("?")).k == "self"

    def name(self, n: str, st: St) -> V:
        if n in st.env:
            v = st.env[n]
            if v.k == "lost":
                raise Unsupported(f"`{n}` is used after an await that the model's frame does not carry it across")
            if v.k == "tasks" and v.c != st.tsgen:
                raise Unsupported(f"`{n}` is an alias of `self._tasks` taken before it was re-bound")
            return v
        if n in ("True", "False", "None"):
            return const({"True": True, "False": False, "None": None}[n])
        if n in ("asyncio", "BaseExceptionGroup", "ExceptionGroup", "BaseException", "Exception", "str", "len", "any", "type", "id",
                 "repr", "contextlib", "logging", "_logger", "set", "list"):
            return V("global", n)
        if self.modfn(st.frames[-1].mod, n) is not None:
            return V("global", n)
        raise Unsupported(f"unknown name {n}")

    # ---- conditions
    def cond(self, e: ast.expr, st: St, kt, kf, k: K):
        def go(s2, v: V):
            b = self.truth(v, s2)
            if b.k == "const":
                return kt(s2) if b.c else kf(s2)
            return Ite(b.t, kt(s2), kf(s2))
        return self.eval(e, st, go, k)

    def truth(self, v: V, st: St) -> V:
        if v.k == "const":
            return const(bool(v.c))
        if v.k == "bool":
            return v
        if v.k == "tasks":
            return V("bool", f"Src.nonEmpty {self.par(st.ts)}")
        if v.k == "errlist":
            return V("bool", f"!({v.t}).isEmpty")
        if v.k in ("group", "err", "task", "self", "newtask", "catask"):
            return const(True)
        if v.k == "optgroup":
            return V("bool", f"!({v.t}).isEmpty")      # an exception group object is truthy; `None` is not
        if v.k == "emptyset":
            return const(False)
        if v.k == "len":
            return self.truth(v.c, st)
        raise Unsupported(f"truth value of a {v.k}")

    def neg(self, b: V) -> V:
        if b.k == "const":
            return const(not b.c)
        return V("bool", neg_term(b.t))

    # ---- expressions (CPS: kv(st, value))
    def evals(self, es: list, st: St, kvs, k: K, acc=()):
        if not es:
            return kvs(st, list(acc))
        return self.eval(es[0], st, lambda s2, v: self.evals(es[1:], s2, kvs, k, acc + (v,)), k)

    def eval(self, e: ast.expr, st: St, kv, k: K):
        if isinstance(e, ast.Constant):
            return kv(st, const(e.value) if isinstance(e.value, (int, bool, type(None))) else OPAQUE)
        if isinstance(e, (ast.JoinedStr, ast.FormattedValue)):
            return kv(st, OPAQUE)
        if isinstance(e, ast.Name):
            return kv(st, self.name(e.id, st))
        if isinstance(e, ast.NamedExpr):
            return self.eval(e.value, st, lambda s2, v: kv(s2.bind(e.target.id, v), v), k)
        if isinstance(e, ast.Await):
            return self.await_(e.value, st, kv, k)
        if isinstance(e, ast.Attribute):
            return self.eval(e.value, st, lambda s2, o: self.attr(o, e.attr, s2, kv, k), k)
        if isinstance(e, ast.UnaryOp) and isinstance(e.op, ast.Not):
            return self.eval(e.operand, st, lambda s2, v: kv(s2, self.neg(self.truth(v, s2))), k)
        if isinstance(e, ast.BoolOp):
            return self.boolop(e, st, kv, k)
        if isinstance(e, ast.Compare):
            return self.compare(e, st, kv, k)
        if isinstance(e, ast.IfExp):
            def join(s2, c):
                b = self.truth(c, s2)
                if b.k == "const":
                    return self.eval(e.body if b.c else e.orelse, s2, kv, k)
                return self.evals([e.body, e.orelse], s2, lambda s3, vs: kv(s3, self.ifexp(b, vs[0], vs[1], s3)), k)
            return self.eval(e.test, st, join, k)
        if isinstance(e, ast.BinOp):
            def bin_(s2, vs):
                if isinstance(e.op, ast.Add):
                    return kv(s2, self.add(vs[0], vs[1]))
                if isinstance(e.op, ast.Sub) and vs[0].k == "tasks" and vs[1].k == "idset":
                    return kv(s2, V("taskstate", f"Src.remove {vs[1].t} {self.par(s2.ts)}"))
                if all(v.k in ("opaque", "const", "seconds") for v in vs):
                    return kv(s2, OPAQUE)
                raise Unsupported(f"operator in {u(e)}")
            return self.evals([e.left, e.right], st, bin_, k)
        if isinstance(e, ast.Subscript):
            def sub(s2, vs):
                o, i = vs
                if o.k == "splitpair" and i.k == "const" and i.c in (0, 1):
                    return kv(s2, V("optgroup", f"Src.splitRest {o.t}") if i.c == 1 else OPAQUE)
                if o.k == "opaque":
                    return kv(s2, OPAQUE)
                raise Unsupported(f"subscript {u(e)}")
            return self.evals([e.value, e.slice], st, sub, k)
        if isinstance(e, ast.Call):
            return self.call(e, st, kv, k)
        if isinstance(e, ast.List) and not e.elts:
            return kv(st, V("errlist", "[]"))
        if isinstance(e, (ast.Tuple, ast.List)) and all(isinstance(x, ast.Constant) for x in e.elts):
            return kv(st, OPAQUE)
        if isinstance(e, ast.GeneratorExp):
            raise Unsupported("generator expression outside any()")
        raise Unsupported(f"expression {type(e).__name__}: {u(e)[:60]}")

    def ifexp(self, b: V, x: V, y: V, st: St) -> V:
        if x.k in ("opaque", "const", "limit") and y.k in ("opaque", "const", "limit") and not (x.k == "const" and y.k == "const" and isinstance(x.c, bool) and isinstance(y.c, bool)):
            return OPAQUE
        bx, by = self.truth(x, st), self.truth(y, st)
        tx = bx.t if bx.k != "const" else ("true" if bx.c else "false")
        ty = by.t if by.k != "const" else ("true" if by.c else "false")
        if bx.k == "const" and bx.c is True:
            return V("bool", f"({b.t} || {ty})")
        if bx.k == "const" and bx.c is False:
            return V("bool", f"({self.neg(b).t} && {ty})")
        if by.k == "const" and by.c is False:
            return V("bool", f"({b.t} && {tx})")
        if by.k == "const" and by.c is True:
            return V("bool", f"({self.neg(b).t} || {tx})")
        return V("bool", f"(if {b.t} then {tx} else {ty})")

    def boolop(self, e: ast.BoolOp, st: St, kv, k: K):
        is_or = isinstance(e.op, ast.Or)

        def go(s2, vals, rest):
            if not rest:
                bs = [self.truth(v, s2) for v in vals]
                terms = [b.t for b in bs if b.k != "const"]
                if not terms:
                    return kv(s2, const(not is_or))
                return kv(s2, V("bool", terms[0] if len(terms) == 1 else "(" + (" || " if is_or else " && ").join(terms) + ")"))

            def after(s3, v):
                if not s3.same_effects(s2):
                    raise Unsupported("an operand of and/or changes the state")
                b = self.truth(v, s3)
                if b.k == "const":
                    if b.c == is_or:                         # `earlier || True` / `earlier && False` (operands are effect-free)
                        return kv(s3, const(is_or))
                    return go(s3, vals, rest[1:])
                return go(s3, vals + [v], rest[1:])
            return self.eval(rest[0], s2, after, k)
        return go(st, [], list(e.values))

    def compare(self, e: ast.Compare, st: St, kv, k: K):
        if len(e.ops) != 1:
            raise Unsupported(f"chained comparison {u(e)}")
        op = e.ops[0]

        def go(s2, vs):
            l, r = vs
            if isinstance(op, (ast.Is, ast.IsNot, ast.Eq, ast.NotEq)) and (self.is_none(l) or self.is_none(r)):
                x = r if self.is_none(l) else l
                pos = isinstance(op, (ast.Is, ast.Eq))
                if x.k == "const":
                    return kv(s2, const((x.c is None) == pos))
                if x.k == "limit":
                    return kv(s2, V("bool", "limit.isNone" if pos else "limit.isSome"))
                if x.k == "optgroup":
                    return kv(s2, V("bool", f"({x.t}).isEmpty" if pos else f"!({x.t}).isEmpty"))
                if x.k in ("err", "group", "errlist", "task", "tasks", "nat", "bool", "self"):
                    return kv(s2, const(not pos))
                raise Unsupported(f"`is None` on a {x.k}")
            sym = {ast.Lt: "<", ast.LtE: "≤", ast.Gt: ">", ast.GtE: "≥", ast.Eq: "=", ast.NotEq: "≠"}.get(type(op))
            if sym is None:
                raise Unsupported(f"comparison {u(e)}")
            if l.k == "len" or r.k == "len":
                return kv(s2, self.len_cmp(l, r, type(op), s2))
            if l.k == "const" and r.k == "const":
                return kv(s2, const({"<": l.c < r.c, "≤": l.c <= r.c, ">": l.c > r.c, "≥": l.c >= r.c, "=": l.c == r.c, "≠": l.c != r.c}[sym]))
            if r.k == "nat" and l.k != "nat":                       # canonical orientation: the counter on the left
                mirror = {"<": ">", "≤": "≥", ">": "<", "≥": "≤", "=": "=", "≠": "≠"}
                l, r, sym = r, l, mirror[sym]
            return kv(s2, V("bool", f"decide ({self.intterm(l)} {sym} {self.intterm(r)})"))
        return self.evals([e.left, e.comparators[0]], st, go, k)

    @staticmethod
    def is_none(v: V) -> bool:
        return v.k == "const" and v.c is None

    def intterm(self, v: V) -> str:
        if v.k == "const" and isinstance(v.c, int) and not isinstance(v.c, bool):
            return f"({v.c} : Int)"
        if v.k == "nat":
            return f"({v.t} : Int)"
        if v.k == "limit":
            # only evaluated where the limit is not None (Python raises TypeError otherwise): `none` ↦ -1, "never"
            return "(match limit with | some l => (l : Int) | none => -1)"
        raise Unsupported(f"number from a {v.k}")

    def len_cmp(self, l: V, r: V, op, st: St) -> V:
        if r.k == "len":
            mirror = {ast.Lt: ast.Gt, ast.LtE: ast.GtE, ast.Gt: ast.Lt, ast.GtE: ast.LtE, ast.Eq: ast.Eq, ast.NotEq: ast.NotEq}
            l, r, op = r, l, mirror[op]
        if l.k != "len" or r.k != "const" or type(r.c) is not int:
            raise Unsupported("len() compared with something that is no integer literal")
        b = self.truth(l.c, st)
        if (op, r.c) in ((ast.Gt, 0), (ast.NotEq, 0), (ast.GtE, 1)):
            return b
        if (op, r.c) in ((ast.Eq, 0), (ast.Lt, 1), (ast.LtE, 0)):
            return self.neg(b)
        raise Unsupported("len() comparison other than emptiness")

    # ---- attributes
    def attr(self, o: V, name: str, st: St, kv, k: K):
        if o.k == "self":
            if name == "_tasks":
                return kv(st, V("tasks", c=st.tsgen))
            if name == "_restart_limit":
                return kv(st, V("limit", "limit"))
            if name == "RESTART_DELAY":
                return kv(st, V("delay", c=self.restart_delay()))
            found = self.method(name)
            if found is not None:
                fn, mod = found
                if any(u(d) == "property" for d in fn.decorator_list):
                    return self.invoke(fn, mod, {}, st, kv, k, bind_self=True)
                return kv(st, V("method", name))
            return kv(st, OPAQUE)                                  # `_name` and the like: only ever logged
        if o.k == "global":
            return kv(st, V("global", f"{o.t}.{name}"))
        if o.k in ("tasks", "task", "catask", "errlist", "group", "delay", "idset", "optgroup", "err"):
            return kv(st, V("bound", name, c=o))
        if o.k == "opaque":
            return kv(st, OPAQUE)
        raise Unsupported(f"attribute .{name} of a {o.k}")

    def restart_delay(self) -> int:
        v = self.class_attr("RESTART_DELAY")
        if not (isinstance(v, ast.Call) and u(v.func) in ("timedelta", "datetime.timedelta")) or v.args:
            raise Unsupported("RESTART_DELAY is not timedelta(kw=…)")
        unit = {"days": 86400_000_000, "hours": 3600_000_000, "minutes": 60_000_000, "seconds": 1_000_000,
                "milliseconds": 1000, "microseconds": 1}
        total = 0
        for kw in v.keywords:
            q = ast.literal_eval(kw.value) * unit[kw.arg]
            if q != int(q):
                raise Unsupported("RESTART_DELAY not a whole number of µs")
            total += int(q)
        return total

    # ---- calls
    def call(self, e: ast.Call, st: St, kv, k: K):
        if is_log(e):
            return kv(st, OPAQUE)
        if any(isinstance(a, ast.Starred) for a in e.args) or any(kw.arg is None for kw in e.keywords):
            raise Unsupported(f"star arguments in {u(e)[:50]}")
        # any(<generator over self._tasks>)
        if isinstance(e.func, ast.Name) and e.func.id in ("any", "all") and len(e.args) == 1 and not e.keywords \
                and isinstance(e.args[0], (ast.GeneratorExp, ast.ListComp)) and e.func.id not in st.env:
            if e.func.id == "any":
                return self.any_gen(e.args[0], st, kv, k, False)
            # all(p …) = not any(not p …)
            return self.any_gen(e.args[0], st, lambda s2, v: kv(s2, self.neg(v)), k, True)

        def with_f(s2, f: V):
            def with_args(s3, vs):
                args = vs[: len(e.args)]
                kws = {kw.arg: v for kw, v in zip(e.keywords, vs[len(e.args):])}
                return self.apply(f, args, kws, e, s3, kv, k)
            return self.evals(list(e.args) + [kw.value for kw in e.keywords], s2, with_args, k)
        return self.eval(e.func, st, with_f, k)

    @staticmethod
    def params(args: list, kws: dict, names: list, n_required: int = 0, what: str = "") -> list:
        """Positional + keyword arguments against a known signature."""
        if len(args) > len(names) or any(kn not in names for kn in kws):
            raise Unsupported(f"arguments of {what}")
        out = list(args) + [None] * (len(names) - len(args))
        for kn, v in kws.items():
            i = names.index(kn)
            if out[i] is not None:
                raise Unsupported(f"argument {kn} of {what} given twice")
            out[i] = v
        if any(x is None for x in out[:n_required]):
            raise Unsupported(f"missing argument of {what}")
        return out

    def apply(self, f: V, args: list, kws: dict, e: ast.Call, st: St, kv, k: K):
        if f.k == "global":
            g = f.t
            if g == "len" and len(args) == 1 and not kws:
                if args[0].k in ("tasks", "errlist", "emptyset"):
                    return kv(st, V("len", c=args[0]))
                raise Unsupported(f"len of a {args[0].k}")
            if g in ("str", "repr", "id", "type"):
                return kv(st, OPAQUE)
            if g in ("BaseExceptionGroup", "ExceptionGroup"):
                _msg, lst = self.params(args, kws, ["message", "exceptions"], 2, g)
                if g != "BaseExceptionGroup" or lst.k != "errlist":
                    raise Unsupported(f"{g}(…, <{lst.k}>)")
                return kv(st, V("group", lst.t))
            if g == "asyncio.create_task":
                coro = self.params(args, {a: b for a, b in kws.items() if a != "name"}, ["coro"], 1, g)[0]
                if coro.k != "coro" or coro.t != "_run_loop":
                    raise Unsupported("create_task of something that is not self._run_loop()")
                return kv(st, V("newtask"))
            if g == "asyncio.sleep":
                d = self.params(args, kws, ["delay", "result"], 1, g)[0]
                return kv(st, V("awaitable", "sleep", c=d))
            if g == "asyncio.wait":
                fs = self.params(args, {a: b for a, b in kws.items() if a != "return_when"}, ["fs"], 1, g)[0]
                if "return_when" in kws and not (kws["return_when"].k == "global" and kws["return_when"].t == "asyncio.ALL_COMPLETED"):
                    raise Unsupported("asyncio.wait(return_when=…) other than ALL_COMPLETED")
                return kv(st, V("awaitable", "wait", c=fs))
            if g in ("set", "list") and not args and not kws:
                return kv(st, V("errlist", "[]")) if g == "list" else kv(st, OPAQUE)
            if g == "asyncio.CancelledError" or g == "asyncio.current_task":
                return kv(st, OPAQUE)
            fn = self.modfn(st.frames[-1].mod, g) if "." not in g else None
            if fn is not None:
                return self.invoke(fn, st.frames[-1].mod, self.bind_args(fn, args, kws, False), st, kv, k, bind_self=False)
            raise Unsupported(f"call of {g}")
        if f.k == "method":
            found = self.method(f.t)
            fn, mod = found
            static = any(u(d) == "staticmethod" for d in fn.decorator_list)
            if f.t == "_run_loop" and not args and not kws:
                return kv(st, V("coro", "_run_loop"))
            if f.t == "_run" and not args and not kws:
                return kv(st, V("awaitable", "run"))
            if isinstance(fn, ast.AsyncFunctionDef):
                return kv(st, V("awaitable", "helper", c=(fn, mod, self.bind_args(fn, args, kws, not static), not static)))
            return self.invoke(fn, mod, self.bind_args(fn, args, kws, not static), st, kv, k, bind_self=not static)
        if f.k == "bound":
            return self.method_call(f.c, f.t, args, kws, e, st, kv, k)
        if f.k == "opaque":
            return kv(st, OPAQUE)
        raise Unsupported(f"call of a {f.k}: {u(e)[:50]}")

    def bind_args(self, fn, args: list, kws: dict, skip_self: bool) -> dict:
        a = fn.args
        if a.vararg or a.kwarg or a.posonlyargs:
            raise Unsupported(f"signature of {fn.name}")
        pos = [x.arg for x in a.args]
        defaults = {}
        for nm, d in zip(reversed(pos), reversed(a.defaults)):
            defaults[nm] = d
        if skip_self:
            pos = pos[1:]
        kwonly = [x.arg for x in a.kwonlyargs]
        for nm, d in zip(kwonly, a.kw_defaults):
            if d is not None:
                defaults[nm] = d
        if len(args) > len(pos):
            raise Unsupported(f"too many arguments for {fn.name}")
        bound = dict(zip(pos, args))
        for kn, v in kws.items():
            if kn in bound or kn not in pos + kwonly:
                raise Unsupported(f"argument {kn} of {fn.name}")
            bound[kn] = v
        for nm in pos + kwonly:
            if nm not in bound:
                if nm not in defaults:
                    raise Unsupported(f"missing argument {nm} of {fn.name}")
                d = defaults[nm]
                if not isinstance(d, ast.Constant):
                    raise Unsupported(f"default of {nm} in {fn.name}")
                bound[nm] = const(d.value) if isinstance(d.value, (int, bool, type(None))) else OPAQUE
        return bound

    def invoke(self, fn, mod, bound: dict, st: St, kv, k: K, bind_self: bool):
        """Execute a helper in a fresh frame; every `return` continues with `kv`."""
        if self.depth > 12:
            raise Unsupported(f"helper calls nested too deeply at {fn.name}")
        if any(isinstance(x, (ast.Yield, ast.YieldFrom)) for b in fn.body for x in ast.walk(b)):
            raise Unsupported(f"generator {fn.name}")
        env = dict(bound)
        if bind_self:
            env[fn.args.args[0].arg] = V("self")
        s2 = st.copy()
        s2.frames.append(Frame(env, mod, fn.name))
        self.depth += 1

        def back(s3, v):
            s4 = s3.copy()
            s4.frames.pop()
            return kv(s4, v)

        def unwind_raise(s3, ex):
            s4 = s3.copy()
            s4.frames.pop()
            return k.raise_(s4, ex)
        try:
            return self.block(fn.body, s2, K(normal=lambda s3: back(s3, const(None)), raise_=unwind_raise, ret=back))
        finally:
            self.depth -= 1

    def method_call(self, o: V, name: str, args: list, kws: dict, e: ast.Call, st: St, kv, k: K):
        if o.k == "tasks":
            if name == "clear" and not args and not kws:
                return kv(st.copy(ts=f"Src.clear {self.par(st.ts)}"), const(None))
            if name == "add" and len(args) == 1 and args[0].k == "newtask":
                return kv(st.copy(ts=f"Src.addLoopTask {self.par(st.ts)}"), const(None))
            if name == "difference" and len(args) == 1 and args[0].k == "idset":
                return kv(st, V("taskstate", f"Src.remove {args[0].t} {self.par(st.ts)}"))
            if name == "difference_update" and len(args) == 1 and args[0].k == "idset":
                return kv(st.copy(ts=f"Src.remove {args[0].t} {self.par(st.ts)}"), const(None))
            raise Unsupported(f"self._tasks.{name}(…)")
        if o.k == "task":
            if name == "done" and not args and not kws:
                return kv(st, V("bool", f"{o.t}.isDone"))
            if name == "cancel":
                self.params(args, kws, ["msg"], 0, "Task.cancel")
                if st.tf is None:
                    raise Unsupported("task.cancel() outside a loop over self._tasks")
                return kv(st.copy(tf=f"Src.taskCancel {self.par(st.tf)}"), OPAQUE)
            if name == "result" and not args and not kws:
                return Match(f"Src.result {o.t}", [("none", kv(st, OPAQUE)), ("some e", k.raise_(st, Exc("err", "e")))])
            raise Unsupported(f"task.{name}(…)")
        if o.k == "catask":
            if name == "done" and not args and not kws:
                return kv(st, V("bool", f"{self.par(st.ca)}.isDone"))
            if name == "cancel":
                self.params(args, kws, ["msg"], 0, "Task.cancel")
                return kv(st.copy(ca=f"{self.par(st.ca)}.cancel"), OPAQUE)
            if name == "cancelling" and not args and not kws:
                return kv(st, V("nat", f"{self.par(st.ca)}.cancelling"))
            raise Unsupported(f"task.{name}(…)")
        if o.k == "errlist" and name == "append" and len(args) == 1 and args[0].k == "err":
            for nm, v in st.env.items():
                if v == o:
                    return kv(st.bind(nm, V("errlist", f"{o.t} ++ [{args[0].t}]")), const(None))
            raise Unsupported("append to a list that is not a local")
        if o.k in ("group", "optgroup") and name == "split" and len(args) == 1 and args[0].k == "global" \
                and AX.CLASS_ALIASES.get(args[0].t, args[0].t) == "CancelledError":
            return kv(st, V("splitpair", self.par(o.t)))
        if o.k == "delay" and name == "total_seconds" and not args:
            return kv(st, V("seconds", c=o.c))
        raise Unsupported(f"method .{name} of a {o.k}")

    # ---- any(… for task in self._tasks)
    def any_gen(self, g, st: St, kv, k: K, negate_elt: bool = False):
        if len(g.generators) != 1 or g.generators[0].ifs or g.generators[0].is_async or not isinstance(g.generators[0].target, ast.Name):
            raise Unsupported("generator in any()")

        def with_iter(s2, it: V):
            if it.k != "tasks":
                raise Unsupported(f"any() over a {it.k}")
            inner = s2.bind(g.generators[0].target.id, V("task", "t"))
            box = []

            def got(s3, v):
                if not s3.same_effects(inner):
                    raise Unsupported("any(): the element expression changes the state")
                box.append(self.neg(self.truth(v, s3)) if negate_elt else self.truth(v, s3))
                return Leaf("·")
            self.eval(g.elt, inner, got, k)
            if len(box) != 1 or box[0].k == "const":
                raise Unsupported("any(): element expression is not a plain test on the task")
            return kv(s2, V("bool", f"Src.anyMember (fun t => {box[0].t}) {self.par(s2.ts)}"))
        return self.eval(g.generators[0].iter, st, with_iter, k)

    # ---- raise / try
    def raise_stmt(self, s: ast.Raise, st: St, k: K):
        if s.exc is None:
            if st.exc is None:
                raise Unsupported("bare raise outside a handler")
            return k.raise_(st, st.exc)

        def go(s2, v: V):
            if v.k == "group":
                return k.raise_(s2, Exc("group", v.t))
            if v.k == "optgroup":
                return k.raise_(s2, Exc("group", v.t))           # (reached only where it is not None: TypeError otherwise)
            if v.k == "err":
                return k.raise_(s2, Exc("err", v.t))
            raise Unsupported(f"raise of a {v.k}")
        return self.eval(s.exc, st, go, k)

    def try_stmt(self, s: ast.Try, st: St, k: K):
        if s.finalbody:
            raise Unsupported("try/finally")
        clauses = []
        for h in s.handlers:
            if h.type is None:
                classes = ["BaseException"]
            else:
                elts = h.type.elts if isinstance(h.type, ast.Tuple) else [h.type]
                classes = []
                for x in elts:
                    c = AX.CLASS_ALIASES.get(u(x), u(x))
                    if c not in AX.BASES:
                        raise Unsupported(f"`except` clause names {c}")
                    classes.append(c)
            clauses.append((classes, h))

        def handle(s2, ex: Exc):
            def run_handler(h, s3, bound_v):
                s4 = s3.copy(exc=ex)
                if h.name:
                    s4 = s4.bind(h.name, bound_v)
                restore = lambda f: (lambda sx, *a: f(sx.copy(exc=st.exc), *a))          # noqa: E731
                return self.block(h.body, s4, K(normal=restore(k.normal), raise_=k.raise_, ret=k.ret,
                                                 brk=restore(k.brk) if k.brk else None, cont=restore(k.cont) if k.cont else None))
            maybe: set = set()
            if ex.k == "outcome":
                if ex.c not in AX.KIND_CLASS:
                    raise Unsupported("raise of an outcome whose kind is not known at translation time")
                anc = AX._ancestors(AX.KIND_CLASS[ex.c])
                bound_v = OPAQUE
            elif ex.k == "group":
                # BaseExceptionGroup(...) yields an ExceptionGroup when all members are Exceptions: only a clause that
                # catches every BaseExceptionGroup decides independently of the members
                anc = {"BaseExceptionGroup", "BaseException"}
                maybe = {"Exception", "ExceptionGroup"}
                bound_v = V("group", ex.t)
            elif ex.k == "err":
                anc = {"BaseException"}                            # some exception object: only `BaseException` surely catches
                maybe = set(AX.BASES) - anc
                bound_v = V("err", ex.t)
            else:
                raise Unsupported(f"exception {ex.k}")
            for classes, h in clauses:
                if any(c in anc for c in classes):
                    return run_handler(h, s2, bound_v)
                if any(c in maybe for c in classes):
                    raise Unsupported(f"cannot decide at translation time whether `except {', '.join(classes)}` catches the raised {ex.k}")
            return k.raise_(s2, ex)

        body_k = k.but(raise_=handle)
        if s.orelse:
            body_k = body_k.but(normal=lambda s2: self.block(s.orelse, s2, k))
        return self.block(s.body, st, body_k)

    # ---- loops
    def runtime_vars(self, st: St) -> list[tuple[int, str, V]]:
        return [(i, nm, v) for i, f in enumerate(st.frames) for nm, v in f.env.items() if v.k in RUNTIME]

    def while_stmt(self, s: ast.While, st: St, k: K):
        if s.orelse:
            raise Unsupported("while/else")
        # widen the loop-carried locals: constants re-assigned in the body become run-time parameters
        stored = {n.id for b in s.body for n in ast.walk(b) if isinstance(n, ast.Name) and isinstance(n.ctx, ast.Store)}
        stored |= {n.target.id for b in s.body for n in ast.walk(b) if isinstance(n, ast.AugAssign) and isinstance(n.target, ast.Name)}
        st0 = st.copy()
        for nm in stored:
            v = st0.env.get(nm)
            if v is not None and v.k == "const" and isinstance(v.c, int) and not isinstance(v.c, bool) and v.c >= 0:
                st0.frames[-1].env[nm] = V("nat", str(v.c))
        probe = self.cond(s.test, st0, lambda sx: Leaf("T"), lambda sx: Leaf("F"), k)
        if isinstance(probe, Leaf) and probe.t == "F":      # the test is false right away (a flag that was just set)
            return k.normal(st)
        carried = self.runtime_vars(st0)
        pnames, inner = self.abstract(st0, carried)
        entry_names = set(st0.env)                         # (names first bound inside the body are not loop-carried)
        flags = lambda sx: tuple(sorted((nm, v.c) for nm, v in sx.env.items()                                         # noqa: E731
                                        if nm in stored and nm in entry_names and v.k == "const"))
        flags0 = flags(st0)
        mkey = ("loop", id(s), flags0, tuple(pnames), tuple(f.fname for f in st0.frames))
        if mkey in self.memo:                                # this specialisation exists already (or is being generated)
            fname0 = self.memo[mkey]
            if st0.seg == fname0:
                raise Unsupported("a loop iteration that passes no await")
            return Leaf(f"{fname0} " + " ".join(self.par(a) for a in self.fixed_args(st0) + self.carried_args(st0, carried)))
        fname = self.memo[mkey] = self.fresh(f"{self.prefix}_loop")
        sig = self.fixed_params(st0) + [(pn, RUNTIME[v.k]) for pn, (_, _, v) in zip(pnames, carried)]
        call_of = lambda sx: Leaf(f"{fname} " + " ".join(self.par(a) for a in self.fixed_args(sx) + self.carried_args(sx, carried)))  # noqa: E731

        def again(sx):
            if flags(sx) != flags0:
                # a flag re-assigned in the body has another (known) value now: the loop as it is from THAT state
                if self.depth > 10:
                    raise Unsupported("loop flags keep changing")
                self.depth += 1
                try:
                    return self.while_stmt(s, sx, k)
                finally:
                    self.depth -= 1
            if sx.seg == fname:
                raise Unsupported("a loop iteration that passes no await")
            return call_of(sx)
        after = lambda sx: k.normal(sx.copy(seg=None) if sx.seg == fname else sx)      # noqa: E731
        inner = inner.copy(seg=fname)
        if inner.co == "runloop":
            inner = inner.copy(h="h", now="now")
        elif inner.co in ("call", "start"):
            inner = inner.copy(ts="ts", tbl="ts")
        else:
            inner = inner.copy(ca="t")
        loop_k = K(normal=again, raise_=k.raise_, ret=k.ret, brk=after, cont=again)
        body = self.cond(s.test, inner, lambda sx: self.block(s.body, sx, loop_k), after, k)
        self.define(fname, sig, body, f"the `while` loop of `{st.frames[-1].fname}`, from its head to the next await")
        return call_of(st0)

    def carried_args(self, st: St, carried) -> list[str]:
        out = []
        for i, nm, v0 in carried:
            v = st.frames[i].env.get(nm)
            if v is None or (v.k != v0.k and not (v0.k == "nat" and v.k == "const")):
                raise Unsupported(f"loop-carried variable changes its kind: {nm}")
            out.append(str(v.c) if v.k == "const" else v.t)
        return out

    def abstract(self, st: St, carried) -> tuple[list[str], St]:
        """Replace the run-time values by parameter names (same term → same parameter)."""
        s2 = st.copy()
        names, seen = [], {}
        base = {"nat": "n", "errlist": "acc", "bool": "b"}
        for i, nm, v in carried:
            if v.t not in seen:
                k_same = sum(1 for x in seen.values() if x.rstrip("0123456789") == base[v.k])
                seen[v.t] = base[v.k] + ("" if k_same == 0 else str(k_same + 1))
            names.append(seen[v.t])
        for (i, nm, v), pn in zip(carried, names):
            s2.frames[i].env[nm] = V(v.k, pn)
        return names, s2

    def for_stmt(self, s: ast.For, st: St, k: K):
        if s.orelse or not isinstance(s.target, ast.Name):
            raise Unsupported("for/else or a structured loop target")
        return self.eval(s.iter, st, lambda s2, it: self.for_over(s, it, s2, k), k)

    def for_over(self, s: ast.For, it: V, st: St, k: K):
        leaves: list = []

        def cap(kind):
            def f(sx, *a):
                leaves.append((kind, sx, a))
                return Leaf(f"§{len(leaves) - 1}")
            return f
        cap_k = K(normal=cap("normal"), raise_=cap("raise"), ret=cap("ret"), brk=cap("brk"), cont=cap("normal"))
        if it.k == "tasks":
            inner = st.bind(s.target.id, V("task", "t")).copy(tf="t")
            tree = self.block(s.body, inner, cap_k)
            kinds = {kd for kd, _, _ in leaves}
            if kinds <= {"normal"}:
                for _, sx, _ in leaves:
                    if not sx.same_effects(inner, tf=False):
                        raise Unsupported("loop over self._tasks changes something other than the task")
                body = self.subst_leaves(tree, lambda i: Leaf(leaves[i][1].tf))
                return k.normal(st.copy(ts=f"Src.forMembers (fun t => {inline(simp(body))}) {self.par(st.ts)}"))
            if kinds <= {"normal", "ret"}:
                vals = {a[0] for kd, _, a in leaves if kd == "ret"}
                if len(vals) != 1 or next(iter(vals)).k != "const":
                    raise Unsupported("search loop returning different values")
                for _, sx, _ in leaves:
                    if not sx.same_effects(inner):
                        raise Unsupported("search loop with side effects")
                cond = self.tree_bool(tree, lambda i: leaves[i][0] == "ret")
                return Ite(f"Src.anyMember (fun t => {cond}) {self.par(st.ts)}", k.ret(st, next(iter(vals))), k.normal(st))
            raise Unsupported("loop over self._tasks with break / raise")
        if it.k == "idset":
            accs = [(nm, v) for nm, v in st.env.items() if v.k == "errlist"]
            if len(accs) != 1:
                raise Unsupported("loop over the finished tasks needs exactly one list to collect into")
            nm, v0 = accs[0]
            inner = st.bind(s.target.id, V("task", "t")).bind(nm, V("errlist", "a"))
            tree = self.block(s.body, inner, cap_k)
            if {kd for kd, _, _ in leaves} - {"normal"}:
                raise Unsupported("loop over the finished tasks with return / break / raise")
            for _, sx, _ in leaves:
                if not sx.same_effects(inner, ignore=(nm,)):
                    raise Unsupported("loop over the finished tasks changes something other than the list")
            body = self.subst_leaves(tree, lambda i: Leaf(leaves[i][1].env[nm].t))
            term = f"List.foldl (fun a t => {inline(simp(body))}) {self.par(v0.t)} (Src.tasksOf {st.tbl} {it.t})"
            return k.normal(st.bind(nm, V("errlist", term)))
        if it.k == "emptyset":
            return k.normal(st)
        raise Unsupported(f"for over a {it.k}")

    def subst_leaves(self, tree, f):
        if isinstance(tree, Leaf):
            return f(int(tree.t[1:])) if tree.t.startswith("§") else tree
        if isinstance(tree, Ite):
            return Ite(tree.c, self.subst_leaves(tree.a, f), self.subst_leaves(tree.b, f))
        if isinstance(tree, Match):
            return Match(tree.scrut, [(p, self.subst_leaves(b, f)) for p, b in tree.arms])
        raise TypeError(tree)

    def tree_bool(self, tree, pred) -> str:
        if isinstance(tree, Leaf):
            return "true" if pred(int(tree.t[1:])) else "false"
        if isinstance(tree, Ite):
            a, b = self.tree_bool(tree.a, pred), self.tree_bool(tree.b, pred)
            if a == b:
                return a
            if (a, b) == ("true", "false"):
                return tree.c
            if (a, b) == ("false", "true"):
                return tree.c[1:] if tree.c.startswith("!") else f"!{self.par(tree.c)}"
            return f"(if {tree.c} then {a} else {b})"
        raise Unsupported("search loop whose test is not a plain condition")

    # ---- awaits
    def await_(self, e: ast.expr, st: St, kv, k: K):
        def go(s2, a: V):
            if a.k == "awaitable" and a.t == "helper":
                fn, mod, bound, bs = a.c
                return self.invoke(fn, mod, bound, s2, kv, k, bind_self=bs)
            if a.k == "awaitable" and a.t == "sleep" and s2.co == "runloop":
                if a.c.k != "seconds" or a.c.c != self.restart_delay():
                    raise Unsupported("asyncio.sleep of something other than RESTART_DELAY.total_seconds()")
                return self.block_at("sleep", s2, kv, k, e)
            if a.k == "awaitable" and a.t == "run" and s2.co == "runloop":
                return self.block_at("run", s2, kv, k, e)
            if a.k == "awaitable" and a.t == "wait" and s2.co == "call":
                if a.c.k != "tasks":
                    raise Unsupported("asyncio.wait of something other than self._tasks")
                return self.block_at("wait", s2, kv, k, e)
            if a.k == "catask" and s2.co == "caa":
                return self.block_at("task", s2, kv, k, e)
            raise Unsupported(f"await of a {a.k} {a.t}")
        return self.eval(e, st, go, k)

    def block_at(self, role: str, st: St, kv, k: K, node: ast.AST):
        # run-time values the model's frame cannot carry across this await are dropped (an error only if used later)
        keep = {"runloop": ("nat",), "call": ("errlist",), "caa": (), "start": ()}[st.co]
        st = st.copy()
        for f in st.frames:
            for nm, v in list(f.env.items()):
                if v.k in RUNTIME and v.k not in keep:
                    f.env[nm] = V("lost")
        live = self.runtime_vars(st)
        pnames, inner = self.abstract(st, live)
        distinct = list(dict.fromkeys(zip(pnames, [v.k for _, _, v in live], [v.t for _, _, v in live])))
        inner = inner.copy(seg=None, h="h", now="now", ts="ts", tbl="ts", ca="t", exc=None)
        # the same await reached on another path with the same frame: the same continuation
        key = (role, id(node), inner.sig(), tuple(f.fname for f in inner.frames))
        fname = self.memo.get(key)
        known = fname is not None
        if not known:
            fname = self.memo[key] = self.fresh(f"{self.prefix}_after_{role}")
        if st.co == "runloop":
            if [kd for _, kd, _ in distinct] != ["nat"]:
                raise Unsupported(f"frame at the await of {role}: {[kd for _, kd, _ in distinct]} (the model keeps the restart counter only)")
            n_arg = distinct[0][2]
            if role == "sleep":
                leaf = Leaf(f"(.delay {self.par(n_arg)} ({st.now} + {self.restart_delay()}), {st.h})")
                inner = inner.copy(h="h", now="now")
                body = lambda: Ite("cancelled", k.raise_(inner, Exc("outcome", ".cancelled", "cancelled")), kv(inner, const(None)))
                sig = [("limit", "Option Nat"), ("n", "Nat"), ("cancelled", "Bool"), ("now", "Int"), ("h", "List HEv")]
                doc = "resumed when `asyncio.sleep(RESTART_DELAY)` is over (`cancelled`: the task was cancelled meanwhile)"
            else:
                leaf = Leaf(f"(.running {self.par(n_arg)}, .enter {self.par(n_arg)} {st.now} :: {st.h})")
                inner = inner.copy(h="h1", now="now")
                body = lambda: Let("h1", ".exit n o now :: h", self.match_outcome(inner, kv, k))
                sig = [("limit", "Option Nat"), ("n", "Nat"), ("o", "Outcome"), ("now", "Int"), ("h", "List HEv")]
                doc = "resumed when `await self._run()` has ended with outcome `o` (`.ret`: it returned)"
        elif st.co == "call":
            kinds = [kd for _, kd, _ in distinct]
            if kinds not in ([], ["errlist"]):
                raise Unsupported(f"frame at asyncio.wait: {kinds} (the model keeps the collected exceptions only)")
            if not distinct:
                raise Unsupported("asyncio.wait before the list of exceptions exists")
            leaf = Let("ts1", st.ts, Leaf(f".blocked ts1 (Src.snapshot ts1) {self.par(distinct[0][2])}"))
            inner = inner.copy(ts="ts", tbl="ts")
            body = lambda: kv(inner, V("waitresult", "batch"))
            sig = [("batch", "List Nat"), ("ts", "List Tsk"), ("acc", ERR_T)]
            doc = "resumed when `asyncio.wait(batch)` returns (`ts`: the task table as it is then)"
        else:
            if distinct:
                raise Unsupported("frame at `await task`")
            leaf = Leaf(f"({st.ca}, .blocked)")
            inner = inner.copy(ca="t")
            body = lambda: self.match_outcome(inner, kv, k)
            sig = [("t", "CA.Task"), ("o", "Outcome")]
            doc = "resumed when `await task` ends with the task's outcome `o`"
        if not known:
            self.define(fname, sig, body(), doc)
        return leaf

    def match_outcome(self, st: St, kv, k: K):
        """What the awaited `_run()` / task ended with: it returned, or raised an error of one of the kinds."""
        arms = [(".ret", kv(st, const(None)))]
        for kind in ("exc", "baseExc", "cancelled", "excGroup", "baseGroup"):
            arms.append((f".{kind}", k.raise_(st, Exc("outcome", f".{kind}", kind))))
        return Match("o", arms)

    # ---- functions
    def fixed_params(self, st: St) -> list[tuple[str, str]]:
        return {"runloop": [("limit", "Option Nat"), ("now", "Int"), ("h", "List HEv")], "call": [("ts", "List Tsk")],
                "start": [("ts", "List Tsk")], "caa": [("t", "CA.Task")]}[st.co]

    def fixed_args(self, st: St) -> list[str]:
        return {"runloop": ["limit", st.now, st.h], "call": [st.ts], "start": [st.ts], "caa": [st.ca]}[st.co]

    def define(self, name: str, sig: list[tuple[str, str]], body, doc: str):
        ret = {"runloop": "Phase × List HEv", "call": "Src.CallRes", "start": "List Tsk", "caa": "CA.Task × Src.CaRes"}[self.co]
        # fixed params first, in a canonical order, without duplicates
        seen, ps = set(), []
        for pn, ty in sig:
            if pn not in seen:
                seen.add(pn)
                ps.append(f"({pn} : {ty})")
        text = f"/-- {doc}. -/\ndef {name} " + " ".join(ps) + f" : {ret} :=\n" + render(simp(body), 1)
        self.defs.append((name, doc, text))

    def final_k(self, co: str) -> K:
        if co == "runloop":
            return K(normal=lambda s: Leaf(f"(.done .ret, {s.h})"), ret=lambda s, v: Leaf(f"(.done .ret, {s.h})"),
                     raise_=lambda s, ex: self.runloop_raise(s, ex))
        if co == "call":
            def rz(s, ex):
                if ex.k != "group":
                    raise Unsupported(f"wait()/stop() raises a {ex.k}")
                return Leaf(f".finished {self.par(s.ts)} {self.par(ex.t)}")
            return K(normal=lambda s: Leaf(f".finished {self.par(s.ts)} []"), ret=lambda s, v: Leaf(f".finished {self.par(s.ts)} []"), raise_=rz)
        if co == "start":
            def no(s, ex):
                raise Unsupported("start() raises")
            return K(normal=lambda s: Leaf(s.ts), ret=lambda s, v: Leaf(s.ts), raise_=no)
        def cz(s, ex):
            if ex.k != "outcome":
                raise Unsupported(f"cancel_and_await raises a {ex.k}")
            return Leaf(f"({s.ca}, .returned (some {ex.t}))")
        return K(normal=lambda s: Leaf(f"({s.ca}, .returned none)"), ret=lambda s, v: Leaf(f"({s.ca}, .returned none)"), raise_=cz)

    def runloop_raise(self, s: St, ex: Exc):
        if ex.k != "outcome":
            raise Unsupported(f"_run_loop raises a {ex.k}")
        return Leaf(f"(.done {ex.t}, {s.h})")

    def function(self, co: str, prefix: str, fn, mod, doc: str, self_bound: bool = True, extra_env: dict | None = None):
        self.co, self.prefix = co, prefix
        env = dict(extra_env or {})
        if self_bound:
            env[fn.args.args[0].arg] = V("self")
        # remaining parameters: defaults (`msg=None`) or opaque
        names = [a.arg for a in fn.args.args[1 if self_bound else 0:]] + [a.arg for a in fn.args.kwonlyargs]
        for nm in names:
            env.setdefault(nm, OPAQUE)
        st = St(frames=[Frame(env, mod, fn.name)], co=co)
        if co == "runloop":
            st = st.copy(h="h", now="now")
        elif co in ("call", "start"):
            st = st.copy(ts="ts", tbl="ts")
        else:
            st = st.copy(ca="t")
        body = self.block(fn.body, st, self.final_k(co))
        self.define(f"{prefix}_entry", self.fixed_params(st), body, doc)


# ----------------------------------------------------------------------------- driver
def _cls(tree: ast.Module, name: str) -> ast.ClassDef:
    for n in tree.body:
        if isinstance(n, ast.ClassDef) and n.name == name:
            return n
    raise Unsupported(f"class {name} not found")


def _order(defs: list[tuple[str, str, str]]) -> list[str]:
    """Definitions before their uses."""
    names = [d[0] for d in defs]
    text = {d[0]: d[2] for d in defs}
    done: list[str] = []

    def visit(n: str, stack=()):
        if n in done:
            return
        if n in stack:
            raise Unsupported(f"recursive translation: {n}")
        body = text[n].split(":=\n", 1)[1]
        for m in names:
            if m != n and _word_in(m, body):
                visit(m, stack + (n,))
        done.append(n)
    for n in names:
        visit(n)
    return [text[n] for n in done]


def _word_in(word: str, text: str) -> bool:
    import re
    return re.search(rf"(?<![\w.]){re.escape(word)}(?![\w])", text) is not None


def generate(repo: pathlib.Path) -> str:
    AX._check_hierarchy()
    t_actor = _parse((repo / SOURCES[0]).read_text())
    t_svc = _parse((repo / SOURCES[1]).read_text())
    t_aio = _parse((repo / SOURCES[2]).read_text())
    actor, svc = _cls(t_actor, "Actor"), _cls(t_svc, "BackgroundService")
    chain = [(actor, t_actor), (svc, t_svc)]
    parts: list[str] = []

    def section(title: str, tr: Tr):
        parts.append(f"/-! ### {title} -/\n\n" + "\n\n".join(_order(tr.defs)))

    tr = Tr(chain)
    fn, mod = tr.method("_run_loop")
    tr.function("runloop", "run_loop", fn, mod, "`Actor._run_loop` from its entry to the first await (`h`: the ghost history so far)")
    section("`Actor._run_loop` (with `_delay_if_restart` and every other helper it calls)", tr)

    tr = Tr(chain)
    fn, mod = tr.method("start")
    tr.function("start", "start", fn, mod, "`Actor.start()` (with `is_running`) on the task table")
    section("`Actor.start`", tr)

    for name in ("wait", "stop"):
        tr = Tr([(svc, t_svc)])
        fn, mod = tr.method(name)
        tr.function("call", name, fn, mod, f"`BackgroundService.{name}()` from its entry to the first `asyncio.wait` (or its end)")
        section(f"`BackgroundService.{name}` (with `_wait_all`, `cancel` and every other helper it calls)", tr)

    tr = Tr([])
    fn = tr.modfn(t_aio, "cancel_and_await")
    if fn is None:
        raise Unsupported("cancel_and_await not found")
    tr.function("caa", "caa", fn, t_aio, "`cancel_and_await(task)` from its entry to `await task` (or its end)", self_bound=False,
                extra_env={fn.args.args[0].arg: V("catask")})
    section("`_internal._asyncio.cancel_and_await`", tr)

    # run(*actors): what it does to EACH actor before it starts waiting (the body of its loop over `actors`)
    t_run = _parse((repo / SOURCES[3]).read_text())
    tr = Tr(chain)
    fn = tr.modfn(t_run, "run")
    if fn is None or fn.args.vararg is None or fn.args.args or fn.args.kwonlyargs:
        raise Unsupported("run(*actors) not found")
    va = fn.args.vararg.arg

    def mentions_start(nodes, seen=()) -> bool:
        for b in nodes:
            for x in ast.walk(b):
                if isinstance(x, ast.Attribute) and x.attr == "start":
                    return True
                if isinstance(x, ast.Call) and isinstance(x.func, ast.Name) and x.func.id not in seen:
                    g = tr.modfn(t_run, x.func.id)
                    if g is not None and mentions_start(g.body, seen + (x.func.id,)):
                        return True
        return False
    loops = [x for x in fn.body if isinstance(x, ast.For) and isinstance(x.iter, ast.Name) and x.iter.id == va
             and mentions_start(x.body)]
    if len(loops) != 1 or not isinstance(loops[0].target, ast.Name) or loops[0].orelse:
        raise Unsupported("run(): expected one `for actor in actors:` loop that starts the actors")
    # every `asyncio.create_task(X.wait(…))` must sit in a loop / comprehension over `actors` whose variable is X
    n_waits = 0

    def scan(node, bound: tuple):
        nonlocal n_waits
        if isinstance(node, (ast.For, ast.AsyncFor)) and isinstance(node.iter, ast.Name) and node.iter.id == va and isinstance(node.target, ast.Name):
            for ch in node.body:
                scan(ch, bound + (node.target.id,))
            for ch in node.orelse:
                scan(ch, bound)
            return
        if isinstance(node, (ast.SetComp, ast.ListComp, ast.GeneratorExp)):
            inner = bound
            for gnr in node.generators:
                if isinstance(gnr.iter, ast.Name) and gnr.iter.id == va and isinstance(gnr.target, ast.Name) and not gnr.ifs:
                    inner = inner + (gnr.target.id,)
            scan(node.elt, inner)
            return
        if isinstance(node, ast.Call) and u(node.func) in ("asyncio.create_task", "create_task", "asyncio.ensure_future") and node.args \
                and isinstance(node.args[0], ast.Call) and isinstance(node.args[0].func, ast.Attribute) and node.args[0].func.attr == "wait":
            subj = node.args[0].func.value
            if not (isinstance(subj, ast.Name) and bound and subj.id == bound[-1]) or node.args[0].args or node.args[0].keywords:
                raise Unsupported(f"run(): `{u(node)[:60]}` does not wait for the actor its loop is at")
            n_waits += 1
        for ch in ast.iter_child_nodes(node):
            scan(ch, bound)
    for x in fn.body:
        scan(x, ())
    if n_waits != 1:
        raise Unsupported("run(): expected exactly one place that creates the wait() tasks, one per actor")
    before = fn.body[: fn.body.index(loops[0])]
    if any(not (isinstance(x, ast.Expr) and (isinstance(x.value, ast.Constant) or (isinstance(x.value, ast.Call) and is_log(x.value))))
           and not (isinstance(x, ast.Assign) and all(isinstance(c.func, ast.Name) and c.func.id == "len" for c in ast.walk(x.value) if isinstance(c, ast.Call)))
           for x in before):
        raise Unsupported("run(): statements with effects before the loop over the actors")
    tr.co, tr.prefix = "start", "run_start"
    st0 = St(frames=[Frame({loops[0].target.id: V("self")}, t_run, "run")], co="start", ts="ts", tbl="ts")
    leaf_ts = lambda sx: Leaf(sx.ts)            # noqa: E731

    def bad(*_a):
        raise Unsupported("run(): the loop over the actors leaves early")
    body = tr.block(loops[0].body, st0, K(normal=leaf_ts, raise_=bad, ret=bad, brk=bad, cont=leaf_ts))
    tr.define("run_start_one", [("ts", "List Tsk")], body,
              "`run(*actors)`: the body of its `for actor in actors:` loop, on the task table of that actor")
    tr.defs.append(("run_waits_for", "", "/-- `run(*actors)` creates one `wait()` task per actor given: for the actor at position `a` it awaits … -/\n"
                    "def run_waits_for (a : Nat) : Nat :=\n  a"))
    section("`run(*actors)`: starting each actor, and which actor each of its `wait()` tasks waits for", tr)

    head = ("import Frequenz.Model.Actor\n\n/-!\nSegments of the coroutines of `actor/_actor.py`, `actor/_background_service.py`, `_internal/_asyncio.py`, translated\n"
            "statement by statement (scheme: docstring of `tools/extractors/actor_loops.py`; vocabulary: `Actor.Src` in\n"
            "`Frequenz/Model/Actor.lean`).\n-/\n\nset_option linter.unusedVariables false\n\nopen Actor\n\nnamespace Extracted.ActorLoops\n\n")
    return head + "\n\n".join(parts) + "\n\nend Extracted.ActorLoops\n"
