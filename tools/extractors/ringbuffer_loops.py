"""`_ringbuffer/buffer.py` (+ `MovingWindow.at`) -> Lean, WHOLE METHOD BODIES (`Extracted/RingBufferLoops.lean`, C09).

`ringbuffer.py` / `ringbuffer_query.py` translate the conditions and constructed values of each method and pin the rest
by patterns; the model that hangs on them is hand-written.  This extractor translates the methods themselves,
statement by statement, from the current source text, so that the hand-written model can be PROVED equal to the
source (`Lemmas/RingBufferTie.lean`, `C09_model_is_source`).

Front-end: every method is first brought into the behaviour-preserving normal form of `_rb_common.normalize`
(renamed locals, reordered independent statements, guard clauses vs nested ifs, `match`, loops vs comprehensions, inlined
private helpers and locals, a case split on flag parameters … all give one form), and its parameters / locals are renamed
by position (`p0 …`, `v0 …`), so that behaviour-preserving rewrites of the Python give the same Lean text.

Back-end: a small compiler for the imperative subset these methods use.

* Values carry a static kind: `Int` (ints, datetimes and timedeltas: the code only adds, subtracts, compares, floor-divides
  them — the unit is whatever the caller uses: microseconds, or slot numbers with `period = 1`), `Bool`, `Gap` (a pair
  `start × end`), lists of gaps, the container (a list of optional values, `none` = NaN), optional values of these.
* The object state is threaded: a method becomes a function of the configuration constants and the fields it (or a
  method it calls) reads, and returns the fields it (or a callee) writes (then its value, if any).  Calls of other
  translated methods are calls of their translations.
* `Gap` objects live in the list `self._gaps` and are mutated in place through aliases (`w_1 = self._gaps[i]`,
  `gap` found by `enumerate`).  An alias is translated as the INDEX it was taken from: reads go to the current list,
  `alias.start = e` is `list.set`.  That is exact as long as the list is not restructured (`del`, `sorted`) between
  taking the alias and using it; the compiler tracks this and refuses a use of a stale alias.  `deepcopy(alias)` is a
  value of its own.  Indices are non-negative in all these methods (`i = 0 … += 1`, `enumerate`, `x % maxlen`, slices
  clamped with `max(…, 0)`), Python's negative-index convention is not modelled.
* Statement sequences are translated in continuation-passing style: what follows an `if` is translated in every branch
  that goes on.  `while` becomes a recursive function over its loop-carried variables with one unit of fuel per iteration
  (`Lemmas/RingBufferTie.lean` proves the equality with the model for EVERY fuel, the model's sufficiency theorem then
  applies); `for x in <list>` becomes a fold.  `any` / `sum` / `min` / `next(… enumerate …)` over generators are the
  list operations they mean.
* A method that can raise (`IndexError`, `ValueError`) returns an `Option` (`none` = raised); a call of such a method is
  bound before the statement that contains it (it is side-effect free), `none` propagates.
* Trusted spellings (as in the model, see `harness/props.d/C09.json`): `sorted(gaps, key=start)` is the stable insertion
  sort `sortGaps`; `timedelta / 2` is `halfPeriod`; `round(a.total_seconds() / b.total_seconds())` is the exact `a / b`
  (the timestamp is normalised first); `slice(a, b).indices(n)[:2]` is `sliceIndices`; list / numpy slicing and slice
  assignment are `take` / `drop` / `setRange`; `np.nan`, a `None` value and a NaN quantity are `none`.
* Translated (entry points and everything they call): `Gap.contains`, `is_missing`, `_remove_gap`, `_cleanup_gaps`,
  `_update_gaps`, `normalize_timestamp`, `has_value`, `update`, `maxlen`, `wrap`, `to_internal_index`, `count_valid`,
  `oldest_timestamp`, `newest_timestamp`, `_covered_time_range`, `count_covered`, `get_timestamp`, `_to_covered_indices`,
  `_wrapped_buffer_window`, `_fill_gaps`, `window` (two instances: both bounds datetimes / both indices-or-None; the
  `isinstance(…, datetime)` dispatch is decided by the kinds), `MovingWindow.at` (datetime key / int key).
  `updateAbs` is `update` with `_update_gaps` as a function PARAMETER: the tie runs it on microsecond timestamps and pins
  the arguments of that call (on slot numbers `normalize_timestamp` is the identity).
* Not modelled: copy vs view of the returned window (`deepcopy(x)` is `x`), Python's negative indices, `min()` of an empty
  generator (0), the `TypeError` of arithmetic on a `None` that the source excludes with `assert … is not None`.
Anything else raises `py2lean.Unsupported`.
"""
import ast
import copy
import pathlib
import sys
from dataclasses import dataclass, field

sys.path.insert(0, str(pathlib.Path(__file__).resolve().parent))
sys.path.insert(0, str(pathlib.Path(__file__).resolve().parent.parent))
import _rb_common as C  # noqa: E402
from py2lean import Unsupported  # noqa: E402

NAME = "RingBufferLoops"
SOURCES = [
    "src/frequenz/sdk/timeseries/_ringbuffer/buffer.py",
    "src/frequenz/sdk/timeseries/_moving_window.py",
]

# configuration constants (never assigned after `__init__`) and mutable fields of `OrderedRingBuffer`
CONFIG = {"_sampling_period": "period", "_full_time_range": "fullRange", "_time_index_alignment": "align",
          "_TIMESTAMP_MAX": "tsMax", "_TIMESTAMP_MIN": "tsMin", "__islist__": "isList"}
CONFIG_TYPE = {"__islist__": "Bool"}     # (`isinstance(<container>, list)`: list or numpy array; the others are Int)
FIELDS = {"_gaps": ("gaps", "GapList"), "_timestamp_newest": ("selfNewest", "Int"),
          "_timestamp_oldest": ("selfOldest", "Int"), "_buffer": ("buffer", "Buf")}
FIELD_ORDER = ["_buffer", "_gaps", "_timestamp_newest", "_timestamp_oldest"]
LEAN_TYPE = {"Int": "Int", "Idx": "Int", "Bool": "Bool", "Gap": "Gap", "GapList": "List Gap", "Buf": "List (Option α)",
             "Val": "Option α", "Alpha": "α", "Fill": "Option (Option α)", "IntPair": "Int × Int"}
GENERIC_KINDS = {"Buf", "Val", "Alpha", "Fill", "Sample"}
# `Idx`: a Python int that is not a datetime (an index); `Int`: datetimes, timedeltas and everything computed from them.
# `Val`: what a slot holds (`none` = NaN); `Fill`: the `fill_value` argument (`none` = None: no filling);
# `Sample`: expands to its timestamp, `value is None`, `value.isnan()`, `value.base_value`.
# properties that are one `return self.<field>` (resolved from the source, see `_Class.simple_property`)


def lean_type(k) -> str:
    if isinstance(k, tuple) and k[0] == "opt":
        return f"Option ({lean_type(k[1])})"
    return LEAN_TYPE[k]


# ------------------------------------------------------------------------------------------------ Lean term tree
@dataclass
class Leaf:
    text: str


@dataclass
class Let:
    name: str
    value: str
    body: object


@dataclass
class If:
    cond: str
    a: object
    b: object


@dataclass
class MatchOpt:
    scrut: str
    none: object
    name: str
    some: object


def show(n, ind: int) -> list[str]:
    pad = "  " * ind
    if isinstance(n, Leaf):
        return [pad + n.text]
    if isinstance(n, Let):
        return [f"{pad}let {n.name} := {n.value}"] + show(n.body, ind)
    if isinstance(n, If):
        out = [f"{pad}if {n.cond} then"] + show(n.a, ind + 1)
        if isinstance(n.b, If):
            rest = show(n.b, ind)
            return out + [pad + "else " + rest[0].lstrip()] + rest[1:]
        return out + [pad + "else"] + show(n.b, ind + 1)
    if isinstance(n, MatchOpt):
        return ([f"{pad}match {n.scrut} with", f"{pad}| none =>"] + show(n.none, ind + 1)
                + [f"{pad}| some {n.name} =>"] + show(n.some, ind + 1))
    raise AssertionError(n)


# ------------------------------------------------------------------------------------------------ environment
@dataclass
class Ref:
    """An alias of `self._gaps[index]` (present iff `cond`, a Lean Prop text, when optional)."""
    index: str
    cond: str | None
    epoch: int


@dataclass
class Env:
    vars: dict = field(default_factory=dict)      # python name -> (lean text, kind) | Ref
    fields: dict = field(default_factory=dict)    # field attr -> lean text of its current value
    epoch: int = 0                                # bumped when `self._gaps` is restructured

    def fork(self) -> "Env":
        return Env(dict(self.vars), dict(self.fields), self.epoch)


@dataclass
class FnInfo:
    name: str                 # Lean name
    cls: str
    py: str
    fn: ast.FunctionDef
    params: list[tuple[str, object]]     # (lean name, kind) of the python parameters (without self)
    config: list[str]         # CONFIG attrs used (transitively)
    reads: list[str]          # fields read or written (transitively), in FIELD_ORDER
    writes: list[str]         # fields written (transitively)
    raises: bool
    ret: object | None        # kind of the returned value (None: procedure)
    generic: bool             # mentions α
    fuel: bool                # contains (or calls something containing) a `while`
    text: str = ""
    optional: bool = False    # some paths return a value, others None: the value is wrapped in `Option`
    abstract: list = field(default_factory=list)   # callees (python names) that are function parameters


class Compiler:
    def __init__(self, repo: pathlib.Path):
        self.trees = {"OrderedRingBuffer": ast.parse((repo / SOURCES[0]).read_text()),
                      "MovingWindow": ast.parse((repo / SOURCES[1]).read_text())}
        self.trees["Gap"] = self.trees["OrderedRingBuffer"]
        C.PEERS["_buffer"] = next(c for c in self.trees["OrderedRingBuffer"].body
                                  if isinstance(c, ast.ClassDef) and c.name == "OrderedRingBuffer")
        self.fns: dict[tuple[str, str], FnInfo] = {}
        self.order: list[FnInfo] = []
        self.aux: list[str] = []
        self.counter = 0
        self.durations: set[str] = set()
        self.stack: list[tuple[str, str]] = []

    # ---------------------------------------------------------------------------------------- sources
    def source(self, cls: str, name: str) -> ast.FunctionDef:
        try:
            fn = C.find_method(self.trees[cls], cls, name)
        except C.Bad as e:
            raise Unsupported(str(e)) from e
        return self.rename_apart(fn)

    @staticmethod
    def rename_apart(fn: ast.FunctionDef) -> ast.FunctionDef:
        """Parameters `p0 …`, other locals `v0 …` in order of first binding (the normal form does not depend on names)."""
        params = [a.arg for a in fn.args.posonlyargs + fn.args.args + fn.args.kwonlyargs if a.arg != "self"]
        mapping = {p: f"p{i}" for i, p in enumerate(params)}
        k = 0
        for n in C._bound_names(fn):
            if n != "self" and n not in mapping:
                mapping[n] = f"v{k}"
                k += 1
        tmp = {a: f"__t{i}" for i, a in enumerate(mapping)}
        fin = {f"__t{i}": mapping[a] for i, a in enumerate(mapping)}
        return C._rename(C._rename(fn, tmp), fin)

    def has_method(self, cls: str, name: str) -> bool:
        for c in self.trees[cls].body:
            if isinstance(c, ast.ClassDef) and c.name == cls:
                return any(isinstance(f, ast.FunctionDef) and f.name == name for f in c.body)
        return False

    def is_property(self, cls: str, name: str) -> bool:
        for c in self.trees[cls].body:
            if isinstance(c, ast.ClassDef) and c.name == cls:
                for f in c.body:
                    if isinstance(f, ast.FunctionDef) and f.name == name:
                        return any(ast.unparse(d) == "property" for d in f.decorator_list)
        return False

    def fresh(self, stem: str) -> str:
        self.counter += 1
        return f"{stem}_{self.counter}"

    # ---------------------------------------------------------------------------------------- signatures
    PARAM_KINDS = {
        ("Gap", "contains", ""): ["Int"],
        ("OrderedRingBuffer", "is_missing", ""): ["Int"],
        ("OrderedRingBuffer", "_remove_gap", ""): ["Int"],
        ("OrderedRingBuffer", "_cleanup_gaps", ""): [],
        ("OrderedRingBuffer", "_update_gaps", ""): ["Int", "Int", "Bool"],
        ("OrderedRingBuffer", "normalize_timestamp", ""): ["Int"],
        ("OrderedRingBuffer", "has_value", ""): ["Sample"],
        ("OrderedRingBuffer", "update", ""): ["Sample"],
        ("OrderedRingBuffer", "update", "Abs"): ["Sample"],
        ("OrderedRingBuffer", "wrap", ""): ["Int"],
        ("OrderedRingBuffer", "maxlen", ""): [],
        ("OrderedRingBuffer", "to_internal_index", ""): ["Int", "Bool"],
        ("OrderedRingBuffer", "count_valid", ""): [],
        ("OrderedRingBuffer", "oldest_timestamp", ""): [],
        ("OrderedRingBuffer", "newest_timestamp", ""): [],
        ("OrderedRingBuffer", "_covered_time_range", ""): [],
        ("OrderedRingBuffer", "count_covered", ""): [],
        ("OrderedRingBuffer", "get_timestamp", ""): ["Idx"],
        ("OrderedRingBuffer", "_to_covered_indices", ""): [("opt", "Idx"), ("opt", "Idx")],
        ("OrderedRingBuffer", "_wrapped_buffer_window", ""): ["Buf", "Int", "Int", "Bool"],
        ("OrderedRingBuffer", "_fill_gaps", ""): ["Buf", "Val", "Int", "GapList"],
        ("OrderedRingBuffer", "window", "Dt"): ["Int", "Int", "Bool", "Fill"],
        ("OrderedRingBuffer", "window", "Idx"): [("opt", "Idx"), ("opt", "Idx"), "Bool", "Fill"],
        ("MovingWindow", "at", "Ts"): ["Int"],
        ("MovingWindow", "at", "Idx"): ["Idx"],
    }

    # Variants in which a callee is a PARAMETER (a function of the callee's translated type): the tie then pins which
    # values the method hands to it — in microseconds, where `normalize_timestamp` is not the identity.
    ABSTRACT = {("OrderedRingBuffer", "update", "Abs"): ["_update_gaps"]}

    def info(self, cls: str, name: str, variant: str = "") -> FnInfo:
        key = (cls, name, variant)
        if key in self.fns:
            return self.fns[key]
        if key in self.stack:
            raise Unsupported(f"recursive call of {cls}.{name}")
        if key not in self.PARAM_KINDS:
            raise Unsupported(f"{cls}.{name} is not one of the translated methods")
        self.stack.append(key)
        fn = self.source(cls, name)
        a = fn.args
        if a.vararg or a.kwarg or a.posonlyargs:
            raise Unsupported(f"{cls}.{name}: parameters")
        pnames = [x.arg for x in a.args + a.kwonlyargs if x.arg != "self"]
        kinds = self.PARAM_KINDS[key]
        if len(pnames) != len(kinds):
            raise Unsupported(f"{cls}.{name}: {len(pnames)} parameters, {len(kinds)} expected")
        fi = FnInfo(name=lean_name(name) + variant, cls=cls, py=name, fn=fn, params=list(zip(pnames, kinds)), config=[],
                    reads=[], writes=[], raises=False, ret=None, generic=False, fuel=False)
        fi.optional = self.optional_result(fn)
        fi.abstract = list(self.ABSTRACT.get(key, []))
        self.scan(fi)
        if any(k in GENERIC_KINDS for _, k in fi.params):
            fi.generic = True
        self.fns[key] = fi
        self.emit(fi)
        self.order.append(fi)
        self.stack.pop()
        return fi

    @staticmethod
    def optional_result(fn: ast.FunctionDef) -> bool:
        """Does the function return a value on some paths and fall off its end (or `return`) on others?"""
        def falls(stmts: list[ast.stmt]) -> bool:
            if not stmts:
                return True
            last = stmts[-1]
            if isinstance(last, ast.Raise):
                return False
            if isinstance(last, ast.Return):
                return last.value is None
            if isinstance(last, ast.If):
                return falls(last.body) or falls(last.orelse)
            return True
        has_value = any(isinstance(n, ast.Return) and n.value is not None for n in ast.walk(fn))
        bare = any(isinstance(n, ast.Return) and n.value is None for n in ast.walk(fn))
        return has_value and (falls(fn.body) or bare)

    def scan(self, fi: FnInfo) -> None:
        """Configuration constants, fields read / written, raising, fuel: syntactically, closed under calls."""
        config, reads, writes = set(), set(), set()
        funcs = {id(n.func) for n in ast.walk(fi.fn) if isinstance(n, ast.Call)}
        for n in ast.walk(fi.fn):
            if isinstance(n, ast.Raise):
                fi.raises = True
            if isinstance(n, ast.While):
                fi.fuel = True
            if isinstance(n, ast.Call) and C._call_name(n) == "isinstance" and len(n.args) == 2 \
                    and ast.unparse(n.args[1]) in ("list", "np.ndarray"):
                config.add("__islist__")
            if isinstance(n, ast.Attribute) and isinstance(n.value, ast.Name) and n.value.id == "self" and id(n) not in funcs:
                at = self.resolve_attr(fi.cls, n.attr)
                if fi.cls == "MovingWindow":
                    if at == "_buffer":
                        continue                  # the ring buffer object: see `callee_of` / the subscript below
                    raise Unsupported(f"MovingWindow attribute self.{n.attr}")
                if at in CONFIG:
                    config.add(at)
                elif at in FIELDS:
                    reads.add(at)
                    if isinstance(n.ctx, (ast.Store, ast.Del)):
                        writes.add(at)
            if isinstance(n, ast.Subscript) and fi.cls == "MovingWindow" and ast.unparse(n.value) == "self._buffer":
                reads.add("_buffer")
            callee = self.callee_of(fi.cls, n, funcs)
            if callee is not None:
                ci = self.info(*callee)
                config |= set(ci.config)
                reads |= set(ci.reads)
                writes |= set(ci.writes)
                fi.raises = fi.raises or ci.raises
                fi.fuel = fi.fuel or ci.fuel
                fi.generic = fi.generic or ci.generic
        # in-place changes of the gap list / the container
        for n in ast.walk(fi.fn):
            if isinstance(n, ast.Call) and isinstance(n.func, ast.Attribute) and n.func.attr == "append" \
                    and ast.unparse(n.func.value) == "self._gaps":
                writes.add("_gaps")
            if isinstance(n, (ast.Delete,)):
                for t in n.targets:
                    if isinstance(t, ast.Subscript) and ast.unparse(t.value) == "self._gaps":
                        writes.add("_gaps")
            if isinstance(n, ast.Subscript) and isinstance(n.ctx, ast.Store) and ast.unparse(n.value) == "self._buffer":
                writes.add("_buffer")
            if isinstance(n, ast.Attribute) and isinstance(n.ctx, ast.Store) and n.attr in ("start", "end") \
                    and "_gaps" in reads:
                writes.add("_gaps")       # (through an alias of an element; refined by the translation itself)
        fi.config = [c for c in CONFIG if c in config]
        fi.reads = [f for f in FIELD_ORDER if f in reads | writes]
        fi.writes = [f for f in FIELD_ORDER if f in writes]
        if "_buffer" in fi.reads:
            fi.generic = True

    def resolve_attr(self, cls: str, attr: str) -> str:
        """`self.gaps` / `self.time_bound_oldest` / … -> the field a one-line property returns."""
        if attr in CONFIG or attr in FIELDS:
            return attr
        if cls == "OrderedRingBuffer" and self.is_property(cls, attr) and (cls, attr, "") not in self.PARAM_KINDS:
            for c in self.trees[cls].body:
                if isinstance(c, ast.ClassDef) and c.name == cls:
                    for f in c.body:
                        if isinstance(f, ast.FunctionDef) and f.name == attr:
                            body = C.normalize(f, C._Scope(self.trees[cls], c)).body
                            if len(body) == 1 and isinstance(body[0], ast.Return) and isinstance(body[0].value, ast.Attribute) \
                                    and ast.unparse(body[0].value.value) == "self":
                                return self.resolve_attr(cls, body[0].value.attr)
        return attr

    def callee_of(self, cls: str, n: ast.AST, funcs: set | None = None):
        """The translated method / property that the node calls / reads, as a key of `PARAM_KINDS`."""
        rb = "OrderedRingBuffer"
        if isinstance(n, ast.Call) and isinstance(n.func, ast.Attribute):
            base = ast.unparse(n.func.value)
            if base == "self" and (cls, n.func.attr, "") in self.PARAM_KINDS and not self.is_property(cls, n.func.attr):
                return cls, n.func.attr, ""
            if cls == "MovingWindow" and base == "self._buffer" and (rb, n.func.attr, "") in self.PARAM_KINDS:
                return rb, n.func.attr, ""
            if n.func.attr == "contains":
                return "Gap", "contains", ""
        if isinstance(n, ast.Attribute) and isinstance(n.ctx, ast.Load) and (funcs is None or id(n) not in funcs):
            base = ast.unparse(n.value)
            if base == "self" and cls == rb and (rb, n.attr, "") in self.PARAM_KINDS and self.is_property(rb, n.attr):
                return rb, n.attr, ""
            if cls == "MovingWindow" and base == "self._buffer" and (rb, n.attr, "") in self.PARAM_KINDS \
                    and self.is_property(rb, n.attr):
                return rb, n.attr, ""
        return None

    # ---------------------------------------------------------------------------------------- emission of one method
    def signature(self, fi: FnInfo) -> tuple[str, str]:
        ps = [f"({CONFIG[c]} : {CONFIG_TYPE.get(c, 'Int')})" for c in fi.config]
        for a in fi.abstract:
            ci = self.info(fi.cls, a)
            doms = [CONFIG_TYPE.get(c, "Int") for c in ci.config] + [lean_type(FIELDS[f][1]) for f in ci.reads] \
                + [lean_type(k) for _, k in ci.params]
            cod = " × ".join(lean_type(FIELDS[f][1]) for f in ci.writes) or "Unit"
            ps.append(f"(abs_{ci.name} : " + " → ".join(doms + [cod]) + ")")
        for f in fi.reads:
            ps.append(f"({FIELDS[f][0]} : {lean_type(FIELDS[f][1])})")
        if fi.cls == "Gap":
            ps.append("(start end_ : Int)")
        for p, k in fi.params:
            if k == "Sample":
                ps.append(f"({p}_ts : Int) ({p}_isNone {p}_isNan : Bool) ({p}_base : α)")
            else:
                ps.append(f"({p} : {lean_type(k)})")
        res = [lean_type(FIELDS[f][1]) for f in fi.writes]
        if fi.ret is not None:
            res.append(f"Option ({lean_type(fi.ret)})" if fi.optional else lean_type(fi.ret))
        rt = " × ".join(res) if res else "Unit"
        if fi.raises:
            rt = f"Option ({rt})"
        return " ".join(ps), rt

    @staticmethod
    def ret_kind(ci: FnInfo):
        return ("opt", ci.ret) if ci.optional else ci.ret

    def call_args(self, ci: FnInfo, env: Env, args: list[str]) -> str:
        out = [CONFIG[c] for c in ci.config]
        out += [env.fields[f] for f in ci.reads]
        return " ".join(out + args)

    def emit(self, fi: FnInfo) -> None:
        env = Env()
        for p, k in fi.params:
            env.vars[p] = (p, k)
        for f in fi.reads:
            env.fields[f] = FIELDS[f][0]
        saved_cur = getattr(self, "cur", None)
        self.cur = fi
        body = self.block(fi.fn.body, env, self.fall_off)
        sig, rt = self.signature(fi)
        # the kind of the returned value is only known now: recompute the result type
        sig, rt = self.signature(fi)
        doc = f"`{fi.cls}.{fi.py}`" + (" (the parameters, in source order: " + ", ".join(p for p, _ in fi.params) + ")" if fi.params else "")
        alpha = "{α : Type} " if fi.generic else ""
        fi.text = f"/-- {doc} -/\ndef {fi.name} {alpha}{sig} : {rt} :=\n" + "\n".join(show(body, 1)) + "\n"
        self.cur = saved_cur

    # result of the function at a `return` / at the end of its body
    def result(self, env: Env, value: tuple[str, object] | None) -> Leaf:
        fi = self.cur
        parts = [env.fields[f] for f in fi.writes]
        if value is not None:
            text, kind = value
            if isinstance(kind, tuple) and kind[0] == "opt" and kind[1] is not None and not fi.optional:
                fi.optional, kind = True, kind[1]            # (an optional value handed on)
                already = True
            else:
                already = isinstance(value[1], tuple) and value[1][0] == "opt" and value[1][1] is not None
                if already:
                    kind = kind[1]
            if kind == "Idx":
                kind = "Int"
            if fi.ret is None:
                fi.ret = kind
            elif fi.ret != kind:
                raise Unsupported(f"{fi.py}: return values of different kinds: {fi.ret} / {kind}")
            parts.append(text if (already or not fi.optional) else f"(some {text})")
        elif fi.ret is not None or fi.optional:
            if not fi.optional:
                raise Unsupported(f"{fi.py}: a path without a value in a function that returns one")
            parts.append("none")
        t = "(" + ", ".join(parts) + ")" if len(parts) != 1 else parts[0]
        if not parts:
            t = "()"
        return Leaf(f"some {t}" if fi.raises else t)

    @staticmethod
    def join_kind(a, b, value):
        if a == ("opt", b) or b == ("opt", None):
            return a
        if b == ("opt", a) or a == ("opt", None):
            return b if b != ("opt", None) else a
        raise Unsupported(f"return values of different kinds: {a} / {b}")

    def fall_off(self, env: Env):
        return self.result(env, None)

    # ---------------------------------------------------------------------------------------- statements
    def block(self, stmts: list[ast.stmt], env: Env, kont):
        if not stmts:
            return kont(env)
        s, rest = stmts[0], stmts[1:]
        nxt = lambda e: self.block(rest, e, kont)  # noqa: E731
        if isinstance(s, ast.Return):
            if s.value is None:
                return self.result(env, None)
            return self.with_binds(s.value, env, lambda v, e: self.result(e, self.expr(v, e)))
        if isinstance(s, ast.Raise):
            if not self.cur.raises:
                raise Unsupported("raise in a function that was not scanned as raising")
            return Leaf("none")
        if isinstance(s, ast.If) and isinstance(s.test, ast.BoolOp) and any(self.can_raise(v) for v in s.test.values[1:]):
            # `if A or B: X else: Y`  ==  `if A: X else: (if B: X else: Y)`  (exactly, incl. which operands are evaluated)
            first, others = s.test.values[0], s.test.values[1:]
            tail = others[0] if len(others) == 1 else ast.BoolOp(op=s.test.op, values=others)
            if isinstance(s.test.op, ast.Or):
                inner = ast.If(test=tail, body=s.body, orelse=s.orelse)
                return self.block([ast.If(test=first, body=s.body, orelse=[inner])] + rest, env, kont)
            inner = ast.If(test=tail, body=s.body, orelse=s.orelse)
            return self.block([ast.If(test=first, body=[inner], orelse=s.orelse)] + rest, env, kont)
        if isinstance(s, ast.If):
            return self.with_binds(s.test, env, lambda t, e: self.ite(
                self.test(t, e), lambda: self.block(s.body + rest, self.narrow(t, e, True), kont),
                lambda: self.block(s.orelse + rest, self.narrow(t, e, False), kont)))
        if isinstance(s, ast.Assign) and len(s.targets) == 1 and isinstance(s.targets[0], ast.Subscript) \
                and not isinstance(s.targets[0].slice, ast.Slice):
            # (Python evaluates the value, then the index expression)
            both = ast.Tuple(elts=[s.value, s.targets[0].slice], ctx=ast.Load())
            tgt = s.targets[0]
            return self.with_binds(both, env, lambda v, e: self.assign(
                ast.Subscript(value=tgt.value, slice=v.elts[1], ctx=ast.Store()), v.elts[0], e, nxt))
        if isinstance(s, ast.Assign) and len(s.targets) == 1:
            return self.with_binds(s.value, env, lambda v, e: self.assign(s.targets[0], v, e, nxt))
        if isinstance(s, ast.AugAssign) and isinstance(s.target, ast.Name) and isinstance(s.op, (ast.Add, ast.Sub)):
            cur = ast.BinOp(left=ast.Name(id=s.target.id, ctx=ast.Load()), op=s.op, right=s.value)
            return self.assign(ast.Name(id=s.target.id, ctx=ast.Store()), cur, env, nxt)
        if isinstance(s, ast.Delete) and len(s.targets) == 1:
            t = s.targets[0]
            if isinstance(t, ast.Subscript) and ast.unparse(t.value) == "self._gaps":
                idx = self.int_expr(t.slice, env)
                name = self.fresh("gaps")
                env2 = env.fork()
                env2.fields["_gaps"] = name
                env2.epoch += 1
                return Let(name, f"{env.fields['_gaps']}.eraseIdx ({idx}).toNat", nxt(env2))
            raise Unsupported(f"del {ast.unparse(t)}")
        if isinstance(s, ast.Expr) and isinstance(s.value, ast.Call):
            return self.with_binds(s.value, env, lambda v, e: self.call_stmt(v, e, nxt))
        if isinstance(s, ast.While) and not s.orelse:
            return self.while_loop(s, env, nxt)
        if isinstance(s, ast.For) and not s.orelse and isinstance(s.target, ast.Name):
            return self.for_loop(s, env, nxt)
        raise Unsupported(f"statement `{ast.unparse(s)[:80]}`")

    def assign(self, target: ast.expr, value: ast.expr, env: Env, nxt):
        env2 = env.fork()
        # --- a field
        if isinstance(target, ast.Attribute) and ast.unparse(target.value) == "self":
            at = self.resolve_attr(self.cur.cls, target.attr)
            if at not in FIELDS:
                raise Unsupported(f"assignment to self.{target.attr}")
            text, kind = self.expr(value, env)
            if kind != FIELDS[at][1]:
                raise Unsupported(f"self.{target.attr} = <{kind}>")
            name = self.fresh(FIELDS[at][0])
            env2.fields[at] = name
            if at == "_gaps":
                env2.epoch += 1
            return Let(name, text, nxt(env2))
        # --- an attribute of a gap (an alias of a list element, or a copy)
        if isinstance(target, ast.Attribute) and target.attr in ("start", "end") and isinstance(target.value, ast.Name):
            b = env.vars.get(target.value.id)
            text, kind = self.expr(value, env)
            if kind != "Int":
                raise Unsupported("gap bound of a non-time kind")
            if isinstance(b, Ref):
                self.check_ref(b, env, target.value.id)
                if b.cond is not None:
                    raise Unsupported("assignment through an optional alias")
                old = f"({env.fields['_gaps']}.getD ({b.index}).toNat (0, 0))"
                new = f"({text}, {old}.2)" if target.attr == "start" else f"({old}.1, {text})"
                name = self.fresh("gaps")
                env2.fields["_gaps"] = name
                return Let(name, f"{env.fields['_gaps']}.set ({b.index}).toNat {new}", nxt(env2))
            if b is not None and b[1] == "Gap":
                new = f"({text}, {b[0]}.2)" if target.attr == "start" else f"({b[0]}.1, {text})"
                name = self.fresh(target.value.id)
                env2.vars[target.value.id] = (name, "Gap")
                return Let(name, new, nxt(env2))
            raise Unsupported(f"assignment to `{ast.unparse(target)}`")
        # --- an element of the container / a range of a local container
        if isinstance(target, ast.Subscript) and ast.unparse(target.value) == "self._buffer" and not isinstance(target.slice, ast.Slice):
            idx = self.int_expr(target.slice, env)
            text, kind = self.expr(value, env)
            if kind != "Val":
                raise Unsupported(f"container element of kind {kind}")
            name = self.fresh("buffer")
            env2.fields["_buffer"] = name
            return Let(name, f"{env.fields['_buffer']}.set ({idx}).toNat {text}", nxt(env2))
        if isinstance(target, ast.Subscript) and isinstance(target.value, ast.Name) and isinstance(target.slice, ast.Slice) \
                and target.slice.lower is not None and target.slice.upper is not None and target.slice.step is None:
            b = env.vars.get(target.value.id)
            if b is None or isinstance(b, Ref) or b[1] != "Buf":
                raise Unsupported(f"slice assignment to `{ast.unparse(target)}`")
            lo, hi = self.int_expr(target.slice.lower, env), self.int_expr(target.slice.upper, env)
            fill = value
            if isinstance(value, ast.BinOp) and isinstance(value.op, ast.Mult) and isinstance(value.left, ast.List) \
                    and len(value.left.elts) == 1:
                # `[fill] * (hi - lo)`: as many elements as the range has
                want = ast.BinOp(left=target.slice.upper, op=ast.Sub(), right=target.slice.lower)
                if ast.unparse(value.right) != ast.unparse(want):
                    raise Unsupported("slice assignment of a list of another length")
                fill = value.left.elts[0]
            text, kind = self.expr(fill, env)
            if kind != "Val":
                raise Unsupported(f"slice assignment of kind {kind}")
            name = self.fresh(target.value.id)
            env2.vars[target.value.id] = (name, "Buf")
            return Let(name, f"RingBuffer.setRange {b[0]} {lo} {hi} {text}", nxt(env2))
        # --- a local
        if isinstance(target, ast.Name):
            # an alias of a list element
            if isinstance(value, ast.Subscript) and ast.unparse(value.value) == "self._gaps" and not isinstance(value.slice, ast.Slice):
                env2.vars[target.id] = Ref(self.int_expr(value.slice, env), None, env.epoch)
                return nxt(env2)
            if isinstance(value, ast.Constant) and value.value is None:
                env2.vars[target.id] = ("none", ("opt", None))
                return nxt(env2)
            text, kind = self.expr(value, env)
            name = self.fresh(target.id)
            env2.vars[target.id] = (name, kind)
            return Let(name, text, nxt(env2))
        # --- `i, g = next(((j, x) for j, x in enumerate(self._gaps) if P), (0, None))`
        if isinstance(target, ast.Tuple) and len(target.elts) == 2 and all(isinstance(x, ast.Name) for x in target.elts):
            found = self.enumerate_search(value, env)
            if found is not None:
                pred, dflt = found
                idx = self.fresh("found")
                pos = self.fresh("index")
                env2.vars[target.elts[0].id] = (pos, "Int")  # type: ignore
                env2.vars[target.elts[1].id] = Ref(pos, f"{idx}.isSome = true", env.epoch)  # type: ignore
                return Let(idx, f"{env.fields['_gaps']}.findIdx? (fun g => decide {pred})",
                           Let(pos, f"(match {idx} with | some j => (j : Int) | none => {dflt})", nxt(env2)))
            text, kind = self.expr(value, env)
            if kind != "IntPair":
                raise Unsupported(f"tuple assignment from `{ast.unparse(value)[:60]}`")
            name = self.fresh("pair")
            a, b = (self.fresh(x.id) for x in target.elts)  # type: ignore
            if isinstance(value, ast.Call) and C._call_name(value) == "divmod":
                self.durations.add(b)                        # (the remainder of timedelta divmod timedelta)
            env2.vars[target.elts[0].id] = (a, "Int")  # type: ignore
            env2.vars[target.elts[1].id] = (b, "Int")  # type: ignore
            return Let(name, text, Let(a, f"{name}.1", Let(b, f"{name}.2", nxt(env2))))
        raise Unsupported(f"assignment to `{ast.unparse(target)}`")

    def enumerate_search(self, value: ast.expr, env: Env):
        """(predicate on `g`, default index) of `next(((j, x) for j, x in enumerate(self._gaps) if P(x)), (d, None))`."""
        if not (isinstance(value, ast.Call) and C._call_name(value) == "next" and len(value.args) == 2):
            return None
        gen, dflt = value.args
        if not (isinstance(gen, ast.GeneratorExp) and len(gen.generators) == 1 and isinstance(dflt, ast.Tuple)
                and len(dflt.elts) == 2 and isinstance(dflt.elts[1], ast.Constant) and dflt.elts[1].value is None):
            return None
        g = gen.generators[0]
        if not (isinstance(g.iter, ast.Call) and C._call_name(g.iter) == "enumerate" and len(g.iter.args) == 1
                and ast.unparse(g.iter.args[0]) == "self._gaps" and isinstance(g.target, ast.Tuple) and len(g.target.elts) == 2
                and all(isinstance(x, ast.Name) for x in g.target.elts) and len(g.ifs) == 1
                and ast.dump(gen.elt) == ast.dump(C._load(g.target))):
            return None
        j, x = (t.id for t in g.target.elts)  # type: ignore
        if C._mentions(g.ifs[0], {j}):
            return None
        e = env.fork()
        e.vars[x] = ("g", "Gap")
        return self.test(g.ifs[0], e), self.int_expr(dflt.elts[0], env)

    def narrow(self, t: ast.expr, env: Env, holds: bool) -> Env:
        """The environment inside the branch where `t` is `holds`: an optional alias tested against None is present."""
        e = env.fork()

        def go(n: ast.expr, pos: bool) -> None:
            if isinstance(n, ast.UnaryOp) and isinstance(n.op, ast.Not):
                go(n.operand, not pos)
            elif isinstance(n, ast.BoolOp) and isinstance(n.op, ast.And) == pos:
                for v in n.values:
                    go(v, pos)
            elif isinstance(n, ast.Compare) and len(n.ops) == 1 and isinstance(n.left, ast.Name) \
                    and isinstance(n.comparators[0], ast.Constant) and n.comparators[0].value is None \
                    and isinstance(n.ops[0], (ast.Is, ast.IsNot)):
                present = isinstance(n.ops[0], ast.IsNot) == pos
                b = e.vars.get(n.left.id)
                if isinstance(b, Ref) and b.cond is not None and present:
                    e.vars[n.left.id] = Ref(b.index, None, b.epoch)
            elif isinstance(n, ast.Name) and pos:
                b = e.vars.get(n.id)
                if isinstance(b, Ref) and b.cond is not None:
                    e.vars[n.id] = Ref(b.index, None, b.epoch)
            elif isinstance(n, ast.Call) and C._call_name(n) == "isinstance" and len(n.args) == 2 and pos \
                    and ast.unparse(n.args[1]) == "datetime" and isinstance(n.args[0], ast.Name):
                b = e.vars.get(n.args[0].id)
                if b is not None and not isinstance(b, Ref) and b[1] == ("opt", "Int"):
                    e.vars[n.args[0].id] = (f"({b[0]}.getD 0)", "Int")

        go(t, holds)
        return e

    @staticmethod
    def vkind(env: Env, name: str):
        b = env.vars.get(name)
        return None if b is None or isinstance(b, Ref) else b[1]

    def check_ref(self, b: Ref, env: Env, name: str) -> None:
        if b.epoch != env.epoch:
            raise Unsupported(f"the alias `{name}` of a list element is used after the list was restructured")

    def call_stmt(self, call: ast.Call, env: Env, nxt):
        f = call.func
        # self._gaps.append(g)
        if isinstance(f, ast.Attribute) and f.attr == "append" and ast.unparse(f.value) == "self._gaps" and len(call.args) == 1:
            text, kind = self.expr(call.args[0], env)
            if kind != "Gap":
                raise Unsupported("append of a non-gap")
            name = self.fresh("gaps")
            env2 = env.fork()
            env2.fields["_gaps"] = name             # (appending does not move the elements that aliases refer to)
            return Let(name, f"{env.fields['_gaps']} ++ [{text}]", nxt(env2))
        callee = self.callee_of(self.cur.cls, call)
        if callee is not None:
            ci = self.info(*callee)
            if ci.ret is not None:
                raise Unsupported(f"value of {ci.py} discarded")
            args = self.args_of(ci, call, env)
            res = self.fresh("st")
            env2 = env.fork()
            for i, w in enumerate(ci.writes):
                comp = res if len(ci.writes) == 1 else f"{res}.{i + 1}" if i + 1 < len(ci.writes) else f"{res}.{i + 1}"
                env2.fields[w] = self.proj(res, i, len(ci.writes))
            if "_gaps" in ci.writes:
                env2.epoch += 1
            fname = f"abs_{ci.name}" if ci.py in self.cur.abstract else ci.name
            callt = f"{fname} {self.call_args(ci, env, args)}"
            if ci.raises:
                return MatchOpt(callt, Leaf("none"), res, nxt(env2))
            return Let(res, callt, nxt(env2))
        raise Unsupported(f"call `{ast.unparse(call)[:80]}`")

    @staticmethod
    def proj(t: str, i: int, n: int) -> str:
        if n == 1:
            return t
        return f"{t}" + "".join(".2" for _ in range(i)) + (".1" if i < n - 1 else "")

    def bind_call(self, ci: FnInfo, call: ast.Call) -> list[ast.expr]:
        names = [p for p, _ in ci.params]
        orig = [a.arg for a in ci.fn.args.args + ci.fn.args.kwonlyargs if a.arg != "self"]
        given: dict[str, ast.expr] = {}
        if len(call.args) > len(names):
            raise Unsupported("too many arguments")
        for p, a in zip(names, call.args):
            given[p] = a
        defaults = {}
        a_ = ci.fn.args
        pos = [x.arg for x in a_.args if x.arg != "self"]
        for p, d in zip(reversed(pos), reversed(a_.defaults)):
            defaults[p] = d
        for p, d in zip(a_.kwonlyargs, a_.kw_defaults):
            if d is not None:
                defaults[p.arg] = d
        for k in call.keywords:
            # keyword names are the ORIGINAL parameter names: unknown after positional renaming, resolved through the
            # un-renamed definition
            raise Unsupported(f"keyword argument {k.arg} in a call of {ci.py}")
        out = []
        for p in names:
            if p in given:
                out.append(given[p])
            elif p in defaults:
                out.append(defaults[p])
            else:
                raise Unsupported(f"missing argument {p} of {ci.py}")
        _ = orig
        return out

    def arg(self, a: ast.expr, kind, env: Env) -> str:
        text, k = self.expr(a, env)
        if kind == "Sample" and k == "Sample":
            return f"{text}_ts {text}_isNone {text}_isNan {text}_base"
        if kind == "Val" and k == "Fill":
            return f"({text}.getD none)"                # (only reached where the code has tested `fill_value is not None`)
        if kind in ("Int", "Idx") and k in ("Int", "Idx"):
            return text
        if kind in ("Int", "Idx") and k in (("opt", "Int"), ("opt", "Idx")):
            return f"({text}.getD 0)"                   # (the source asserts `is not None`)
        if kind == ("opt", "Idx") and k in ("Int", "Idx"):
            return f"(some {text})"
        if kind == ("opt", "Idx") and k == ("opt", None):
            return "none"
        if k != kind:
            raise Unsupported(f"argument `{ast.unparse(a)}` : {k}, {kind} expected")
        return text

    def args_of(self, ci: FnInfo, call: ast.Call, env: Env) -> list[str]:
        return [self.arg(a, kk, env) for a, (_, kk) in zip(self.bind_call(ci, call), ci.params)]

    # ---------------------------------------------------------------------------------------- while
    def while_loop(self, s: ast.While, env: Env, nxt):
        """`while c: body` -> an auxiliary recursive function over the loop-carried variables, one fuel unit per
        iteration.  Carried: the locals and fields assigned in the body; everything else it mentions is a parameter."""
        assigned_locals: list[str] = []
        for n in ast.walk(ast.Module(body=s.body, type_ignores=[])):
            if isinstance(n, ast.Name) and isinstance(n.ctx, ast.Store) and n.id not in assigned_locals:
                assigned_locals.append(n.id)
            if isinstance(n, (ast.Return, ast.Break, ast.Continue, ast.While, ast.For)):
                raise Unsupported("return / break / continue / nested loop inside a while")
        carried_locals = [v for v in assigned_locals if v in env.vars and not isinstance(env.vars[v], Ref)]
        temp_locals = [v for v in assigned_locals if v not in carried_locals]
        mentioned = {n.id for n in ast.walk(s) if isinstance(n, ast.Name)}
        other_locals = sorted(v for v in mentioned if v in env.vars and v not in carried_locals and not isinstance(env.vars[v], Ref))
        # fields written by the body (syntactically, incl. callees) are carried, the other fields it reads are parameters
        tmp = FnInfo(name="", cls=self.cur.cls, py=self.cur.py, fn=ast.FunctionDef(name="w", args=self.cur.fn.args, body=[s],
                     decorator_list=[], lineno=0, col_offset=0), params=[], config=[], reads=[], writes=[], raises=False,
                     ret=None, generic=False, fuel=False)
        self.scan(tmp)
        if tmp.raises:
            raise Unsupported("raise inside a while")
        carried_fields = tmp.writes
        param_fields = [f for f in tmp.reads if f not in carried_fields]
        name = f"{self.cur.name}_loop{len([a for a in self.aux if self.cur.name + '_loop' in a]) + 1}"
        # --- the auxiliary function
        e = Env()
        for v in other_locals:
            e.vars[v] = (v, env.vars[v][1])
        for v in carried_locals:
            e.vars[v] = (v, env.vars[v][1])
        for f in param_fields + carried_fields:
            e.fields[f] = FIELDS[f][0]
        carried_kinds = [FIELDS[f][1] for f in carried_fields] + [env.vars[v][1] for v in carried_locals]
        carried_names = [FIELDS[f][0] for f in carried_fields] + carried_locals

        def tup(en: Env) -> str:
            parts = [en.fields[f] for f in carried_fields] + [en.vars[v][0] for v in carried_locals]
            return "(" + ", ".join(parts) + ")" if len(parts) != 1 else parts[0]

        rec_args = " ".join([CONFIG[c] for c in tmp.config] + [e.fields[f] for f in param_fields]
                            + [e.vars[v][0] for v in other_locals])
        saved = self.cur
        loop_fi = copy.copy(saved)
        loop_fi.writes, loop_fi.ret, loop_fi.raises = [], None, False
        self.cur = loop_fi

        def again(en: Env):
            parts = [en.fields[f] for f in carried_fields] + [en.vars[v][0] for v in carried_locals]
            return Leaf(f"{name} {rec_args} fuel " + " ".join(parts))

        body = self.ite(self.test(s.test, e), lambda: self.block(s.body, e.fork(), again), lambda: Leaf(tup(e)))
        self.cur = saved
        params = []
        if tmp.config:
            params.append("(" + " ".join(CONFIG[c] for c in tmp.config) + " : Int)")
        params += [f"({FIELDS[f][0]} : {lean_type(FIELDS[f][1])})" for f in param_fields]
        params += [f"({v} : {lean_type(env.vars[v][1])})" for v in other_locals]
        rt = " × ".join(lean_type(k) for k in carried_kinds)
        binders = " ".join(f"({n} : {lean_type(k)})" for n, k in zip(carried_names, carried_kinds))
        alpha = "{α : Type} " if "Buf" in carried_kinds or "_buffer" in param_fields else ""
        pats = ", ".join(carried_names)
        text = (f"/-- The `while` loop of `{saved.cls}.{saved.py}`: loop-carried " + ", ".join(carried_names)
                + f"; one unit of fuel per iteration. -/\ndef {name} {alpha}{' '.join(params)} : Nat → "
                + " → ".join(lean_type(k) for k in carried_kinds) + f" → {rt}\n"
                + f"  | 0, {pats} => {tup(e)}\n  | fuel + 1, {pats} =>\n" + "\n".join(show(body, 2)) + "\n")
        self.aux.append(text)
        self.order.append(FnInfo(name=name, cls=saved.cls, py=saved.py + " (loop)", fn=saved.fn, params=[], config=[], reads=[],
                                 writes=[], raises=False, ret=None, generic=False, fuel=True, text=text))
        # --- the call
        res = self.fresh("loop")
        env2 = env.fork()
        n = len(carried_names)
        for i, f in enumerate(carried_fields):
            env2.fields[f] = self.proj(res, i, n)
        for j, v in enumerate(carried_locals):
            env2.vars[v] = (self.proj(res, len(carried_fields) + j, n), env.vars[v][1])
        for v in temp_locals:
            env2.vars.pop(v, None)
        if "_gaps" in carried_fields:
            env2.epoch += 1
        if (saved.cls, saved.py) not in WHILE_FUEL:
            raise Unsupported(f"no fuel bound recorded for the while loop of {saved.py}")
        fuel = WHILE_FUEL[(saved.cls, saved.py)].format(**{FIELDS[f][0]: env.fields[f] for f in carried_fields},
                                                         **{v: env.vars[v][0] for v in carried_locals})
        call_args = " ".join([CONFIG[c] for c in tmp.config] + [env.fields[f] for f in param_fields]
                             + [env.vars[v][0] for v in other_locals] + [fuel]
                             + [env.fields[f] for f in carried_fields] + [env.vars[v][0] for v in carried_locals])
        return Let(res, f"{name} {call_args}", nxt(env2))

    def for_loop(self, s: ast.For, env: Env, nxt):
        """`for g in <list of gaps>: body` -> a left fold over the list; carried: the locals assigned in the body that exist
        before the loop (the body must not touch the object's fields, raise, return, break or continue)."""
        lst, k = self.expr(s.iter, env)
        if k != "GapList":
            raise Unsupported(f"for over `{ast.unparse(s.iter)}` : {k}")
        stores: list[str] = []
        for n in ast.walk(ast.Module(body=s.body, type_ignores=[])):
            if isinstance(n, (ast.Return, ast.Break, ast.Continue, ast.While, ast.For, ast.Raise)):
                raise Unsupported("return / break / continue / raise / nested loop inside a for")
            if isinstance(n, ast.Name) and isinstance(n.ctx, ast.Store) and n.id not in stores:
                stores.append(n.id)
            if isinstance(n, ast.Subscript) and isinstance(n.ctx, ast.Store) and isinstance(n.value, ast.Name) \
                    and n.value.id not in stores:
                stores.append(n.value.id)
            if isinstance(n, ast.Attribute) and isinstance(n.ctx, (ast.Store, ast.Del)):
                raise Unsupported("attribute assignment inside a for")
        carried = [v for v in stores if v in env.vars and not isinstance(env.vars[v], Ref)]
        if s.target.id in env.vars or len(carried) != 1:
            raise Unsupported("for: exactly one loop-carried local is supported")
        c = carried[0]
        kind = env.vars[c][1]
        e = env.fork()
        e.vars[s.target.id] = ("g", "Gap")
        e.vars[c] = ("acc", kind)
        saved = self.cur
        loop_fi = copy.copy(saved)
        loop_fi.writes, loop_fi.ret, loop_fi.raises, loop_fi.optional = [], None, False, False
        self.cur = loop_fi
        body = self.block(s.body, e, lambda en: Leaf(en.vars[c][0]))
        self.cur = saved
        name = self.fresh(c)
        env2 = env.fork()
        env2.vars[c] = (name, kind)
        for v in stores:
            if v != c:
                env2.vars.pop(v, None)
        text = f"{lst}.foldl (fun acc g =>\n" + "\n".join(show(body, 3)) + f") {env.vars[c][0]}"
        return Let(name, text, nxt(env2))

    # ---------------------------------------------------------------------------------------- binds of raising calls
    def with_binds(self, e: ast.expr, env: Env, k):
        """Calls of methods that can raise, inside `e`, are evaluated first (they have no side effect): `none` leaves the
        function, otherwise the value is a fresh local."""
        binds: list[tuple[str, ast.Call]] = []
        comp = self

        class Hoist(ast.NodeTransformer):
            def visit_BoolOp(self, node):  # noqa: N802
                node.values = [self.visit(node.values[0])] + [comp.no_raise(v) for v in node.values[1:]]
                return node

            def visit_IfExp(self, node):  # noqa: N802
                node.test = self.visit(node.test)
                comp.no_raise(node.body)
                comp.no_raise(node.orelse)
                return node

            def visit_GeneratorExp(self, node):  # noqa: N802
                return comp.no_raise(node)

            def visit_Call(self, node):  # noqa: N802
                node.args = [self.visit(a) for a in node.args]
                for kw in node.keywords:
                    kw.value = self.visit(kw.value)
                if isinstance(node.func, ast.Attribute):
                    if comp.callee_of(comp.cur.cls, node) is None:
                        node.func.value = self.visit(node.func.value)
                callee = comp.callee_of(comp.cur.cls, node)
                if callee is not None and comp.info(*callee).raises:
                    name = comp.fresh("r")
                    binds.append((name, node))
                    return ast.Name(id=name, ctx=ast.Load())
                return node

            def visit_Attribute(self, node):  # noqa: N802
                callee = comp.callee_of(comp.cur.cls, node)
                if callee is not None and comp.info(*callee).raises:
                    name = comp.fresh("r")
                    binds.append((name, node))
                    return ast.Name(id=name, ctx=ast.Load())
                return self.generic_visit(node)

        e2 = Hoist().visit(copy.deepcopy(e))

        def go(i: int, en: Env):
            if i == len(binds):
                return k(e2, en)
            name, call = binds[i]
            ci = self.info(*self.callee_of(self.cur.cls, call))  # type: ignore[misc]
            if ci.writes or ci.ret is None:
                raise Unsupported(f"{ci.py} inside an expression")
            args = self.args_of(ci, call, en) if isinstance(call, ast.Call) else []
            en2 = en.fork()
            en2.vars[name] = (name, self.ret_kind(ci))
            return MatchOpt(f"{ci.name} {self.call_args(ci, en, args)}", Leaf("none"), name, go(i + 1, en2))

        return go(0, env)

    def can_raise(self, e) -> bool:
        for n in ast.walk(e):
            callee = self.callee_of(self.cur.cls, n)
            if callee is not None and self.info(*callee).raises:
                return True
        return False

    def no_raise(self, e):
        for n in ast.walk(e):
            callee = self.callee_of(self.cur.cls, n)
            if callee is not None and self.info(*callee).raises:
                raise Unsupported("a call that can raise in a conditionally evaluated position")
        return e

    # ---------------------------------------------------------------------------------------- expressions
    def int_expr(self, e: ast.expr, env: Env) -> str:
        t, k = self.expr(e, env)
        if k in (("opt", "Int"), ("opt", "Idx")):
            return f"({t}.getD 0)"                      # (the source asserts `is not None`)
        if k not in ("Int", "Idx"):
            raise Unsupported(f"`{ast.unparse(e)}` : {k}, Int expected")
        return t

    def test(self, e: ast.expr, env: Env) -> str:
        """A condition as a canonical decidable Prop (`_rb_common.prop` with this compiler's terms as atoms); `True` /
        `False` when it is decided by what is known (a gap object is truthy, `None` is falsy)."""
        def simp(t):
            if t[0] == "atom":
                return t
            kids = [simp(c) for c in t[1]]
            absorbing, neutral = ("False", "True") if t[0] == "and" else ("True", "False")
            if any(c == ("atom", absorbing) for c in kids):
                return ("atom", absorbing)
            kids = [c for c in kids if c != ("atom", neutral)]
            if not kids:
                return ("atom", neutral)
            return kids[0] if len(kids) == 1 else (t[0], kids)
        return C._pshow(simp(self.ptree(e, env, False)))

    def ite(self, cond: str, a, b):
        """`if cond then a() else b()` (thunks), pruned when the condition is decided."""
        if cond == "True":
            return a()
        if cond == "False":
            return b()
        return If(cond, a(), b())

    def ptree(self, n: ast.expr, env: Env, neg: bool):
        if isinstance(n, ast.UnaryOp) and isinstance(n.op, ast.Not):
            return self.ptree(n.operand, env, not neg)
        if isinstance(n, ast.BoolOp):
            kind = "and" if isinstance(n.op, ast.And) != neg else "or"
            absorbing = ("atom", "False" if kind == "and" else "True")
            kids = []
            for v in n.values:                       # short-circuit: what follows a decided operand is not evaluated
                c = self.ptree(v, env, neg)
                if c == absorbing:
                    return absorbing
                kids.append(c)
            return (kind, kids)
        if isinstance(n, ast.Compare):
            parts, left = [], n.left
            for op, right in zip(n.ops, n.comparators):
                parts.append(self.compare(left, op, right, env, neg))
                left = right
            return parts[0] if len(parts) == 1 else ("or" if neg else "and", parts)
        if isinstance(n, ast.Call) and C._call_name(n) == "isinstance" and len(n.args) == 2:
            return self.isinstance_test(n, env, neg)
        t, k = self.expr(n, env)
        if k == "Int" and t in self.durations:               # the truth value of a timedelta: not zero
            return ("atom", C._atom(t, "=" if neg else "≠", "(0 : Int)"))
        if k == "Bool":
            return ("atom", f"({t} = {'false' if neg else 'true'})")
        if k == "Gap":                                       # an object: always truthy
            return ("atom", "False" if neg else "True")
        if k == ("opt", None):                              # the literal None
            return ("atom", "True" if neg else "False")
        if isinstance(k, tuple) and k[0] == "opt":          # truth value of an optional gap: present
            return ("atom", f"({t}.isSome = {'false' if neg else 'true'})")
        raise Unsupported(f"truth value of `{ast.unparse(n)}` : {k}")

    def isinstance_test(self, n: ast.Call, env: Env, neg: bool):
        what = ast.unparse(n.args[1])
        t, k = self.expr(n.args[0], env)
        const = lambda b: ("atom", "True" if b != neg else "False")  # noqa: E731
        if what in ("list", "np.ndarray"):
            if k != "Buf":
                raise Unsupported(f"isinstance({ast.unparse(n.args[0])}, {what}) : {k}")
            want = "true" if (what == "list") != neg else "false"
            return ("atom", f"(isList = {want})")
        if what == "datetime":
            if k == "Int":
                return const(True)
            if k in ("Idx", ("opt", "Idx"), ("opt", None)):
                return const(False)
            if k == ("opt", "Int"):
                return ("atom", f"({t}.isSome = {'false' if neg else 'true'})")
        if what == "int":
            if k == "Idx":
                return const(True)
            if k == "Int":
                return const(False)
        raise Unsupported(f"isinstance({ast.unparse(n.args[0])}, {what}) : {k}")

    def compare(self, left: ast.expr, op: ast.cmpop, right: ast.expr, env: Env, neg: bool):
        if isinstance(op, (ast.Is, ast.IsNot)) and isinstance(right, ast.Constant) and right.value is None:
            is_none = isinstance(op, ast.Is) != neg
            b = env.vars.get(left.id) if isinstance(left, ast.Name) else None
            if isinstance(b, Ref):
                if b.cond is None:                       # an alias of an element: an object, never None
                    return ("atom", "False" if is_none else "True")
                return ("atom", f"(¬ {b.cond})" if is_none else f"({b.cond})")
            if b is not None and b[1] == ("opt", None):  # the literal None
                return ("atom", "True" if is_none else "False")
            if isinstance(left, ast.Attribute) and left.attr == "value" and isinstance(left.value, ast.Name) \
                    and self.vkind(env, left.value.id) == "Sample":
                return ("atom", f"({env.vars[left.value.id][0]}_isNone = {'true' if is_none else 'false'})")
            t, k = self.expr(left, env)
            if not ((isinstance(k, tuple) and k[0] == "opt") or k == "Fill"):
                raise Unsupported(f"None test of `{ast.unparse(left)}` : {k}")
            return ("atom", f"({t}.isSome = {'false' if is_none else 'true'})")
        if type(op) not in C._CMP:
            raise Unsupported(f"comparison `{ast.unparse(left)} … {ast.unparse(right)}`")
        o = C._CMP[type(op)]
        return ("atom", C._atom(self.int_expr(left, env), C._NOT[o] if neg else o, self.int_expr(right, env)))

    def expr(self, e: ast.expr, env: Env) -> tuple[str, object]:  # noqa: C901
        if isinstance(e, ast.Name):
            b = env.vars.get(e.id)
            if b is None:
                raise Unsupported(f"unknown name {e.id}")
            if isinstance(b, Ref):
                self.check_ref(b, env, e.id)
                elem = f"({env.fields['_gaps']}.getD ({b.index}).toNat (0, 0))"
                if b.cond is None:
                    return elem, "Gap"
                return f"(if {b.cond} then some {elem} else none)", ("opt", "Gap")
            return b
        if isinstance(e, ast.Constant):
            if isinstance(e.value, bool):
                return ("true" if e.value else "false"), "Bool"
            if isinstance(e.value, int):
                return f"({e.value} : Int)", "Int"
            if e.value is None:
                return "none", ("opt", None)
            raise Unsupported(f"constant {e.value!r}")
        if isinstance(e, ast.Attribute):
            src = ast.unparse(e)
            if src == "np.nan":
                return "none", "Val"
            callee = self.callee_of(self.cur.cls, e)
            if callee is not None:
                ci = self.info(*callee)
                if ci.raises:
                    raise Unsupported(f"{ci.py} can raise: not bound")
                return f"({ci.name} {self.call_args(ci, env, [])})".replace(" )", ")"), self.ret_kind(ci)
            if isinstance(e.value, ast.Name) and self.vkind(env, e.value.id) == "Sample" and e.attr == "timestamp":
                return f"{env.vars[e.value.id][0]}_ts", "Int"
            if e.attr == "base_value" and isinstance(e.value, ast.Attribute) and e.value.attr == "value" \
                    and isinstance(e.value.value, ast.Name) and self.vkind(env, e.value.value.id) == "Sample":
                return f"(some {env.vars[e.value.value.id][0]}_base)", "Val"
            if isinstance(e.value, ast.Name) and e.value.id == "self":
                at = self.resolve_attr(self.cur.cls, e.attr)
                if at in CONFIG:
                    return CONFIG[at], "Int"
                if at in FIELDS:
                    return env.fields[at], FIELDS[at][1]
                if self.cur.cls == "Gap" and e.attr in ("start", "end"):
                    return ("start" if e.attr == "start" else "end_"), "Int"
                raise Unsupported(f"attribute {src}")
            if e.attr in ("start", "end"):
                if isinstance(e.value, ast.Name) and isinstance(env.vars.get(e.value.id), Ref):
                    b = env.vars[e.value.id]
                    self.check_ref(b, env, e.value.id)
                    return f"({env.fields['_gaps']}.getD ({b.index}).toNat (0, 0)).{1 if e.attr == 'start' else 2}", "Int"
                t, k = self.expr(e.value, env)
                if k == "Gap":
                    return f"{t}.{1 if e.attr == 'start' else 2}", "Int"
            raise Unsupported(f"attribute {src}")
        if isinstance(e, ast.UnaryOp) and isinstance(e.op, ast.USub):
            return f"(-{self.int_expr(e.operand, env)})", "Int"
        if isinstance(e, (ast.Compare, ast.BoolOp)) or (isinstance(e, ast.UnaryOp) and isinstance(e.op, ast.Not)):
            return f"(decide {self.test(e, env)})", "Bool"
        if isinstance(e, ast.BinOp):
            if isinstance(e.op, ast.Div) and isinstance(e.right, ast.Constant) and e.right.value == 2:
                return f"(halfPeriod {self.int_expr(e.left, env)})", "Int"      # timedelta / 2
            if isinstance(e.op, ast.Add):
                lt, lk = self.expr(e.left, env)
                if lk == "Buf":
                    rt_, rk = self.expr(e.right, env)
                    if rk == "Buf":
                        return f"({lt} ++ {rt_})", "Buf"
            if type(e.op) in C.BIN:
                return f"({self.int_expr(e.left, env)} {C.BIN[type(e.op)]} {self.int_expr(e.right, env)})", "Int"
            raise Unsupported(f"operator in `{ast.unparse(e)}`")
        if isinstance(e, ast.Subscript):
            if ast.unparse(e.value) == "self._gaps" and not isinstance(e.slice, ast.Slice):
                return f"({env.fields['_gaps']}.getD ({self.int_expr(e.slice, env)}).toNat (0, 0))", "Gap"
            if ast.unparse(e.value) == "self._buffer" and not isinstance(e.slice, ast.Slice):
                # (in `MovingWindow`, `self._buffer[i]` is `OrderedRingBuffer.__getitem__`: the container element)
                return f"({env.fields['_buffer']}.getD ({self.int_expr(e.slice, env)}).toNat none)", "Val"
            if isinstance(e.slice, ast.Slice) and e.slice.step is None:
                # slice(a, b).indices(n)[:2]
                if (e.slice.lower is None and isinstance(e.slice.upper, ast.Constant) and e.slice.upper.value == 2
                        and isinstance(e.value, ast.Call) and isinstance(e.value.func, ast.Attribute)
                        and e.value.func.attr == "indices" and isinstance(e.value.func.value, ast.Call)
                        and C._call_name(e.value.func.value) == "slice" and len(e.value.func.value.args) == 2
                        and len(e.value.args) == 1):
                    a, b = (self.arg(x, ("opt", "Idx"), env) for x in e.value.func.value.args)
                    return f"(RingBuffer.sliceIndices {a} {b} {self.int_expr(e.value.args[0], env)})", "IntPair"
                t, k = self.expr(e.value, env)
                if k == "Buf":
                    out = t
                    if e.slice.upper is not None:
                        out = f"({out}.take ({self.int_expr(e.slice.upper, env)}).toNat)"
                    if e.slice.lower is not None:
                        out = f"({out}.drop ({self.int_expr(e.slice.lower, env)}).toNat)"
                    return out, "Buf"
            raise Unsupported(f"subscript `{ast.unparse(e)}`")
        if isinstance(e, ast.Tuple) and len(e.elts) == 2:
            return f"({self.int_expr(e.elts[0], env)}, {self.int_expr(e.elts[1], env)})", "IntPair"
        if isinstance(e, ast.List) and not e.elts:
            return "[]", "Buf"
        if isinstance(e, ast.List) and len(e.elts) == 1:
            t, k = self.expr(e.elts[0], env)
            if k == "Gap":
                return f"[{t}]", "GapList"
            raise Unsupported(f"list `{ast.unparse(e)}`")
        if isinstance(e, ast.Call):
            return self.call_expr(e, env)
        raise Unsupported(f"expression `{ast.unparse(e)[:80]}`")

    def call_expr(self, e: ast.Call, env: Env) -> tuple[str, object]:  # noqa: C901
        f = C._call_name(e)
        if f in ("max", "min") and len(e.args) == 2 and not e.keywords:
            return f"({f} {self.int_expr(e.args[0], env)} {self.int_expr(e.args[1], env)})", "Int"
        if f == "timedelta" and len(e.args) == 1 and isinstance(e.args[0], ast.Constant) and e.args[0].value == 0:
            return "(0 : Int)", "Int"
        if f == "len" and len(e.args) == 1:
            t, k = self.expr(e.args[0], env)
            if k in ("GapList", "Buf"):
                return f"({t}.length : Int)", "Int"
        if f == "deepcopy" and len(e.args) == 1:
            return self.expr(e.args[0], env)
        if f == "np.array" and len(e.args) == 1 and isinstance(e.args[0], ast.List) and not e.args[0].elts:
            return "[]", "Buf"
        if f == "np.concatenate" and len(e.args) == 1 and isinstance(e.args[0], ast.Tuple) and len(e.args[0].elts) == 2:
            (a, ka), (b, kb) = (self.expr(x, env) for x in e.args[0].elts)
            if ka == kb == "Buf":
                return f"({a} ++ {b})", "Buf"
        if f == "round" and len(e.args) == 1 and isinstance(e.args[0], ast.BinOp) and isinstance(e.args[0].op, ast.Div):
            num, den = e.args[0].left, e.args[0].right
            if all(isinstance(x, ast.Call) and isinstance(x.func, ast.Attribute) and x.func.attr == "total_seconds" and not x.args
                   for x in (num, den)):
                # exact: the numerator is a multiple of the denominator (a normalised timestamp minus the alignment point)
                return f"({self.int_expr(num.func.value, env)} / {self.int_expr(den.func.value, env)})", "Int"  # type: ignore
        if isinstance(e.func, ast.Attribute) and e.func.attr == "isnan" and not e.args and isinstance(e.func.value, ast.Attribute) \
                and e.func.value.attr == "value" and isinstance(e.func.value.value, ast.Name) \
                and self.vkind(env, e.func.value.value.id) == "Sample":
            return f"{env.vars[e.func.value.value.id][0]}_isNan", "Bool"
        if f == "isinstance":
            return f"(decide {self.test(e, env)})", "Bool"
        if f == "Gap" and not e.args and sorted(k.arg or "" for k in e.keywords) == ["end", "start"]:
            kw = {k.arg: k.value for k in e.keywords}
            return f"({self.int_expr(kw['start'], env)}, {self.int_expr(kw['end'], env)})", "Gap"
        if f == "divmod" and len(e.args) == 2:
            a, b = self.int_expr(e.args[0], env), self.int_expr(e.args[1], env)
            return f"({a} / {b}, {a} % {b})", "IntPair"
        if f == "sorted" and len(e.args) == 1 and len(e.keywords) == 1 and e.keywords[0].arg == "key":
            t, k = self.expr(e.args[0], env)
            lam = e.keywords[0].value
            if k == "GapList" and isinstance(lam, ast.Lambda) and len(lam.args.args) == 1 \
                    and ast.unparse(lam.body) == f"{lam.args.args[0].arg}.start.timestamp()":
                return f"(sortGaps {t})", "GapList"
        if f in ("any", "sum", "min") and len(e.args) == 1 and isinstance(e.args[0], ast.GeneratorExp):
            g = e.args[0]
            if len(g.generators) == 1 and isinstance(g.generators[0].target, ast.Name) and not g.generators[0].ifs:
                lst, k = self.expr(g.generators[0].iter, env)
                if k == "GapList":
                    en = env.fork()
                    en.vars[g.generators[0].target.id] = ("g", "Gap")
                    if f == "any":
                        return f"({lst}.any (fun g => decide {self.test(g.elt, en)}))", "Bool"
                    body = self.int_expr(g.elt, en)
                    if f == "sum":
                        return f"(({lst}.map (fun g => {body})).sum)", "Int"
                    return f"(minOfList ({lst}.map (fun g => {body})))", "Int"
        callee = self.callee_of(self.cur.cls, e)
        if callee is not None:
            ci = self.info(*callee)
            if ci.writes:
                raise Unsupported(f"{ci.py} (which changes the object) inside an expression")
            if ci.raises:
                raise Unsupported(f"{ci.py} can raise: not bound")
            if ci.cls == "Gap":
                obj = e.func.value  # type: ignore[attr-defined]
                g, k = self.expr(obj, env)
                if k != "Gap":
                    raise Unsupported(f"contains of `{ast.unparse(obj)}` : {k}")
                args = [f"{g}.1", f"{g}.2"] + [self.arg(a, kk, env) for a, (_, kk) in zip(self.bind_call(ci, e), ci.params)]
                return f"({ci.name} {' '.join(args)})", ci.ret
            args = self.args_of(ci, e, env)
            return f"({ci.name} {self.call_args(ci, env, args)})", self.ret_kind(ci)
        raise Unsupported(f"call `{ast.unparse(e)[:80]}`")


def lean_name(py: str) -> str:
    parts = [p for p in py.strip("_").split("_") if p]
    return parts[0] + "".join(p.capitalize() for p in parts[1:])


HEADER = """import Frequenz.Model.RingBufferQuery

set_option linter.unusedVariables false

namespace Extracted.RingBufferLoops
open _root_.RingBuffer (Gap sortGaps halfPeriod)

/-- `min(<generator>)` over a list that is not empty where the code evaluates it (0 otherwise). -/
def minOfList : List Int → Int
  | [] => 0
  | x :: xs => xs.foldl (fun m y => min m y) x

"""

# Fuel handed to each `while` loop, as a Lean term over the loop-carried variables at loop entry (`{gaps}`, …).  This is a
# CLAIM, not an assumption: `C09_cleanup` proves that the loop has terminated within it (the tie proves the translated loop
# equal to the model's for every fuel).
WHILE_FUEL = {("OrderedRingBuffer", "_cleanup_gaps"): "(2 * {gaps}.length + 2)"}

ENTRY_POINTS = [("OrderedRingBuffer", "update", ""), ("OrderedRingBuffer", "update", "Abs"), ("OrderedRingBuffer", "window", "Dt"), ("OrderedRingBuffer", "window", "Idx"), ("MovingWindow", "at", "Ts"), ("MovingWindow", "at", "Idx")]


def generate(repo: pathlib.Path) -> str:
    comp = Compiler(repo)
    try:
        for cls, name, variant in ENTRY_POINTS:
            comp.info(cls, name, variant)
    except C.Bad as e:
        raise Unsupported(str(e)) from e
    return HEADER + "\n".join(fi.text for fi in comp.order) + "\nend Extracted.RingBufferLoops\n"


if __name__ == "__main__":
    print(generate(pathlib.Path(sys.argv[1] if len(sys.argv) > 1 else "/repo")))
