"""`actor/_actor.py` + `actor/_background_service.py` -> Lean constants and decision tables for C10.

Extracted (pure `ast`; raises when the source no longer has the expected shape):
  * `RESTART_DELAY` (µs) and the default of `_restart_limit`;
  * the test that guards the restart in `_run_loop` (`self._restart_limit is None or n_restarts < …`)
    and the test of `_delay_if_restart` (`iteration > 0`), translated to Lean `Bool` functions;
  * the `except` clauses of the `try` in `_run_loop`, in source order, each with what it does
    (`reraise` | `restartOrReraise`); a normal return of `_run()` must be followed by `break`;
  * what `Actor.start()` does (guard on `is_running`, clear, add one task);
  * the shape of `BackgroundService.wait()/stop()`: whether the exception group is raised inside the
    batch loop (per batch) or after it (all rounds), and whether `stop()` cancels once or in every round;
  * `_internal/_asyncio.cancel_and_await`: the early-return guard as a Lean function of (`task.done()`,
    `task.cancelling()`), whether it calls `task.cancel()`, and that `await task` swallows only `CancelledError`.
"""
from __future__ import annotations

import ast
import pathlib

NAME = "Actor"
SOURCES = ["src/frequenz/sdk/actor/_actor.py", "src/frequenz/sdk/actor/_background_service.py",
           "src/frequenz/sdk/_internal/_asyncio.py"]


class Bad(Exception):
    pass


def _cls(tree: ast.Module, name: str) -> ast.ClassDef:
    for n in tree.body:
        if isinstance(n, ast.ClassDef) and n.name == name:
            return n
    raise Bad(f"class {name} not found")


def _fn(cls: ast.ClassDef, name: str) -> ast.AsyncFunctionDef | ast.FunctionDef:
    for n in cls.body:
        if isinstance(n, (ast.FunctionDef, ast.AsyncFunctionDef)) and n.name == name:
            return n
    raise Bad(f"{cls.name}.{name} not found")


def _strip(body: list[ast.stmt]) -> list[ast.stmt]:
    """Drop docstrings, logging calls and `limit_str = …` bookkeeping (no effect on control flow)."""
    out = []
    for s in body:
        if isinstance(s, ast.Expr) and isinstance(s.value, ast.Constant) and isinstance(s.value.value, str):
            continue
        if isinstance(s, ast.Expr) and isinstance(s.value, ast.Call) and ast.unparse(s.value.func).startswith("_logger."):
            continue
        if isinstance(s, ast.Assign) and len(s.targets) == 1 and ast.unparse(s.targets[0]) == "limit_str":
            continue
        out.append(s)
    return out


# ----------------------------------------------------------------------------- expressions
def _expr(e: ast.expr, env: dict[str, str]) -> str:
    """Translate a boolean test over Nat counters / an Option Nat limit into a Lean Bool term."""
    if isinstance(e, ast.BoolOp):
        op = " || " if isinstance(e.op, ast.Or) else " && "
        return "(" + op.join(_expr(v, env) for v in e.values) + ")"
    if isinstance(e, ast.UnaryOp) and isinstance(e.op, ast.Not):
        return f"(!{_expr(e.operand, env)})"
    if isinstance(e, ast.Compare) and len(e.ops) == 1:
        l, r, op = e.left, e.comparators[0], e.ops[0]
        ls = ast.unparse(l)
        if isinstance(op, (ast.Is, ast.IsNot)) and isinstance(r, ast.Constant) and r.value is None and env.get(ls) == "limit":
            return "limit.isNone" if isinstance(op, ast.Is) else "limit.isSome"
        sym = {ast.Lt: "<", ast.LtE: "≤", ast.Gt: ">", ast.GtE: "≥", ast.Eq: "=", ast.NotEq: "≠"}.get(type(op))
        if sym is None:
            raise Bad(f"comparison {ast.unparse(e)}")
        return f"decide ({_atom(l, env)} {sym} {_atom(r, env)})"
    raise Bad(f"unsupported test {ast.unparse(e)}")


def _atom(e: ast.expr, env: dict[str, str]) -> str:
    s = ast.unparse(e)
    if isinstance(e, ast.Constant) and isinstance(e.value, int) and not isinstance(e.value, bool) and e.value >= 0:
        return f"({e.value} : Int)"
    if env.get(s) == "n":
        return "(n : Int)"
    if env.get(s) == "limit":
        # only reached when the limit is not None (Python would raise TypeError otherwise); `none` is
        # mapped to -1 so that a dropped `is None` test shows up as "never restart", as in Python (TypeError
        # is an Exception raised inside the handler: the task dies)
        return "(match limit with | some l => (l : Int) | none => -1)"
    if isinstance(e, ast.BinOp) and isinstance(e.op, (ast.Add, ast.Sub)):
        return f"({_atom(e.left, env)} {'+' if isinstance(e.op, ast.Add) else '-'} {_atom(e.right, env)})"
    raise Bad(f"unsupported operand {s}")


# ----------------------------------------------------------------------------- _actor.py
def _actor(src: str) -> list[str]:
    tree = ast.parse(src)
    actor = _cls(tree, "Actor")
    out: list[str] = []
    delay_us = None
    limit = "missing"
    for n in actor.body:
        if isinstance(n, ast.AnnAssign) and isinstance(n.target, ast.Name):
            if n.target.id == "RESTART_DELAY":
                v = n.value
                if not (isinstance(v, ast.Call) and ast.unparse(v.func) in ("timedelta", "datetime.timedelta")) or v.args:
                    raise Bad("RESTART_DELAY is not timedelta(kw=…)")
                unit = {"days": 86400_000_000, "hours": 3600_000_000, "minutes": 60_000_000, "seconds": 1_000_000,
                        "milliseconds": 1000, "microseconds": 1}
                total = 0
                for kw in v.keywords:
                    val = ast.literal_eval(kw.value)
                    q = val * unit[kw.arg]
                    if q != int(q):
                        raise Bad("RESTART_DELAY not a whole number of µs")
                    total += int(q)
                delay_us = total
            if n.target.id == "_restart_limit":
                limit = ast.literal_eval(n.value)
    if delay_us is None or limit == "missing":
        raise Bad("RESTART_DELAY / _restart_limit not found")
    if not (limit is None or (isinstance(limit, int) and limit >= 0)):
        raise Bad(f"_restart_limit default {limit!r}")
    out.append(f"/-- `Actor.RESTART_DELAY` in microseconds. -/\ndef restartDelayUs : Int := {delay_us}")
    out.append("/-- default of `Actor._restart_limit` (`none` = unlimited). -/\n"
               f"def defaultRestartLimit : Option Nat := {'none' if limit is None else f'some {limit}'}")

    # _delay_if_restart: `if <test(iteration)>: … await asyncio.sleep(delay)`
    d = _fn(actor, "_delay_if_restart")
    body = _strip(d.body)
    if len(body) != 1 or not isinstance(body[0], ast.If) or body[0].orelse:
        raise Bad("_delay_if_restart: expected a single `if`")
    arg = d.args.args[1].arg
    inner = _strip(body[0].body)
    if not (len(inner) == 2 and ast.unparse(inner[0]) == "delay = self.RESTART_DELAY.total_seconds()"
            and ast.unparse(inner[1]) == "await asyncio.sleep(delay)"):
        raise Bad("_delay_if_restart: body is not `delay = RESTART_DELAY…; await asyncio.sleep(delay)`")
    out.append("/-- `_delay_if_restart`: is the delay awaited before iteration `n`? -/\n"
               f"def delayApplies (n : Nat) : Bool := {_expr(body[0].test, {arg: 'n'})}")

    # _run_loop
    rl = _fn(actor, "_run_loop")
    body = _strip(rl.body)
    if not (len(body) == 2 and isinstance(body[0], ast.Assign) and len(body[0].targets) == 1
            and isinstance(body[0].targets[0], ast.Name) and ast.unparse(body[0].value) == "0"
            and isinstance(body[1], ast.While) and ast.unparse(body[1].test) == "True"):
        raise Bad("_run_loop: expected `<counter> = 0; while True:`")
    ctr = body[0].targets[0].id  # `n_restarts` (a local: its name does not matter)
    wbody = _strip(body[1].body)
    if not (len(wbody) == 2 and isinstance(wbody[0], ast.Try)):
        raise Bad("_run_loop: expected `try: … ; <stmt>` in the loop")
    after = ast.unparse(wbody[1])
    if after != "break":
        raise Bad(f"_run_loop: statement after the try is {after!r} (expected `break`)")
    tr = wbody[0]
    tb = [ast.unparse(s) for s in _strip(tr.body)]
    if tb != [f"await self._delay_if_restart({ctr})", "await self._run()"] or tr.orelse or tr.finalbody:
        raise Bad(f"_run_loop: try body is {tb}")
    handlers = []
    allowed = None
    for h in tr.handlers:
        ty = ast.unparse(h.type) if h.type is not None else "BaseException"
        ty = {"asyncio.CancelledError": "CancelledError"}.get(ty, ty)
        if ty not in ("CancelledError", "Exception", "BaseException"):
            raise Bad(f"_run_loop: handler for {ty}")
        hb = _strip(h.body)
        if len(hb) == 1 and ast.unparse(hb[0]) == "raise":
            handlers.append((ty, "reraise"))
        elif (len(hb) == 2 and isinstance(hb[0], ast.If) and not hb[0].orelse and ast.unparse(hb[1]) == "raise"
              and [ast.unparse(s) for s in _strip(hb[0].body)] == [f"{ctr} += 1", "continue"]):
            if allowed is not None:
                raise Bad("_run_loop: two restarting handlers")
            allowed = _expr(hb[0].test, {ctr: "n", "self._restart_limit": "limit"})
            handlers.append((ty, "restartOrReraise"))
        else:
            raise Bad(f"_run_loop: unrecognised handler body for {ty}")
    if allowed is None:
        allowed = "false"
    out.append("/-- the guard of the restart in `_run_loop` (`n` = `n_restarts`). -/\n"
               f"def restartAllowed (limit : Option Nat) (n : Nat) : Bool := {allowed}")
    out.append("inductive Action | reraise | restartOrReraise\nderiving DecidableEq, Repr")
    hs = ", ".join(f'("{t}", Action.{a})' for t, a in handlers)
    out.append("/-- the `except` clauses of `_run_loop`, in source order. -/\n"
               f"def handlers : List (String × Action) := [{hs}]")

    # start()
    st = [ast.unparse(s) for s in _strip(_fn(actor, "start").body)]
    guard = "if self.is_running:\n    return"
    if st == [guard, "self._tasks.clear()", "self._tasks.add(asyncio.create_task(self._run_loop()))"]:
        start_guarded = True
    elif st == ["self._tasks.clear()", "self._tasks.add(asyncio.create_task(self._run_loop()))"]:
        start_guarded = False
    else:
        raise Bad(f"Actor.start: unrecognised body {st}")
    out.append("/-- `Actor.start()` returns early while `is_running`. -/\n"
               f"def startGuarded : Bool := {'true' if start_guarded else 'false'}")
    return out


# ----------------------------------------------------------------------------- _background_service.py
def _find_loop(fn: ast.AsyncFunctionDef) -> ast.While | None:
    for s in fn.body:
        if isinstance(s, ast.While) and ast.unparse(s.test) == "self._tasks":
            return s
    return None


def _contains_raise_group(stmts: list[ast.stmt]) -> bool:
    for s in stmts:
        for n in ast.walk(s):
            if isinstance(n, ast.Raise) and n.exc is not None and "BaseExceptionGroup" in ast.unparse(n.exc):
                return True
    return False


def _assigns_empty_list(stmts: list[ast.stmt]) -> bool:
    for s in stmts:
        if isinstance(s, (ast.Assign, ast.AnnAssign)) and s.value is not None and ast.unparse(s.value) == "[]":
            return True
    return False


def _service(src: str) -> list[str]:
    tree = ast.parse(src)
    svc = _cls(tree, "BackgroundService")
    wait = _fn(svc, "wait")
    stop = _fn(svc, "stop")
    loop_fn = wait
    helper = None
    if _find_loop(wait) is None:
        body = _strip(wait.body)
        if not (len(body) == 1 and isinstance(body[0], ast.Expr) and isinstance(body[0].value, ast.Await)
                and isinstance(body[0].value.value, ast.Call) and not body[0].value.value.args
                and not body[0].value.value.keywords
                and ast.unparse(body[0].value.value.func).startswith("self.")):
            raise Bad("wait(): neither the batch loop nor a plain `await self.<helper>()`")
        helper = ast.unparse(body[0].value.value.func)[5:]
        loop_fn = _fn(svc, helper)
    loop = _find_loop(loop_fn)
    if loop is None:
        raise Bad("batch loop `while self._tasks:` not found")
    pre = loop_fn.body[: loop_fn.body.index(loop)]
    post = loop_fn.body[loop_fn.body.index(loop) + 1:]
    in_loop_raise = _contains_raise_group(loop.body)
    after_raise = _contains_raise_group(post)
    in_loop_init = _assigns_empty_list(loop.body)
    pre_init = _assigns_empty_list(pre)
    if in_loop_raise and in_loop_init and not after_raise and not pre_init:
        all_rounds = False
    elif after_raise and pre_init and not in_loop_raise and not in_loop_init:
        all_rounds = True
    else:
        raise Bad("wait loop: cannot tell whether exceptions are raised per batch or after all rounds")
    lsrc = [ast.unparse(s) for s in _strip(loop.body)]
    need = ["done, pending = await asyncio.wait(self._tasks)", "self._tasks = self._tasks - done"]
    if not all(any(x == l for l in lsrc) for x in need) or lsrc.index(need[0]) > lsrc.index(need[1]):
        raise Bad("wait loop: `asyncio.wait(self._tasks)` / `self._tasks = self._tasks - done` not found in order")
    # cancel in every round?  `if <flag>: self.cancel(msg)` before the asyncio.wait
    round_cancel_flag = None
    for s in loop.body[: [ast.unparse(x) for x in loop.body].index(need[0])]:
        if isinstance(s, ast.If) and not s.orelse and [ast.unparse(x) for x in s.body] == ["self.cancel(msg)"] \
                and isinstance(s.test, ast.Name):
            round_cancel_flag = s.test.id
    pre_cancel_flag = None
    for s in pre:
        if isinstance(s, ast.If) and not s.orelse and [ast.unparse(x) for x in s.body] == ["self.cancel(msg)"] \
                and isinstance(s.test, ast.Name):
            pre_cancel_flag = s.test.id
    # stop()
    sb = _strip(stop.body)
    ssrc = [ast.unparse(s) for s in sb]
    if not ssrc or ssrc[0] != "if not self._tasks:\n    return":
        raise Bad("stop(): early return on empty `_tasks` not found")
    cancel_at_call = "self.cancel(msg)" in ssrc
    tr = [s for s in sb if isinstance(s, ast.Try)]
    if len(tr) != 1:
        raise Bad("stop(): expected one try")
    tb = _strip(tr[0].body)
    if not (len(tb) == 1 and isinstance(tb[0], ast.Expr) and isinstance(tb[0].value, ast.Await)
            and isinstance(tb[0].value.value, ast.Call)):
        raise Bad("stop(): try body is not a single await")
    call = tb[0].value.value
    callee = ast.unparse(call.func)
    kw = {k.arg: ast.unparse(k.value) for k in call.keywords}
    if callee == "self.wait" and not call.args and not kw:
        cancel_rounds = False
        if helper is not None and round_cancel_flag is not None:
            pass  # wait() passes no flag: default must be False
    elif helper is not None and callee == f"self.{helper}" and not call.args:
        cancel_rounds = round_cancel_flag is not None and kw.get(round_cancel_flag) == "True"
        if pre_cancel_flag is not None and kw.get(pre_cancel_flag) == "True":
            cancel_at_call = True
    else:
        raise Bad(f"stop(): awaits {ast.unparse(call)}")
    for flag in {round_cancel_flag, pre_cancel_flag} - {None}:
        round_cancel_flag_ = flag
        # the flag must default to False so that wait() never cancels
        args = loop_fn.args
        names = [a.arg for a in args.kwonlyargs]
        if round_cancel_flag_ not in names or ast.unparse(args.kw_defaults[names.index(round_cancel_flag_)]) != "False":
            raise Bad("round-cancel flag has no `False` default")
    if not cancel_at_call and not cancel_rounds:
        raise Bad("stop(): no cancellation found")
    h = tr[0].handlers
    if not (len(h) == 1 and ast.unparse(h[0].type) == "BaseExceptionGroup"
            and "split(asyncio.CancelledError)" in ast.unparse(h[0]) and "raise rest" in ast.unparse(h[0])):
        raise Bad("stop(): handler does not split CancelledError out of the group")
    # is_running / cancel
    isr = [ast.unparse(s) for s in _strip(_fn(svc, "is_running").body)]
    if isr != ["return any((not task.done() for task in self._tasks))"]:
        raise Bad(f"is_running: {isr}")
    can = [ast.unparse(s) for s in _strip(_fn(svc, "cancel").body)]
    if can != ["for task in self._tasks:\n    task.cancel(msg)"]:
        raise Bad(f"cancel(): {can}")
    return [
        "/-- `wait()` raises its group only after the loop over batches has ended (all rounds). -/\n"
        f"def waitAllRounds : Bool := {'true' if all_rounds else 'false'}",
        "/-- `stop()` cancels the tasks present when it is called. -/\n"
        f"def stopCancelsAtCall : Bool := {'true' if (cancel_at_call or cancel_rounds) else 'false'}",
        "/-- `stop()` cancels again at the start of every later round (tasks that appeared meanwhile). -/\n"
        f"def stopCancelsEveryRound : Bool := {'true' if cancel_rounds else 'false'}",
    ]


# ----------------------------------------------------------------------------- _internal/_asyncio.py
def _guard(e: ast.expr, task: str) -> str:
    """The early-return test of cancel_and_await as a Lean Bool over `done : Bool` and `cancelling : Nat`."""
    if isinstance(e, ast.BoolOp):
        op = " || " if isinstance(e.op, ast.Or) else " && "
        return "(" + op.join(_guard(v, task) for v in e.values) + ")"
    if isinstance(e, ast.UnaryOp) and isinstance(e.op, ast.Not):
        return f"(!{_guard(e.operand, task)})"
    s = ast.unparse(e)
    if s == f"{task}.done()":
        return "done"
    if s == f"{task}.cancelling()":          # truthiness of an int
        return "decide (cancelling > 0)"
    if s == f"{task}.cancelled()":
        raise Bad("guard uses task.cancelled(): not modelled")
    if isinstance(e, ast.Compare) and len(e.ops) == 1 and ast.unparse(e.left) == f"{task}.cancelling()" \
            and isinstance(e.comparators[0], ast.Constant) and isinstance(e.comparators[0].value, int):
        sym = {ast.Lt: "<", ast.LtE: "≤", ast.Gt: ">", ast.GtE: "≥", ast.Eq: "=", ast.NotEq: "≠"}.get(type(e.ops[0]))
        if sym:
            return f"decide (cancelling {sym} {e.comparators[0].value})"
    if isinstance(e, ast.Constant) and isinstance(e.value, bool):
        return "true" if e.value else "false"
    raise Bad(f"cancel_and_await guard: unsupported {s}")


def _cancel_and_await(src: str) -> list[str]:
    tree = ast.parse(src)
    fn = next((n for n in tree.body if isinstance(n, ast.AsyncFunctionDef) and n.name == "cancel_and_await"), None)
    if fn is None:
        raise Bad("cancel_and_await not found")
    task = fn.args.args[0].arg
    body = _strip(fn.body)
    guard = "false"
    if body and isinstance(body[0], ast.If):
        g = body[0]
        if g.orelse or [ast.unparse(x) for x in g.body] != ["return"]:
            raise Bad("cancel_and_await: first `if` is not an early return")
        guard = _guard(g.test, task)
        body = body[1:]
    cancels = False
    if body and ast.unparse(body[0]) == f"{task}.cancel()":
        cancels = True
        body = body[1:]
    if not (len(body) == 1 and isinstance(body[0], ast.Try)):
        raise Bad("cancel_and_await: expected `try: await task except CancelledError: pass` at the end")
    tr = body[0]
    if [ast.unparse(x) for x in tr.body] != [f"await {task}"] or tr.orelse or tr.finalbody:
        raise Bad("cancel_and_await: try body is not `await task`")
    swallow = False
    for h in tr.handlers:
        ty = ast.unparse(h.type) if h.type is not None else "BaseException"
        if ty in ("asyncio.CancelledError", "CancelledError") and [ast.unparse(x) for x in h.body] == ["pass"]:
            swallow = True
        else:
            raise Bad(f"cancel_and_await: handler for {ty} not recognised")
    return [
        "/-- `cancel_and_await`: the test of its early `return` (`done` = `task.done()`, `cancelling` = `task.cancelling()`). -/\n"
        f"def caEarlyReturn (done : Bool) (cancelling : Nat) : Bool := {guard}",
        f"/-- `cancel_and_await` calls `task.cancel()` before awaiting. -/\ndef caCancels : Bool := {'true' if cancels else 'false'}",
        "/-- `await task` inside `cancel_and_await` swallows `CancelledError` (and nothing else). -/\n"
        f"def caSwallowsCancelled : Bool := {'true' if swallow else 'false'}",
    ]


def generate(repo: pathlib.Path) -> str:
    a = _actor((repo / SOURCES[0]).read_text())
    b = _service((repo / SOURCES[1]).read_text())
    c = _cancel_and_await((repo / SOURCES[2]).read_text())
    return "namespace Extracted.Actor\n\n" + "\n\n".join(a + b + c) + "\n\nend Extracted.Actor\n"
