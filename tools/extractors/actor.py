"""`actor/_actor.py`, `actor/_background_service.py`, `_internal/_asyncio.py` -> Lean constants and decision tables (C10).

Extracted (pure `ast`; raises when the source no longer has a shape whose meaning it can read):
  * `RESTART_DELAY` (µs) and the default of `_restart_limit`;
  * `_delay_if_restart`: the condition under which the delay is awaited, as a Lean `Bool` function of the iteration;
  * `_run_loop`: the `except` clauses in source order, WHICH ERROR KINDS each one catches (the classes it names — also
    tuples — classified with Python's builtin hierarchy: ExceptionGroup ⊂ Exception, BaseExceptionGroup ⊂ BaseException,
    CancelledError ⊂ BaseException, …), what each does (`reraise` | `restartOrReraise`), and the condition under which
    the restarting clause restarts, as a Lean `Bool` function of (limit, counter);
  * `Actor.start()`: guarded by `is_running`?;
  * `BackgroundService.wait()/stop()`: exception group raised per batch or after all rounds; `stop()` cancels at the
    call / in every round; `stop()` re-raises the group minus `CancelledError`;
  * `cancel_and_await`: its early-return condition as a Lean function of (`task.done()`, `task.cancelling()`), the
    `task.cancel()` call, the swallowed `CancelledError`.

Code is located by ROLE, not by position or by the names of locals.  Every function body is normalised first:
docstrings / logging calls / `pass` dropped; locals that only feed log messages removed; single-assignment locals
inlined (also `_, rest = g.split(E)` as `g.split(E)[1]`); guard clauses (`if c: return|raise|continue|break`) turned
into `if c: … else: <rest>`; `try … else: X` into `try …; X` when every handler leaves.  Conditions are then read off
the PATHS through the if-tree (a condition is the disjunction, over the paths that reach the action, of the conjunction
of the signed tests on the path), so inverted branches and early returns translate to equivalent Lean terms.
"""
from __future__ import annotations

import ast
import copy
import pathlib

NAME = "Actor"
SOURCES = ["src/frequenz/sdk/actor/_actor.py", "src/frequenz/sdk/actor/_background_service.py",
           "src/frequenz/sdk/_internal/_asyncio.py"]

PURE_CALLS = {"split", "total_seconds", "difference"}


class Bad(Exception):
    pass


# ----------------------------------------------------------------------------- exception classes
# Python's builtin exception hierarchy — the part that decides which `except` clause of `_run_loop` catches what
# `_run()` raised (direct bases; checked against the running interpreter by `_check_hierarchy`).
BASES: dict[str, list[str]] = {
    "BaseException": [],
    "Exception": ["BaseException"],
    "BaseExceptionGroup": ["BaseException"],
    "ExceptionGroup": ["BaseExceptionGroup", "Exception"],
    "CancelledError": ["BaseException"],        # asyncio.CancelledError (3.8+)
}
# Error kinds of the model = the coarsest partition of all errors that clauses naming the classes above can tell apart,
# each with the class whose set of ancestors is exactly what the members of the kind are instances of.
KIND_CLASS: dict[str, str] = {
    "exc": "Exception",                 # an Exception that is not a group
    "excGroup": "ExceptionGroup",       # (a BaseExceptionGroup of Exceptions only IS an ExceptionGroup)
    "baseExc": "BaseException",         # SystemExit / KeyboardInterrupt / GeneratorExit / user BaseException classes
    "baseGroup": "BaseExceptionGroup",  # a group with at least one non-Exception member
    "cancelled": "CancelledError",
}
CLASS_ALIASES = {"asyncio.CancelledError": "CancelledError", "asyncio.exceptions.CancelledError": "CancelledError",
                 "builtins.Exception": "Exception", "builtins.BaseException": "BaseException",
                 "builtins.ExceptionGroup": "ExceptionGroup", "builtins.BaseExceptionGroup": "BaseExceptionGroup"}


def _ancestors(cls: str) -> set[str]:
    out = {cls}
    for b in BASES[cls]:
        out |= _ancestors(b)
    return out


def _check_hierarchy() -> None:
    """The table above must be what the interpreter says (the extractor never imports the repo, only builtins)."""
    import asyncio
    import builtins

    real = {n: (asyncio.CancelledError if n == "CancelledError" else getattr(builtins, n)) for n in BASES}
    for a, ca in real.items():
        for b, cb in real.items():
            if issubclass(ca, cb) != (b in _ancestors(a)):
                raise Bad(f"exception hierarchy table is wrong about issubclass({a}, {b})")


def _handler_classes(h: ast.ExceptHandler) -> list[str]:
    """The classes named by one `except` clause (a bare `except:` names BaseException)."""
    if h.type is None:
        return ["BaseException"]
    elts = h.type.elts if isinstance(h.type, ast.Tuple) else [h.type]
    names = []
    for e in elts:
        s = CLASS_ALIASES.get(_u(e), _u(e))
        if s not in BASES:
            # a class below one of the representatives (ValueError, SystemExit, …) catches only part of a kind
            raise Bad(f"_run_loop: `except` clause names {s}: not one of {sorted(BASES)}")
        names.append(s)
    return names


def _kinds_caught(classes: list[str]) -> list[str]:
    """`isinstance(error, tuple(classes))` as a function of the error kind."""
    return [k for k, c in KIND_CLASS.items() if any(cls in _ancestors(c) for cls in classes)]


# ----------------------------------------------------------------------------- locating
def _cls(tree: ast.Module, name: str) -> ast.ClassDef:
    for n in tree.body:
        if isinstance(n, ast.ClassDef) and n.name == name:
            return n
    raise Bad(f"class {name} not found")


def _fn(scope: ast.ClassDef | ast.Module, name: str) -> ast.AsyncFunctionDef | ast.FunctionDef:
    for n in scope.body:
        if isinstance(n, (ast.FunctionDef, ast.AsyncFunctionDef)) and n.name == name:
            return n
    raise Bad(f"{getattr(scope, 'name', 'module')}.{name} not found")


def _u(n: ast.AST) -> str:
    return ast.unparse(n)


# ----------------------------------------------------------------------------- normalisation
def _is_jump(s: ast.stmt) -> bool:
    return isinstance(s, (ast.Return, ast.Raise, ast.Continue, ast.Break))


def _is_noise(s: ast.stmt) -> bool:
    if isinstance(s, ast.Pass):
        return True
    if isinstance(s, ast.Expr) and isinstance(s.value, ast.Constant):
        return True  # docstring / bare constant
    if isinstance(s, ast.Expr) and isinstance(s.value, ast.Call) and _u(s.value.func).startswith(("_logger.", "logging.", "print")):
        return True
    if isinstance(s, ast.Assert):
        return True
    return False


def _map_blocks(s: ast.stmt, f) -> ast.stmt:
    """Apply `f` (list[stmt] -> list[stmt]) to every nested statement list of `s`."""
    for field in ("body", "orelse", "finalbody"):
        if hasattr(s, field) and isinstance(getattr(s, field), list):
            setattr(s, field, f(getattr(s, field)))
    if isinstance(s, ast.Try):
        for h in s.handlers:
            h.body = f(h.body)
    return s


def _strip(stmts: list[ast.stmt]) -> list[ast.stmt]:
    return [_map_blocks(s, _strip) for s in stmts if not _is_noise(s)]


def _split_tuple_assign(stmts: list[ast.stmt]) -> list[ast.stmt]:
    """`a, b = f(x)` (pure f, no await) -> `a = f(x)[0]; b = f(x)[1]`."""
    out: list[ast.stmt] = []
    for s in stmts:
        s = _map_blocks(s, _split_tuple_assign)
        if (isinstance(s, ast.Assign) and len(s.targets) == 1 and isinstance(s.targets[0], ast.Tuple)
                and all(isinstance(e, ast.Name) for e in s.targets[0].elts) and isinstance(s.value, ast.Call)
                and isinstance(s.value.func, ast.Attribute) and s.value.func.attr in PURE_CALLS):
            for i, e in enumerate(s.targets[0].elts):
                out.append(ast.Assign(targets=[ast.Name(id=e.id, ctx=ast.Store())],
                                      value=ast.Subscript(value=copy.deepcopy(s.value), slice=ast.Constant(value=i), ctx=ast.Load()),
                                      lineno=0))
        else:
            out.append(s)
    return out


def _walk_stmts(stmts: list[ast.stmt]):
    for s in stmts:
        yield s
        for field in ("body", "orelse", "finalbody"):
            if isinstance(getattr(s, field, None), list):
                yield from _walk_stmts(getattr(s, field))
        if isinstance(s, ast.Try):
            for h in s.handlers:
                yield from _walk_stmts(h.body)


def _simple_target(s: ast.stmt) -> str | None:
    if isinstance(s, ast.Assign) and len(s.targets) == 1 and isinstance(s.targets[0], ast.Name):
        return s.targets[0].id
    if isinstance(s, ast.AnnAssign) and isinstance(s.target, ast.Name) and s.value is not None:
        return s.target.id
    return None


def _has(node: ast.AST, kinds) -> bool:
    return any(isinstance(n, kinds) for n in ast.walk(node))


def _calls_only_pure(node: ast.AST) -> bool:
    return all(isinstance(c.func, ast.Attribute) and c.func.attr in PURE_CALLS for c in ast.walk(node) if isinstance(c, ast.Call))


class _Subst(ast.NodeTransformer):
    def __init__(self, name: str, value: ast.expr):
        self.name, self.value = name, value

    def visit_Name(self, node: ast.Name):  # noqa: N802
        if node.id == self.name and isinstance(node.ctx, ast.Load):
            return copy.deepcopy(self.value)
        return node


def _drop_assign(stmts: list[ast.stmt], names: set[str], keep_effects: bool = False) -> list[ast.stmt]:
    out = []
    for s in stmts:
        if _simple_target(s) in names:
            if keep_effects and not _calls_only_pure(s.value):
                out.append(ast.Expr(value=s.value))     # `_ = task.result()` still calls (and may raise)
            continue
        out.append(_map_blocks(s, lambda b: _drop_assign(b, names, keep_effects)))
    return out


def _terminates(block: list[ast.stmt]) -> bool:
    if not block:
        return False
    last = block[-1]
    if _is_jump(last):
        return True
    return isinstance(last, ast.If) and _terminates(last.body) and _terminates(last.orelse)


def _simplify_locals(stmts: list[ast.stmt], params: set[str]) -> list[ast.stmt]:
    """Remove locals that feed nothing but themselves (log strings), inline single-assignment locals."""
    for _ in range(20):
        allst = list(_walk_stmts(stmts))
        # every way a name gets bound
        bound: dict[str, int] = {}
        for n in ast.walk(ast.Module(body=stmts, type_ignores=[])):
            if isinstance(n, ast.Name) and isinstance(n.ctx, (ast.Store, ast.Del)):
                bound[n.id] = bound.get(n.id, 0) + 1
            if isinstance(n, ast.ExceptHandler) and n.name:
                bound[n.name] = bound.get(n.name, 0) + 2
            if isinstance(n, ast.AugAssign) and isinstance(n.target, ast.Name):
                bound[n.target.id] = bound.get(n.target.id, 0) + 1
        simple = {t for s in allst if (t := _simple_target(s)) and t not in params}
        # 1. dead: never loaded outside assignments to dead names
        dead = set(simple)
        changed = True
        while changed:
            changed = False
            for s in allst:
                tgt = _simple_target(s)
                nodes = [s.value] if (tgt in dead and tgt is not None) else None  # loads inside a dead assignment do not count
                if nodes is not None:
                    continue
                own: list[ast.AST] = []
                if isinstance(s, (ast.If, ast.While)):
                    own = [s.test]
                elif isinstance(s, ast.For):
                    own = [s.iter]
                elif isinstance(s, ast.Try):
                    own = []
                elif isinstance(s, ast.With):
                    own = [i.context_expr for i in s.items]
                else:
                    own = [s]
                for o in own:
                    for n in ast.walk(o):
                        if isinstance(n, ast.Name) and isinstance(n.ctx, ast.Load) and n.id in dead:
                            dead.discard(n.id)
                            changed = True
        dead = {d for d in dead if all(not _has(s.value, ast.Await) for s in allst if _simple_target(s) == d)}
        if dead:
            stmts = _drop_assign(stmts, dead, keep_effects=True)
            continue
        # 2. inline one single-assignment local
        done = False
        for s in allst:
            t = _simple_target(s)
            if t is None or t in params or bound.get(t, 0) != 1 or _has(s.value, ast.Await):
                continue
            if isinstance(s.value, (ast.List, ast.Dict, ast.Set, ast.ListComp, ast.SetComp)) or _u(s.value) == "set()":
                continue  # a container that is mutated later
            uses = sum(1 for x in allst for n in ast.walk(x) if isinstance(n, ast.Name) and isinstance(n.ctx, ast.Load) and n.id == t)
            # (walking nested statements counts a use once per enclosing statement: normalise by direct count)
            uses = sum(1 for n in ast.walk(ast.Module(body=stmts, type_ignores=[])) if isinstance(n, ast.Name) and isinstance(n.ctx, ast.Load) and n.id == t)
            if uses == 1 or _calls_only_pure(s.value):
                stmts = _drop_assign(stmts, {t})
                mod = ast.Module(body=stmts, type_ignores=[])
                stmts = _Subst(t, s.value).visit(mod).body
                done = True
                break
        if not done:
            break
    return stmts


def _guards(stmts: list[ast.stmt]) -> list[ast.stmt]:
    """`if c: …jump` followed by more statements -> `if c: …jump else: <rest>`;  `try … else: X` -> `try …; X`."""
    out: list[ast.stmt] = []
    i = 0
    stmts = list(stmts)
    while i < len(stmts):
        s = _map_blocks(stmts[i], _guards)
        rest = stmts[i + 1:]
        if isinstance(s, ast.Try) and s.orelse and all(_terminates(h.body) for h in s.handlers):
            moved, s.orelse = s.orelse, []
            stmts = stmts[: i + 1] + moved + rest
            rest = stmts[i + 1:]
        if isinstance(s, ast.If) and rest:
            if s.body and _is_jump(s.body[-1]) and not s.orelse:
                s.orelse = _guards(rest)
                out.append(s)
                return out
            if s.orelse and _is_jump(s.orelse[-1]) and not (s.body and _is_jump(s.body[-1])):
                s.body = s.body + _guards(rest)
                out.append(s)
                return out
        out.append(s)
        i += 1
    return out


def _normalise(fn: ast.FunctionDef | ast.AsyncFunctionDef) -> list[ast.stmt]:
    body = copy.deepcopy(fn.body)
    params = {a.arg for a in fn.args.args + fn.args.kwonlyargs}
    body = _strip(body)
    body = _split_tuple_assign(body)
    body = _simplify_locals(body, params)
    body = _strip(body)
    body = _guards(body)
    return body


def _paths(stmts: list[ast.stmt]) -> list[tuple[list[tuple[ast.expr, bool]], list[ast.stmt]]]:
    """Paths through the if-tree: (signed tests, straight-line actions incl. the final jump)."""
    if not stmts:
        return [([], [])]
    s, rest = stmts[0], stmts[1:]
    if isinstance(s, ast.If):
        out = []
        test, flip = s.test, False
        while isinstance(test, ast.UnaryOp) and isinstance(test.op, ast.Not):   # `if not c: A else: B` = `if c: B else: A`
            test, flip = test.operand, not flip
        for pol, branch in ((True, s.body), (False, s.orelse)):
            lit = (test, pol != flip)
            for c1, a1 in _paths(branch):
                if a1 and _is_jump(a1[-1]):
                    out.append(([lit] + c1, a1))
                else:
                    for c2, a2 in _paths(rest):
                        out.append(([lit] + c1 + c2, a1 + a2))
        return out
    if _is_jump(s):
        return [([], [s])]
    return [(c, [s] + a) for c, a in _paths(rest)]


def _dnf(paths: list[list[tuple[ast.expr, bool]]], tr) -> str:
    """Lean Bool: OR over paths of AND of signed tests (`tr` translates one test)."""
    if not paths:
        return "false"
    terms = []
    for conds in paths:
        if not conds:
            return "true"
        lits = [tr(e) if pol else f"(!{tr(e)})" for e, pol in conds]
        terms.append("(" + " && ".join(lits) + ")")
    return "(" + " || ".join(terms) + ")"


# ----------------------------------------------------------------------------- expressions
def _expr(e: ast.expr, env: dict[str, str]) -> str:
    """A boolean test over a Nat counter `n` / an Option Nat `limit` as a Lean Bool term."""
    if isinstance(e, ast.BoolOp):
        op = " || " if isinstance(e.op, ast.Or) else " && "
        return "(" + op.join(_expr(v, env) for v in e.values) + ")"
    if isinstance(e, ast.UnaryOp) and isinstance(e.op, ast.Not):
        return f"(!{_expr(e.operand, env)})"
    if isinstance(e, ast.Compare) and len(e.ops) > 1:  # a < b < c
        parts, left = [], e.left
        for op, right in zip(e.ops, e.comparators):
            parts.append(_expr(ast.Compare(left=left, ops=[op], comparators=[right]), env))
            left = right
        return "(" + " && ".join(parts) + ")"
    if isinstance(e, ast.Compare):
        l, r, op = e.left, e.comparators[0], e.ops[0]
        for a, b in ((l, r), (r, l)):
            if isinstance(op, (ast.Is, ast.IsNot, ast.Eq, ast.NotEq)) and isinstance(b, ast.Constant) and b.value is None \
                    and env.get(_u(a)) == "limit":
                return "limit.isNone" if isinstance(op, (ast.Is, ast.Eq)) else "limit.isSome"
        sym = {ast.Lt: "<", ast.LtE: "≤", ast.Gt: ">", ast.GtE: "≥", ast.Eq: "=", ast.NotEq: "≠"}.get(type(op))
        if sym is None:
            raise Bad(f"comparison {_u(e)}")
        return f"decide ({_atom(l, env)} {sym} {_atom(r, env)})"
    if isinstance(e, ast.Constant) and isinstance(e.value, bool):
        return "true" if e.value else "false"
    raise Bad(f"unsupported test {_u(e)}")


def _atom(e: ast.expr, env: dict[str, str]) -> str:
    s = _u(e)
    if isinstance(e, ast.Constant) and isinstance(e.value, int) and not isinstance(e.value, bool) and e.value >= 0:
        return f"({e.value} : Int)"
    if env.get(s) == "n":
        return "(n : Int)"
    if env.get(s) == "limit":
        # only evaluated when the limit is not None (Python raises TypeError otherwise — an Exception inside the
        # handler, the task dies): `none` is mapped to -1, i.e. "never restart"
        return "(match limit with | some l => (l : Int) | none => -1)"
    if isinstance(e, ast.BinOp) and isinstance(e.op, (ast.Add, ast.Sub)):
        return f"({_atom(e.left, env)} {'+' if isinstance(e.op, ast.Add) else '-'} {_atom(e.right, env)})"
    raise Bad(f"unsupported operand {s}")


# ----------------------------------------------------------------------------- _actor.py
def _actor(src: str) -> list[str]:
    tree = ast.parse(src)
    actor = _cls(tree, "Actor")
    out: list[str] = []
    delay_us = None
    limit = "missing"
    for n in actor.body:
        tgt = n.target if isinstance(n, ast.AnnAssign) else (n.targets[0] if isinstance(n, ast.Assign) and len(n.targets) == 1 else None)
        if isinstance(tgt, ast.Name) and n.value is not None:
            if tgt.id == "RESTART_DELAY":
                v = n.value
                if not (isinstance(v, ast.Call) and _u(v.func) in ("timedelta", "datetime.timedelta")) or v.args:
                    raise Bad("RESTART_DELAY is not timedelta(kw=…)")
                unit = {"days": 86400_000_000, "hours": 3600_000_000, "minutes": 60_000_000, "seconds": 1_000_000,
                        "milliseconds": 1000, "microseconds": 1}
                total = 0
                for kw in v.keywords:
                    q = ast.literal_eval(kw.value) * unit[kw.arg]
                    if q != int(q):
                        raise Bad("RESTART_DELAY not a whole number of µs")
                    total += int(q)
                delay_us = total
            if tgt.id == "_restart_limit":
                limit = ast.literal_eval(n.value)
    if delay_us is None or limit == "missing":
        raise Bad("RESTART_DELAY / _restart_limit not found")
    if not (limit is None or (isinstance(limit, int) and not isinstance(limit, bool) and limit >= 0)):
        raise Bad(f"_restart_limit default {limit!r}")
    out.append(f"/-- `Actor.RESTART_DELAY` in microseconds. -/\ndef restartDelayUs : Int := {delay_us}")
    out.append("/-- default of `Actor._restart_limit` (`none` = unlimited). -/\n"
               f"def defaultRestartLimit : Option Nat := {'none' if limit is None else f'some {limit}'}")

    # _delay_if_restart(it): under which condition is `await asyncio.sleep(RESTART_DELAY.total_seconds())` reached?
    d = _fn(actor, "_delay_if_restart")
    arg = d.args.args[1].arg
    sleeping, other = [], []
    for conds, acts in _paths(_normalise(d)):
        acts = [a for a in acts if not (isinstance(a, ast.Return) and a.value is None)]
        srcs = [_u(a) for a in acts]
        if srcs == ["await asyncio.sleep(self.RESTART_DELAY.total_seconds())"]:
            sleeping.append(conds)
        elif not srcs:
            other.append(conds)
        else:
            raise Bad(f"_delay_if_restart: unexpected actions {srcs}")
    if not sleeping:
        raise Bad("_delay_if_restart: never sleeps for RESTART_DELAY")
    out.append("/-- `_delay_if_restart`: is the delay awaited before iteration `n`? -/\n"
               f"def delayApplies (n : Nat) : Bool := {_dnf(sleeping, lambda e: _expr(e, {arg: 'n'}))}")

    # _run_loop
    rl = _fn(actor, "_run_loop")
    body = _normalise(rl)
    loops = [s for s in body if isinstance(s, ast.While)]
    if len(loops) != 1 or _u(loops[0].test) != "True" or loops[0].orelse:
        raise Bad("_run_loop: expected one `while True:`")
    loop = loops[0]
    after_loop = body[body.index(loop) + 1:]
    if any(not (isinstance(s, ast.Return) and s.value is None) for s in after_loop):
        raise Bad("_run_loop: statements after the loop")
    wbody = loop.body
    if not wbody or not isinstance(wbody[0], ast.Try):
        raise Bad("_run_loop: the loop does not start with the try")
    tr = wbody[0]
    if tr.orelse or tr.finalbody:
        raise Bad("_run_loop: try/else/finally not understood")
    tb = [_u(s) for s in tr.body]
    if not (len(tb) == 2 and tb[1] == "await self._run()" and isinstance(tr.body[0], ast.Expr)
            and isinstance(tr.body[0].value, ast.Await) and isinstance(tr.body[0].value.value, ast.Call)
            and _u(tr.body[0].value.value.func) == "self._delay_if_restart" and len(tr.body[0].value.value.args) == 1
            and isinstance(tr.body[0].value.value.args[0], ast.Name)):
        raise Bad(f"_run_loop: try body is {tb}")
    ctr = tr.body[0].value.value.args[0].id       # the restart counter: whatever local is passed to the delay
    pre = body[: body.index(loop)]
    inits = [s for s in pre if _simple_target(s) == ctr]
    if len(inits) != 1 or _u(inits[0].value) != "0" or len(pre) != 1:
        raise Bad("_run_loop: the restart counter is not initialised to 0 right before the loop")
    # a normal return of _run() must leave the loop
    tail = wbody[1:]
    for conds, acts in _paths(tail):
        if [type(a) for a in acts] not in ([ast.Break], [ast.Return]):
            raise Bad(f"_run_loop: after a normal return of _run(): {[_u(a) for a in acts]}")
    handlers = []
    allowed = None
    for h in tr.handlers:
        classes = _handler_classes(h)
        ty = "(" + ", ".join(classes) + ")" if len(classes) != 1 else classes[0]
        restart, reraise = [], []
        for conds, acts in _paths(h.body):
            srcs = [_u(a) for a in acts]
            if srcs == ["raise"]:
                reraise.append(conds)
            elif srcs in ([f"{ctr} += 1", "continue"], [f"{ctr} = {ctr} + 1", "continue"]):
                restart.append(conds)
            else:
                raise Bad(f"_run_loop: handler for {ty}: path does {srcs}")
        if restart:
            if allowed is not None:
                raise Bad("_run_loop: two restarting handlers")
            allowed = _dnf(restart, lambda e: _expr(e, {ctr: "n", "self._restart_limit": "limit"}))
            handlers.append((classes, "restartOrReraise"))
        else:
            handlers.append((classes, "reraise"))
    if allowed is None:
        allowed = "false"
    out.append("/-- the condition under which the restarting `except` clause of `_run_loop` restarts (`n` = the restart counter). -/\n"
               f"def restartAllowed (limit : Option Nat) (n : Nat) : Bool := {allowed}")
    out.append("inductive Action | reraise | restartOrReraise\nderiving DecidableEq, Repr")
    out.append(
        "/-- The kinds of error an invocation of `_run()` can end with, as far as Python's builtin class hierarchy lets an\n"
        "`except` clause of `_run_loop` tell them apart (representative class; its ancestors):\n"
        + "".join(f"  * `{k}` — `{c}`; caught by a clause naming any of: {', '.join(sorted(_ancestors(c)))}\n"
                  for k, c in KIND_CLASS.items())
        + "(`exc`: an `Exception` that is no group; `baseExc`: a `BaseException` outside `Exception` that is neither a group nor\n"
        "`CancelledError`, e.g. `SystemExit`, `KeyboardInterrupt`, `GeneratorExit`, user classes; `baseGroup`: a\n"
        "`BaseExceptionGroup` that is not an `ExceptionGroup`, i.e. with at least one non-`Exception` member.) -/\n"
        "inductive ExcKind | " + " | ".join(KIND_CLASS) + "\nderiving DecidableEq, Repr")
    hs = ", ".join("([" + ", ".join(f".{k}" for k in _kinds_caught(cs)) + f"], Action.{a})" for cs, a in handlers)
    out.append("/-- the `except` clauses of `_run_loop`, in source order: the error kinds each one catches (`isinstance` against the\n"
               "classes it names, by the builtin hierarchy) and what it does. -/\n"
               f"def handlers : List (List ExcKind × Action) := [{hs}]")
    hc = ", ".join("[" + ", ".join(f'"{c}"' for c in cs) + "]" for cs, _ in handlers)
    out.append("/-- the classes named by those clauses (documentation; `handlers` is computed from them). -/\n"
               f"def handlerClasses : List (List String) := [{hc}]")

    # start(): [clear, add(create_task(_run_loop()))] under `not is_running` (or unconditionally)
    guarded = None
    for conds, acts in _paths(_normalise(_fn(actor, "start"))):
        srcs = [_u(a) for a in acts if not (isinstance(a, ast.Return) and a.value is None)]
        if not srcs:
            if [( _u(e), pol) for e, pol in conds] != [("self.is_running", True)]:
                raise Bad("Actor.start: does nothing under a condition other than `is_running`")
        elif srcs == ["self._tasks.clear()", "self._tasks.add(asyncio.create_task(self._run_loop()))"]:
            cs = [(_u(e), pol) for e, pol in conds]
            if cs == [("self.is_running", False)]:
                guarded = True
            elif not cs:
                guarded = False
            else:
                raise Bad(f"Actor.start: starts under {cs}")
        else:
            raise Bad(f"Actor.start: unrecognised actions {srcs}")
    if guarded is None:
        raise Bad("Actor.start: never starts the run loop")
    out.append("/-- `Actor.start()` returns early while `is_running`. -/\n"
               f"def startGuarded : Bool := {'true' if guarded else 'false'}")
    return out


# ----------------------------------------------------------------------------- _background_service.py
def _find_loop(stmts: list[ast.stmt]) -> ast.While | None:
    for s in stmts:
        if isinstance(s, ast.While) and _u(s.test) == "self._tasks":
            return s
    return None


def _is_result_helper(mod: ast.Module, name: str) -> bool:
    """`def h(t): try: [_ =] t.result() except BaseException as e: return e; return None`"""
    try:
        fn = _fn(mod, name)
    except Bad:
        return False
    b = _normalise(fn)
    arg = fn.args.args[0].arg
    if not b or not isinstance(b[0], ast.Try) or len(b[0].handlers) != 1:
        return False
    t = b[0]
    h = t.handlers[0]
    ok_body = [_u(x) for x in t.body] in ([f"_ = {arg}.result()"], [f"{arg}.result()"])
    ok_h = _u(h.type) == "BaseException" and h.name and [_u(x) for x in h.body] == [f"return {h.name}"]
    ok_tail = [_u(x) for x in b[1:]] in ([], ["return None"], ["return"])
    return bool(ok_body and ok_h and ok_tail and not t.orelse and not t.finalbody)


def _collects(forstmt: ast.For, mod: ast.Module) -> str | None:
    """`for t in D: <append the exception of t.result() to L>` -> L."""
    if not isinstance(forstmt.target, ast.Name) or forstmt.orelse:
        return None
    t = forstmt.target.id
    b = forstmt.body
    if len(b) == 1 and isinstance(b[0], ast.Try) and len(b[0].handlers) == 1 and not b[0].orelse and not b[0].finalbody:
        h = b[0].handlers[0]
        if [_u(x) for x in b[0].body] in ([f"_ = {t}.result()"], [f"{t}.result()"]) and h.type is not None \
                and _u(h.type) == "BaseException" and h.name and len(h.body) == 1:
            c = h.body[0]
            if isinstance(c, ast.Expr) and isinstance(c.value, ast.Call) and isinstance(c.value.func, ast.Attribute) \
                    and c.value.func.attr == "append" and [_u(a) for a in c.value.args] == [h.name] \
                    and isinstance(c.value.func.value, ast.Name):
                return c.value.func.value.id
    # via a trivially extracted helper: `if helper(t) is not None: L.append(helper(t))` (after inlining) or with a local
    ps = _paths(b)
    app = [(c, a) for c, a in ps if a]
    if len(app) == 1 and len(ps) == 2:
        conds, acts = app[0]
        if len(acts) == 1 and isinstance(acts[0], ast.Expr) and isinstance(acts[0].value, ast.Call) \
                and isinstance(acts[0].value.func, ast.Attribute) and acts[0].value.func.attr == "append" \
                and isinstance(acts[0].value.func.value, ast.Name) and len(acts[0].value.args) == 1:
            arg = acts[0].value.args[0]
            call = arg
            pre_assign = None
            if isinstance(arg, ast.Name):
                return None
            if isinstance(call, ast.Call) and isinstance(call.func, ast.Name) and [_u(a) for a in call.args] == [t] \
                    and _is_result_helper(mod, call.func.id) and len(conds) == 1:
                e, pol = conds[0]
                if (_u(e), pol) in ((f"{_u(call)} is not None", True), (f"{_u(call)} is None", False)):
                    return acts[0].value.func.value.id
    return None


def _service(src: str) -> list[str]:
    tree = ast.parse(src)
    svc = _cls(tree, "BackgroundService")
    wait_b = _normalise(_fn(svc, "wait"))
    loop_fn = _fn(svc, "wait")
    loop_body = wait_b
    helper = None
    if _find_loop(wait_b) is None:
        if not (len(wait_b) == 1 and isinstance(wait_b[0], ast.Expr) and isinstance(wait_b[0].value, ast.Await)
                and isinstance(wait_b[0].value.value, ast.Call) and not wait_b[0].value.value.args
                and not wait_b[0].value.value.keywords and _u(wait_b[0].value.value.func).startswith("self.")):
            raise Bad("wait(): neither the batch loop nor a plain `await self.<helper>()`")
        helper = _u(wait_b[0].value.value.func)[5:]
        loop_fn = _fn(svc, helper)
        loop_body = _inline_result_local(_normalise(loop_fn))
    loop = _find_loop(loop_body)
    if loop is None or loop.orelse:
        raise Bad("batch loop `while self._tasks:` not found")
    pre = loop_body[: loop_body.index(loop)]
    post = loop_body[loop_body.index(loop) + 1:]
    # roles inside the loop
    waits = [s for s in loop.body if isinstance(s, ast.Assign) and _u(s.value) == "await asyncio.wait(self._tasks)"
             and isinstance(s.targets[0], ast.Tuple) and len(s.targets[0].elts) == 2]
    if len(waits) != 1:
        raise Bad("wait loop: `<done>, <pending> = await asyncio.wait(self._tasks)` not found")
    iw = loop.body.index(waits[0])
    done = _u(waits[0].targets[0].elts[0])
    removes = [s for s in loop.body[iw + 1:] if _u(s) in (f"self._tasks = self._tasks - {done}", f"self._tasks -= {done}",
                                                          f"self._tasks = self._tasks.difference({done})",
                                                          f"self._tasks.difference_update({done})")]
    if len(removes) != 1:
        raise Bad("wait loop: the finished tasks are not removed from `_tasks` after the wait")
    fors = [s for s in loop.body[iw + 1:] if isinstance(s, ast.For) and _u(s.iter) == done]
    if len(fors) != 1:
        raise Bad("wait loop: no loop over the finished tasks")
    lst = _collects(fors[0], tree)
    if lst is None:
        raise Bad("wait loop: cannot see that every exception of `task.result()` is appended to one list")

    def is_init(s: ast.stmt) -> bool:
        return _simple_target(s) == lst and _u(s.value) == "[]"

    def raises_group(stmts: list[ast.stmt]) -> bool:
        for conds, acts in _paths(stmts):
            for a in acts:
                if isinstance(a, ast.Raise) and a.exc is not None and isinstance(a.exc, ast.Call) \
                        and _u(a.exc.func) == "BaseExceptionGroup" and len(a.exc.args) == 2 and _u(a.exc.args[1]) == lst:
                    if [(_u(e), pol) for e, pol in conds] != [(lst, True)]:
                        raise Bad("wait loop: the group is not raised under `if <list>:`")
                    return True
        return False

    known = {id(waits[0]), id(removes[0]), id(fors[0])}
    in_init = [s for s in loop.body if is_init(s)]
    rest_in_loop = [s for s in loop.body if id(s) not in known and not is_init(s)]
    in_raise = raises_group([s for s in rest_in_loop if isinstance(s, ast.If) and loop.body.index(s) > iw])
    pre_init = any(is_init(s) for s in pre)
    post_raise = raises_group(post)
    if in_raise and in_init and loop.body.index(in_init[0]) < loop.body.index(fors[0]) and not post_raise and not pre_init:
        all_rounds = False
    elif post_raise and pre_init and not in_raise and not in_init:
        all_rounds = True
    else:
        raise Bad("wait loop: cannot tell whether exceptions are raised per batch or after all rounds")
    # cancel in every round?  `if <flag>: self.cancel(msg)` before the asyncio.wait
    def cancel_flag(stmts: list[ast.stmt]) -> str | None:
        for s in stmts:
            if isinstance(s, ast.If) and not s.orelse and [_u(x) for x in s.body] == ["self.cancel(msg)"] and isinstance(s.test, ast.Name):
                return s.test.id
        return None

    round_flag = cancel_flag(loop.body[:iw])
    pre_flag = cancel_flag(pre)
    other = [s for s in rest_in_loop if not (isinstance(s, ast.If) and (cancel_flag([s]) or loop.body.index(s) > iw))]
    if other:
        raise Bad(f"wait loop: unexpected statement {_u(other[0])[:60]}")

    # stop(): nothing when `_tasks` is empty; else cancel + wait, re-raise the group minus CancelledError
    stop = _fn(svc, "stop")
    sb = _normalise(stop)
    work = None
    for conds, acts in _paths(sb):
        acts = [a for a in acts if not (isinstance(a, ast.Return) and a.value is None)]
        cs = [(_u(e), pol) for e, pol in conds]
        if not acts:
            if cs != [("self._tasks", False)]:
                raise Bad(f"stop(): returns early under {cs}")
        else:
            if cs not in ([("self._tasks", True)],):
                raise Bad(f"stop(): works under {cs}")
            work = acts
    if work is None:
        raise Bad("stop(): never waits")
    cancel_at_call = False
    if work and _u(work[0]) == "self.cancel(msg)":
        cancel_at_call = True
        work = work[1:]
    if not (len(work) == 1 and isinstance(work[0], ast.Try) and not work[0].orelse and not work[0].finalbody):
        raise Bad("stop(): expected `[self.cancel(msg);] try: await …`")
    tr = work[0]
    if not (len(tr.body) == 1 and isinstance(tr.body[0], ast.Expr) and isinstance(tr.body[0].value, ast.Await)
            and isinstance(tr.body[0].value.value, ast.Call)):
        raise Bad("stop(): try body is not a single await")
    call = tr.body[0].value.value
    callee = _u(call.func)
    kw = {k.arg: _u(k.value) for k in call.keywords}
    cancel_rounds = False
    if callee == "self.wait" and not call.args and not kw:
        pass
    elif helper is not None and callee == f"self.{helper}" and not call.args:
        cancel_rounds = round_flag is not None and kw.get(round_flag) == "True"
        if pre_flag is not None and kw.get(pre_flag) == "True":
            cancel_at_call = True
    else:
        raise Bad(f"stop(): awaits {_u(call)}")
    for flag in {round_flag, pre_flag} - {None}:
        names = [a.arg for a in loop_fn.args.kwonlyargs]
        if flag not in names or _u(loop_fn.args.kw_defaults[names.index(flag)]) != "False":
            raise Bad("cancel flag of the wait helper has no `False` default")   # wait() must never cancel
    if not cancel_at_call and not cancel_rounds:
        raise Bad("stop(): no cancellation found")
    if len(tr.handlers) != 1 or _u(tr.handlers[0].type) != "BaseExceptionGroup" or not tr.handlers[0].name:
        raise Bad("stop(): expected one `except BaseExceptionGroup as g`")
    g = tr.handlers[0].name
    rest = f"{g}.split(asyncio.CancelledError)[1]"
    seen_raise = False
    for conds, acts in _paths(tr.handlers[0].body):
        acts = [a for a in acts if not (isinstance(a, ast.Return) and a.value is None)]
        cs = [(_u(e), pol) for e, pol in conds]
        if not acts:
            if cs not in ([(f"{rest} is not None", False)], [(f"{rest} is None", True)]):
                raise Bad(f"stop(): swallows the group under {cs}")
        elif [_u(a) for a in acts] == [f"raise {rest}"] and cs in ([(f"{rest} is not None", True)], [(f"{rest} is None", False)]):
            seen_raise = True
        else:
            raise Bad(f"stop(): handler does {[_u(a) for a in acts]} under {cs}")
    if not seen_raise:
        raise Bad("stop(): the group minus CancelledError is never re-raised")

    # is_running / cancel
    isr = _normalise(_fn(svc, "is_running"))
    ok = False
    if len(isr) == 1 and isinstance(isr[0], ast.Return) and isinstance(isr[0].value, ast.Call) and _u(isr[0].value.func) == "any" \
            and len(isr[0].value.args) == 1 and isinstance(isr[0].value.args[0], (ast.GeneratorExp, ast.ListComp)):
        ge = isr[0].value.args[0]
        if len(ge.generators) == 1 and not ge.generators[0].ifs and _u(ge.generators[0].iter) == "self._tasks" \
                and _u(ge.elt) == f"not {_u(ge.generators[0].target)}.done()":
            ok = True
    elif len(isr) == 2 and isinstance(isr[0], ast.For) and _u(isr[0].iter) == "self._tasks" and not isr[0].orelse \
            and _u(isr[1]) == "return False" and isinstance(isr[0].target, ast.Name):
        t = isr[0].target.id
        ps = [([(_u(e), pol) for e, pol in c], [_u(x) for x in a]) for c, a in _paths(isr[0].body)]
        if sorted(ps) == sorted([([(f"{t}.done()", False)], ["return True"]), ([(f"{t}.done()", True)], [])]):
            ok = True
    if not ok:
        raise Bad("is_running: not `any(not task.done() for task in self._tasks)`")
    can = _normalise(_fn(svc, "cancel"))
    if not (len(can) == 1 and isinstance(can[0], ast.For) and _u(can[0].iter) == "self._tasks" and isinstance(can[0].target, ast.Name)
            and [_u(x) for x in can[0].body] == [f"{can[0].target.id}.cancel(msg)"] and not can[0].orelse):
        raise Bad("cancel(): not `for task in self._tasks: task.cancel(msg)`")
    return [
        "/-- `wait()` raises its group only after the loop over batches has ended (all rounds). -/\n"
        f"def waitAllRounds : Bool := {'true' if all_rounds else 'false'}",
        "/-- `stop()` cancels the tasks present when it is called. -/\n"
        f"def stopCancelsAtCall : Bool := {'true' if (cancel_at_call or cancel_rounds) else 'false'}",
        "/-- `stop()` cancels again at the start of every later round (tasks that appeared meanwhile). -/\n"
        f"def stopCancelsEveryRound : Bool := {'true' if cancel_rounds else 'false'}",
    ]


def _inline_result_local(stmts: list[ast.stmt]) -> list[ast.stmt]:
    """Inside `for t in D:` bodies, inline `e = helper(t)` (assigned once per iteration) into its uses."""
    out = []
    for s in stmts:
        s = _map_blocks(s, _inline_result_local)
        if isinstance(s, ast.For) and s.body and _simple_target(s.body[0]) and isinstance(s.body[0].value, ast.Call) \
                and isinstance(s.body[0].value.func, ast.Name):
            name, val = _simple_target(s.body[0]), s.body[0].value
            mod = ast.Module(body=s.body[1:], type_ignores=[])
            s.body = _Subst(name, val).visit(mod).body
        out.append(s)
    return out


# ----------------------------------------------------------------------------- _internal/_asyncio.py
def _guard(e: ast.expr, task: str) -> str:
    """A test of cancel_and_await as a Lean Bool over `done : Bool` and `cancelling : Nat`."""
    if isinstance(e, ast.BoolOp):
        op = " || " if isinstance(e.op, ast.Or) else " && "
        return "(" + op.join(_guard(v, task) for v in e.values) + ")"
    if isinstance(e, ast.UnaryOp) and isinstance(e.op, ast.Not):
        return f"(!{_guard(e.operand, task)})"
    s = _u(e)
    if s == f"{task}.done()":
        return "done"
    if s == f"{task}.cancelling()":          # truthiness of an int
        return "decide (cancelling > 0)"
    if isinstance(e, ast.Compare) and len(e.ops) == 1 and _u(e.left) == f"{task}.cancelling()" \
            and isinstance(e.comparators[0], ast.Constant) and isinstance(e.comparators[0].value, int):
        sym = {ast.Lt: "<", ast.LtE: "≤", ast.Gt: ">", ast.GtE: "≥", ast.Eq: "=", ast.NotEq: "≠"}.get(type(e.ops[0]))
        if sym:
            return f"decide (cancelling {sym} {e.comparators[0].value})"
    if isinstance(e, ast.Constant) and isinstance(e.value, bool):
        return "true" if e.value else "false"
    raise Bad(f"cancel_and_await: unsupported test {s}")


def _cancel_and_await(src: str) -> list[str]:
    tree = ast.parse(src)
    fn = _fn(tree, "cancel_and_await")
    task = fn.args.args[0].arg
    early, work = [], []
    for conds, acts in _paths(_normalise(fn)):
        acts = [a for a in acts if not (isinstance(a, ast.Return) and a.value is None)]
        (work if acts else early).append((conds, acts))
    if not work:
        raise Bad("cancel_and_await: never awaits the task")
    shapes = {tuple(_u(a) for a in acts) for _, acts in work}
    if len(shapes) != 1:
        raise Bad("cancel_and_await: different work on different paths")
    acts = work[0][1]
    cancels = False
    if acts and _u(acts[0]) == f"{task}.cancel()":
        cancels = True
        acts = acts[1:]
    if not (len(acts) == 1 and isinstance(acts[0], ast.Try)):
        raise Bad("cancel_and_await: expected `[task.cancel();] try: await task except CancelledError: pass`")
    tr = acts[0]
    if [_u(x) for x in tr.body] != [f"await {task}"] or tr.orelse or tr.finalbody:
        raise Bad("cancel_and_await: try body is not `await task`")
    swallow = False
    for h in tr.handlers:
        ty = _u(h.type) if h.type is not None else "BaseException"
        if ty in ("asyncio.CancelledError", "CancelledError") and not h.body:
            swallow = True
        else:
            raise Bad(f"cancel_and_await: handler for {ty} not recognised")
    guard = _dnf([c for c, _ in early], lambda e: _guard(e, task))
    return [
        "/-- `cancel_and_await`: the condition of its early return (`done` = `task.done()`, `cancelling` = `task.cancelling()`). -/\n"
        f"def caEarlyReturn (done : Bool) (cancelling : Nat) : Bool := {guard}",
        f"/-- `cancel_and_await` calls `task.cancel()` before awaiting. -/\ndef caCancels : Bool := {'true' if cancels else 'false'}",
        "/-- `await task` inside `cancel_and_await` swallows `CancelledError` (and nothing else). -/\n"
        f"def caSwallowsCancelled : Bool := {'true' if swallow else 'false'}",
    ]


def generate(repo: pathlib.Path) -> str:
    _check_hierarchy()
    a = _actor((repo / SOURCES[0]).read_text())
    b = _service((repo / SOURCES[1]).read_text())
    c = _cancel_and_await((repo / SOURCES[2]).read_text())
    return "namespace Extracted.Actor\n\n" + "\n\n".join(a + b + c) + "\n\nend Extracted.Actor\n"
