"""`actor/_actor.py`, `actor/_background_service.py`, `_internal/_asyncio.py` -> Lean constants and decision tables (C10).

Extracted (pure `ast`; raises when the source no longer has a shape whose meaning it can read):
  * `RESTART_DELAY` (µs) and the default of `_restart_limit`;
  * `_delay_if_restart`: the condition under which the delay is awaited, as a Lean `Bool` function of the iteration;
  * `_run_loop`: the `except` clauses in source order, WHICH ERROR KINDS each one catches (the classes it names — also
    tuples — classified with Python's builtin hierarchy: ExceptionGroup ⊂ Exception, BaseExceptionGroup ⊂ BaseException,
    CancelledError ⊂ BaseException, …), what each does (`reraise` | `restartOrReraise`), and the condition under which
    the restarting clause restarts, as a Lean `Bool` function of (limit, counter);
  * `Actor.start()`: guarded by `is_running`?;
  * `BackgroundService.wait()/stop()`: exception group raised per batch or after all rounds; `stop()` cancels at the
    call / in every round; `stop()` re-raises the group minus `CancelledError`;
  * `cancel_and_await`: its early-return condition as a Lean function of (`task.done()`, `task.cancelling()`), the
    `task.cancel()` call, the swallowed `CancelledError`.

Code is located by ROLE, not by position or by the names of locals.  Every function body is normalised first:
docstrings / logging calls / `pass` / effect-free expression statements dropped; keyword arguments of `asyncio.sleep`,
`asyncio.wait`, `create_task`, `.cancel` made positional; calls of same-class private methods (also static ones) and
module-level private functions INLINED — as statements (`[x =] [await] self._h(args)`: parameters bound incl. keywords
and defaults, the helper's locals renamed apart, every `return` must be in tail position) and inside expressions (a
helper that is just `return <expr>`); the anchors `_run`, `_run_loop`, `_delay_if_restart` and the flag-taking wait
helper are never inlined; `if c: x = A else: x = B` read as `x = A if c else B`; locals that only feed log messages
removed; single-assignment locals inlined (also `_, rest = g.split(E)` as `g.split(E)[1]`; never a snapshot of an
attribute the function re-binds); in tests `True if c else b` = `c or b` (etc.), `len(x) > 0` = `x`, `len(x) == 0` =
`not x`; an `if` with two empty branches dropped; `while True: if c: break; …` read as `while not c: …`; in a
`while True:` body that ends in a `try`/`if`, a handler/branch that falls off its end gets its `continue` written
out; guard clauses (`if c: return|raise|continue|break`) turned into `if c: … else: <rest>`; `try … else: X` into
`try …; X` when every handler leaves; a bare `return` in tail position of a function dropped; comparisons with the
restart counter oriented counter-left (`limit > n` = `n < limit`).  A helper that cannot be inlined soundly is left as
a call, and the role matching then raises as before.  Conditions are then read off
the PATHS through the if-tree (a condition is the disjunction, over the paths that reach the action, of the conjunction
of the signed tests on the path), so inverted branches and early returns translate to equivalent Lean terms.
"""
from __future__ import annotations

import ast
import copy
import pathlib

NAME = "Actor"
SOURCES = ["src/frequenz/sdk/actor/_actor.py", "src/frequenz/sdk/actor/_background_service.py",
           "src/frequenz/sdk/_internal/_asyncio.py"]

PURE_CALLS = {"split", "total_seconds", "difference"}


class _SetDiffComp(ast.NodeTransformer):
    """`{x for x in A if x not in B}` (one generator, one `not in` filter on the element itself, element = the loop variable)
    is the set difference `A - B` when `A` is a set — here `A` is always `self._tasks`, a `set[asyncio.Task]`."""
    def visit_SetComp(self, n):              # noqa: N802
        self.generic_visit(n)
        if len(n.generators) == 1:
            g = n.generators[0]
            if (isinstance(g.target, ast.Name) and isinstance(n.elt, ast.Name) and n.elt.id == g.target.id and not g.is_async
                    and len(g.ifs) == 1 and isinstance(g.ifs[0], ast.Compare) and len(g.ifs[0].ops) == 1
                    and isinstance(g.ifs[0].ops[0], ast.NotIn) and isinstance(g.ifs[0].left, ast.Name)
                    and g.ifs[0].left.id == g.target.id and ast.unparse(g.iter) == "self._tasks"
                    and g.target.id not in {x.id for x in ast.walk(g.ifs[0].comparators[0]) if isinstance(x, ast.Name)}):
                return ast.copy_location(ast.BinOp(left=g.iter, op=ast.Sub(), right=g.ifs[0].comparators[0]), n)
        return n


def _parse(src: str) -> ast.Module:
    return ast.fix_missing_locations(_SetDiffComp().visit(ast.parse(src)))



class Bad(Exception):
    pass


# ----------------------------------------------------------------------------- exception classes
# Python's builtin exception hierarchy — the part that decides which `except` clause of `_run_loop` catches what
# `_run()` raised (direct bases; checked against the running interpreter by `_check_hierarchy`).
BASES: dict[str, list[str]] = {
    "BaseException": [],
    "Exception": ["BaseException"],
    "BaseExceptionGroup": ["BaseException"],
    "ExceptionGroup": ["BaseExceptionGroup", "Exception"],
    "CancelledError": ["BaseException"],        # asyncio.CancelledError (3.8+)
}
# Error kinds of the model = the coarsest partition of all errors that clauses naming the classes above can tell apart,
# each with the class whose set of ancestors is exactly what the members of the kind are instances of.
KIND_CLASS: dict[str, str] = {
    "exc": "Exception",                 # an Exception that is not a group
    "excGroup": "ExceptionGroup",       # (a BaseExceptionGroup of Exceptions only IS an ExceptionGroup)
    "baseExc": "BaseException",         # SystemExit / KeyboardInterrupt / GeneratorExit / user BaseException classes
    "baseGroup": "BaseExceptionGroup",  # a group with at least one non-Exception member
    "cancelled": "CancelledError",
}
CLASS_ALIASES = {"asyncio.CancelledError": "CancelledError", "asyncio.exceptions.CancelledError": "CancelledError",
                 "builtins.Exception": "Exception", "builtins.BaseException": "BaseException",
                 "builtins.ExceptionGroup": "ExceptionGroup", "builtins.BaseExceptionGroup": "BaseExceptionGroup"}


def _ancestors(cls: str) -> set[str]:
    out = {cls}
    for b in BASES[cls]:
        out |= _ancestors(b)
    return out


def _check_hierarchy() -> None:
    """The table above must be what the interpreter says (the extractor never imports the repo, only builtins)."""
    import asyncio
    import builtins

    real = {n: (asyncio.CancelledError if n == "CancelledError" else getattr(builtins, n)) for n in BASES}
    for a, ca in real.items():
        for b, cb in real.items():
            if issubclass(ca, cb) != (b in _ancestors(a)):
                raise Bad(f"exception hierarchy table is wrong about issubclass({a}, {b})")


def _handler_classes(h: ast.ExceptHandler) -> list[str]:
    """The classes named by one `except` clause (a bare `except:` names BaseException)."""
    if h.type is None:
        return ["BaseException"]
    elts = h.type.elts if isinstance(h.type, ast.Tuple) else [h.type]
    names = []
    for e in elts:
        s = CLASS_ALIASES.get(_u(e), _u(e))
        if s not in BASES:
            # a class below one of the representatives (ValueError, SystemExit, …) catches only part of a kind
            raise Bad(f"_run_loop: `except` clause names {s}: not one of {sorted(BASES)}")
        names.append(s)
    return names


def _kinds_caught(classes: list[str]) -> list[str]:
    """`isinstance(error, tuple(classes))` as a function of the error kind."""
    return [k for k, c in KIND_CLASS.items() if any(cls in _ancestors(c) for cls in classes)]


# ----------------------------------------------------------------------------- locating
def _cls(tree: ast.Module, name: str) -> ast.ClassDef:
    for n in tree.body:
        if isinstance(n, ast.ClassDef) and n.name == name:
            return n
    raise Bad(f"class {name} not found")


def _fn(scope: ast.ClassDef | ast.Module, name: str) -> ast.AsyncFunctionDef | ast.FunctionDef:
    for n in scope.body:
        if isinstance(n, (ast.FunctionDef, ast.AsyncFunctionDef)) and n.name == name:
            return n
    raise Bad(f"{getattr(scope, 'name', 'module')}.{name} not found")


def _u(n: ast.AST) -> str:
    return ast.unparse(n)


# ----------------------------------------------------------------------------- normalisation
def _is_jump(s: ast.stmt) -> bool:
    return isinstance(s, (ast.Return, ast.Raise, ast.Continue, ast.Break))


def _is_noise(s: ast.stmt) -> bool:
    if isinstance(s, ast.Pass):
        return True
    if isinstance(s, ast.Expr) and isinstance(s.value, ast.Constant):
        return True  # docstring / bare constant
    if isinstance(s, ast.Expr) and isinstance(s.value, ast.Call) and _u(s.value.func).startswith(("_logger.", "logging.", "print")):
        return True
    if isinstance(s, ast.Assert):
        return True
    if isinstance(s, ast.Expr) and not _has(s.value, (ast.Call, ast.Await, ast.Yield, ast.YieldFrom, ast.NamedExpr)):
        return True  # an expression without calls has no effect (left behind by inlining a helper whose value is unused)
    return False


def _map_blocks(s: ast.stmt, f) -> ast.stmt:
    """Apply `f` (list[stmt] -> list[stmt]) to every nested statement list of `s`."""
    for field in ("body", "orelse", "finalbody"):
        if hasattr(s, field) and isinstance(getattr(s, field), list):
            setattr(s, field, f(getattr(s, field)))
    if isinstance(s, ast.Try):
        for h in s.handlers:
            h.body = f(h.body)
    return s


def _strip(stmts: list[ast.stmt]) -> list[ast.stmt]:
    return [_map_blocks(s, _strip) for s in stmts if not _is_noise(s)]


def _split_tuple_assign(stmts: list[ast.stmt]) -> list[ast.stmt]:
    """`a, b = f(x)` (pure f, no await) -> `a = f(x)[0]; b = f(x)[1]`."""
    out: list[ast.stmt] = []
    for s in stmts:
        s = _map_blocks(s, _split_tuple_assign)
        if (isinstance(s, ast.Assign) and len(s.targets) == 1 and isinstance(s.targets[0], ast.Tuple)
                and all(isinstance(e, ast.Name) for e in s.targets[0].elts) and isinstance(s.value, ast.Call)
                and isinstance(s.value.func, ast.Attribute) and s.value.func.attr in PURE_CALLS):
            for i, e in enumerate(s.targets[0].elts):
                out.append(ast.Assign(targets=[ast.Name(id=e.id, ctx=ast.Store())],
                                      value=ast.Subscript(value=copy.deepcopy(s.value), slice=ast.Constant(value=i), ctx=ast.Load()),
                                      lineno=0))
        else:
            out.append(s)
    return out


def _walk_stmts(stmts: list[ast.stmt]):
    for s in stmts:
        yield s
        for field in ("body", "orelse", "finalbody"):
            if isinstance(getattr(s, field, None), list):
                yield from _walk_stmts(getattr(s, field))
        if isinstance(s, ast.Try):
            for h in s.handlers:
                yield from _walk_stmts(h.body)


def _simple_target(s: ast.stmt) -> str | None:
    if isinstance(s, ast.Assign) and len(s.targets) == 1 and isinstance(s.targets[0], ast.Name):
        return s.targets[0].id
    if isinstance(s, ast.AnnAssign) and isinstance(s.target, ast.Name) and s.value is not None:
        return s.target.id
    return None


def _has(node: ast.AST, kinds) -> bool:
    return any(isinstance(n, kinds) for n in ast.walk(node))


def _calls_only_pure(node: ast.AST) -> bool:
    return all(isinstance(c.func, ast.Attribute) and c.func.attr in PURE_CALLS for c in ast.walk(node) if isinstance(c, ast.Call))


class _Subst(ast.NodeTransformer):
    def __init__(self, name: str, value: ast.expr):
        self.name, self.value = name, value

    def visit_Name(self, node: ast.Name):  # noqa: N802
        if node.id == self.name and isinstance(node.ctx, ast.Load):
            return copy.deepcopy(self.value)
        return node


def _drop_assign(stmts: list[ast.stmt], names: set[str], keep_effects: bool = False) -> list[ast.stmt]:
    out = []
    for s in stmts:
        if _simple_target(s) in names:
            if keep_effects and not _calls_only_pure(s.value):
                out.append(ast.Expr(value=s.value))     # `_ = task.result()` still calls (and may raise)
            continue
        out.append(_map_blocks(s, lambda b: _drop_assign(b, names, keep_effects)))
    return out


def _terminates(block: list[ast.stmt]) -> bool:
    if not block:
        return False
    last = block[-1]
    if _is_jump(last):
        return True
    return isinstance(last, ast.If) and _terminates(last.body) and _terminates(last.orelse)


def _simplify_locals(stmts: list[ast.stmt], params: set[str]) -> list[ast.stmt]:
    """Remove locals that feed nothing but themselves (log strings), inline single-assignment locals."""
    for _ in range(20):
        allst = list(_walk_stmts(stmts))
        # every way a name gets bound
        bound: dict[str, int] = {}
        for n in ast.walk(ast.Module(body=stmts, type_ignores=[])):
            if isinstance(n, ast.Name) and isinstance(n.ctx, (ast.Store, ast.Del)):
                bound[n.id] = bound.get(n.id, 0) + 1
            if isinstance(n, ast.ExceptHandler) and n.name:
                bound[n.name] = bound.get(n.name, 0) + 2
            if isinstance(n, ast.AugAssign) and isinstance(n.target, ast.Name):
                bound[n.target.id] = bound.get(n.target.id, 0) + 1
        simple = {t for s in allst if (t := _simple_target(s)) and t not in params}
        stored_attrs = {_u(n) for n in ast.walk(ast.Module(body=stmts, type_ignores=[]))
                        if isinstance(n, ast.Attribute) and isinstance(n.ctx, (ast.Store, ast.Del))}
        # 1. dead: never loaded outside assignments to dead names
        dead = set(simple)
        changed = True
        while changed:
            changed = False
            for s in allst:
                tgt = _simple_target(s)
                nodes = [s.value] if (tgt in dead and tgt is not None) else None  # loads inside a dead assignment do not count
                if nodes is not None:
                    continue
                own: list[ast.AST] = []
                if isinstance(s, (ast.If, ast.While)):
                    own = [s.test]
                elif isinstance(s, ast.For):
                    own = [s.iter]
                elif isinstance(s, ast.Try):
                    own = []
                elif isinstance(s, ast.With):
                    own = [i.context_expr for i in s.items]
                else:
                    own = [s]
                for o in own:
                    for n in ast.walk(o):
                        if isinstance(n, ast.Name) and isinstance(n.ctx, ast.Load) and n.id in dead:
                            dead.discard(n.id)
                            changed = True
        dead = {d for d in dead if all(not _has(s.value, ast.Await) for s in allst if _simple_target(s) == d)}
        if dead:
            stmts = _drop_assign(stmts, dead, keep_effects=True)
            continue
        # 2. inline one single-assignment local
        done = False
        for s in allst:
            t = _simple_target(s)
            if t is None or t in params or bound.get(t, 0) != 1 or _has(s.value, ast.Await):
                continue
            if isinstance(s.value, (ast.List, ast.Dict, ast.Set, ast.ListComp, ast.SetComp)) or _u(s.value) == "set()":
                continue  # a container that is mutated later
            if any(isinstance(n, ast.Attribute) and _u(n) in stored_attrs for n in ast.walk(s.value)):
                continue  # reads an attribute this function also re-binds: the local is a snapshot, not an alias
            uses = sum(1 for x in allst for n in ast.walk(x) if isinstance(n, ast.Name) and isinstance(n.ctx, ast.Load) and n.id == t)
            # (walking nested statements counts a use once per enclosing statement: normalise by direct count)
            uses = sum(1 for n in ast.walk(ast.Module(body=stmts, type_ignores=[])) if isinstance(n, ast.Name) and isinstance(n.ctx, ast.Load) and n.id == t)
            if uses == 1 or _calls_only_pure(s.value):
                stmts = _drop_assign(stmts, {t})
                mod = ast.Module(body=stmts, type_ignores=[])
                stmts = _Subst(t, s.value).visit(mod).body
                done = True
                break
        if not done:
            break
    return stmts


def _guards(stmts: list[ast.stmt]) -> list[ast.stmt]:
    """`if c: …jump` followed by more statements -> `if c: …jump else: <rest>`;  `try … else: X` -> `try …; X`."""
    out: list[ast.stmt] = []
    i = 0
    stmts = list(stmts)
    while i < len(stmts):
        s = _map_blocks(stmts[i], _guards)
        rest = stmts[i + 1:]
        if isinstance(s, ast.Try) and s.orelse and all(_terminates(h.body) for h in s.handlers):
            moved, s.orelse = s.orelse, []
            stmts = stmts[: i + 1] + moved + rest
            rest = stmts[i + 1:]
        if isinstance(s, ast.If) and rest:
            if s.body and _is_jump(s.body[-1]) and not s.orelse:
                s.orelse = _guards(rest)
                out.append(s)
                return out
            if s.orelse and _is_jump(s.orelse[-1]) and not (s.body and _is_jump(s.body[-1])):
                s.body = s.body + _guards(rest)
                out.append(s)
                return out
        out.append(s)
        i += 1
    return out


# Keyword arguments of well-known callables -> positional (the leading parameters, in signature order).
KNOWN_SIGNATURES = {"asyncio.sleep": ["delay", "result"], "asyncio.wait": ["fs"], "asyncio.create_task": ["coro"]}
KNOWN_METHOD_SIGNATURES = {"cancel": ["msg"]}        # asyncio.Task.cancel(msg=None), BackgroundService.cancel(msg=None)


class _PositionalArgs(ast.NodeTransformer):
    def visit_Call(self, node: ast.Call):  # noqa: N802
        self.generic_visit(node)
        sig = KNOWN_SIGNATURES.get(_u(node.func))
        if sig is None and isinstance(node.func, ast.Attribute):
            sig = KNOWN_METHOD_SIGNATURES.get(node.func.attr)
        if sig is None or any(isinstance(a, ast.Starred) for a in node.args) or any(k.arg is None for k in node.keywords):
            return node
        kws = {k.arg: k for k in node.keywords}
        while len(node.args) < len(sig) and sig[len(node.args)] in kws:
            k = kws.pop(sig[len(node.args)])
            node.args.append(k.value)
            node.keywords.remove(k)
        return node


ANCHORS = {"_run", "_run_loop", "_delay_if_restart"}     # roles located by name: never inlined
_uid = [0]


class _Rename(ast.NodeTransformer):
    def __init__(self, mapping: dict[str, str]):
        self.mapping = mapping

    def visit_Name(self, node: ast.Name):  # noqa: N802
        if node.id in self.mapping:
            node.id = self.mapping[node.id]
        return node

    def visit_ExceptHandler(self, node: ast.ExceptHandler):  # noqa: N802
        if node.name in self.mapping:
            node.name = self.mapping[node.name]
        self.generic_visit(node)
        return node


def _tail_stmts(block: list[ast.stmt]):
    """(block, index) of the statements in tail position of `block` (descending `if` branches and a final `try`)."""
    if not block:
        return
    last = block[-1]
    if isinstance(last, ast.If):
        yield from _tail_stmts(last.body)
        yield from _tail_stmts(last.orelse)
    elif isinstance(last, ast.Try) and not last.finalbody:
        for h in last.handlers:
            yield from _tail_stmts(h.body)
        yield from _tail_stmts(last.orelse if last.orelse else last.body)
    else:
        yield block, len(block) - 1


def _drop_tail_returns(block: list[ast.stmt]) -> list[ast.stmt]:
    """A bare `return` (or `return None`) in tail position of a function is a fall-through."""
    changed = True
    while changed:
        changed = False
        for b, i in list(_tail_stmts(block)):
            r = b[i]
            if isinstance(r, ast.Return) and (r.value is None or (isinstance(r.value, ast.Constant) and r.value.value is None)):
                del b[i]
                changed = True
                break
    return block


def _pure(e: ast.AST) -> bool:
    return not _has(e, (ast.Call, ast.Await, ast.Yield, ast.YieldFrom, ast.NamedExpr))


def _callee(call: ast.Call, cls: ast.ClassDef | None, mod: ast.Module | None, exclude: set[str]):
    f = call.func
    if isinstance(f, ast.Attribute) and isinstance(f.value, ast.Name) and f.value.id == "self" and cls is not None:
        name, scope, is_method = f.attr, cls, True
    elif isinstance(f, ast.Name) and mod is not None:
        name, scope, is_method = f.id, mod, False
    else:
        return None
    if not name.startswith("_") or name.startswith("__") or name in ANCHORS or name in exclude:
        return None
    fns = [n for n in scope.body if isinstance(n, (ast.FunctionDef, ast.AsyncFunctionDef)) and n.name == name]
    if len(fns) != 1:
        return None
    fn = fns[0]
    a = fn.args
    decos = [_u(d) for d in fn.decorator_list]
    if decos == ["staticmethod"] and is_method:
        is_method = False                                   # `self._h(x)` on a static method: no `self` parameter to skip
    elif decos:
        return None
    if a.vararg or a.kwarg or a.posonlyargs:
        return None
    if any(isinstance(x, (ast.Yield, ast.YieldFrom, ast.FunctionDef, ast.AsyncFunctionDef, ast.Lambda, ast.Global, ast.Nonlocal,
                          ast.ClassDef)) for st in fn.body for x in ast.walk(st)):
        return None
    return fn, is_method


def _bind(fn, call: ast.Call, is_method: bool) -> dict[str, ast.expr] | None:
    pos = [x.arg for x in fn.args.args]
    defaults: dict[str, ast.expr] = {}
    for name, d in zip(reversed(pos), reversed(fn.args.defaults)):
        defaults[name] = d
    if is_method:
        pos = pos[1:]
    kwonly = [x.arg for x in fn.args.kwonlyargs]
    for name, d in zip(kwonly, fn.args.kw_defaults):
        if d is not None:
            defaults[name] = d
    if any(isinstance(x, ast.Starred) for x in call.args) or any(k.arg is None for k in call.keywords) or len(call.args) > len(pos):
        return None
    bound: dict[str, ast.expr] = dict(zip(pos, call.args))
    for k in call.keywords:
        if k.arg in bound or k.arg not in pos + kwonly:
            return None
        bound[k.arg] = k.value
    for name in pos + kwonly:
        if name not in bound:
            if name not in defaults:
                return None
            bound[name] = defaults[name]
    return bound


def _inline_call(s: ast.stmt, cls, mod, exclude: set[str], depth: int) -> list[ast.stmt] | None:
    """`[x =] [await] self._helper(args)` / `[x =] [await] _helper(args)` -> the helper's statements (or None).

    Only same-class private methods and module-level private functions; parameters are bound (positional, keyword,
    defaults), the helper's locals are renamed apart, every `return` must be in tail position: without a target they are
    dropped (a value must be effect-free), with a target each becomes `x = <value>`.
    """
    target = None
    if isinstance(s, ast.Expr):
        val = s.value
    elif _simple_target(s) is not None:
        target, val = _simple_target(s), s.value
    else:
        return None
    awaited = isinstance(val, ast.Await)
    call = val.value if awaited else val
    if not isinstance(call, ast.Call):
        return None
    found = _callee(call, cls, mod, exclude)
    if found is None:
        return None
    fn, is_method = found
    if awaited != isinstance(fn, ast.AsyncFunctionDef):
        return None
    bound = _bind(fn, call, is_method)
    if bound is None:
        return None
    body = _guards(_strip(_PositionalArgs().visit(ast.Module(body=copy.deepcopy(fn.body), type_ignores=[])).body))
    body = _drop_tail_returns(body)
    stored = {n.id for st in body for n in ast.walk(st) if isinstance(n, ast.Name) and isinstance(n.ctx, (ast.Store, ast.Del))}
    stored |= {h.name for st in body for h in ast.walk(st) if isinstance(h, ast.ExceptHandler) and h.name}
    stored |= {n.target.id for st in body for n in ast.walk(st) if isinstance(n, ast.AugAssign) and isinstance(n.target, ast.Name)}
    if stored & set(bound):
        return None                                         # the helper re-binds a parameter
    _uid[0] += 1
    tag = f"_h{_uid[0]}_"
    mod_ = _Rename({n: tag + n for n in stored}).visit(ast.Module(body=body, type_ignores=[]))
    pre: list[ast.stmt] = []
    for name, arg in bound.items():
        if isinstance(arg, (ast.Name, ast.Constant)):
            mod_ = _Subst(name, arg).visit(mod_)
        else:                                               # evaluated once, before the body, in parameter order
            pre.append(ast.Assign(targets=[ast.Name(id=tag + name, ctx=ast.Store())], value=copy.deepcopy(arg), lineno=0))
            mod_ = _Subst(name, ast.Name(id=tag + name, ctx=ast.Load())).visit(mod_)
    body = mod_.body
    rets = [n for st in body for n in ast.walk(st) if isinstance(n, ast.Return)]
    tails = [(b, i) for b, i in _tail_stmts(body) if isinstance(b[i], ast.Return)]
    if len(rets) != len(tails):
        return None                                         # an early return that is not a tail: keep the call
    if target is None:
        if any(not _pure(b[i].value) for b, i in tails):
            return None
        for b, i in tails:
            del b[i]
    else:
        if not tails or len(tails) != sum(1 for _ in _tail_stmts(body)):
            return None                                     # some path falls off the end (returns None implicitly)
        for b, i in tails:
            b[i] = ast.Assign(targets=[ast.Name(id=target, ctx=ast.Store())], value=b[i].value, lineno=0)
    out = pre + body
    return _inline_helpers(out, cls, mod, exclude, depth + 1) if depth < 3 else out


class _InlineExprHelpers(ast.NodeTransformer):
    """`self._h(args)` / `_h(args)` inside an expression, where the (non-async) helper is just `return <expr>` and the
    arguments are effect-free: the expression itself, with the parameters substituted."""

    def __init__(self, cls, mod, exclude: set[str]):
        self.cls, self.mod, self.exclude = cls, mod, exclude

    def visit_Call(self, node: ast.Call):  # noqa: N802
        self.generic_visit(node)
        found = _callee(node, self.cls, self.mod, self.exclude)
        if found is None or isinstance(found[0], ast.AsyncFunctionDef):
            return node
        fn, is_method = found
        body = _strip(copy.deepcopy(fn.body))
        if len(body) > 1:                                   # `x = <pure>; return f(x)`: inline the locals first
            body = _strip(_simplify_locals(body, {a.arg for a in fn.args.args + fn.args.kwonlyargs}))
        if len(body) != 1 or not isinstance(body[0], ast.Return) or body[0].value is None or _has(body[0].value, ast.Await):
            return node
        bound = _bind(fn, node, is_method)
        if bound is None or any(not _pure(a) for a in bound.values()):
            return node
        expr = _PositionalArgs().visit(body[0].value)
        if any(isinstance(n, (ast.NamedExpr, ast.ListComp, ast.SetComp, ast.DictComp, ast.GeneratorExp)) for n in ast.walk(expr)):
            return node                                     # binds names of its own
        for name, arg in bound.items():
            expr = _Subst(name, arg).visit(expr)
        return self.visit(expr) if not any(n is node for n in ast.walk(expr)) else expr


def _inline_helpers(stmts: list[ast.stmt], cls, mod, exclude: set[str], depth: int = 0) -> list[ast.stmt]:
    if depth == 0:
        stmts = _InlineExprHelpers(cls, mod, exclude).visit(ast.Module(body=stmts, type_ignores=[])).body
    out: list[ast.stmt] = []
    for s in stmts:
        s = _map_blocks(s, lambda b: _inline_helpers(b, cls, mod, exclude, depth))
        rep_ = _inline_call(s, cls, mod, exclude, depth)
        out += [s] if rep_ is None else rep_
    return out


def _merge_branch_assign(stmts: list[ast.stmt]) -> list[ast.stmt]:
    """`if c: x = A else: x = B`  ->  `x = A if c else B`."""
    out = []
    for s in stmts:
        s = _map_blocks(s, _merge_branch_assign)
        if isinstance(s, ast.If) and len(s.body) == 1 and len(s.orelse) == 1 and _simple_target(s.body[0]) is not None \
                and _simple_target(s.body[0]) == _simple_target(s.orelse[0]) \
                and not _has(s.body[0].value, ast.Await) and not _has(s.orelse[0].value, ast.Await):
            s = ast.Assign(targets=[ast.Name(id=_simple_target(s.body[0]), ctx=ast.Store())],
                           value=ast.IfExp(test=s.test, body=s.body[0].value, orelse=s.orelse[0].value), lineno=0)
        out.append(s)
    return out


def _neg(e: ast.expr) -> ast.expr:
    return e.operand if isinstance(e, ast.UnaryOp) and isinstance(e.op, ast.Not) else ast.UnaryOp(op=ast.Not(), operand=e)


class _BoolIfExp(ast.NodeTransformer):
    """Inside a TEST only (truthiness is all that matters): `True if c else b` = `c or b`, `a if c else False` = `c and a`, …"""

    def visit_IfExp(self, node: ast.IfExp):  # noqa: N802
        self.generic_visit(node)

        def const(e):
            return e.value if isinstance(e, ast.Constant) and isinstance(e.value, bool) else None

        if const(node.body) is True:
            return ast.BoolOp(op=ast.Or(), values=[node.test, node.orelse])
        if const(node.body) is False:
            return ast.BoolOp(op=ast.And(), values=[_neg(node.test), node.orelse])
        if const(node.orelse) is False:
            return ast.BoolOp(op=ast.And(), values=[node.test, node.body])
        if const(node.orelse) is True:
            return ast.BoolOp(op=ast.Or(), values=[_neg(node.test), node.body])
        return node


class _LenTruth(ast.NodeTransformer):
    """Inside a TEST: `len(x) > 0`, `len(x) != 0`, `len(x) >= 1`, `0 < len(x)` = `x`;  `len(x) == 0`, `len(x) < 1` = `not x`
    (sized containers are truthy iff non-empty)."""

    @staticmethod
    def _len_arg(e: ast.expr) -> ast.expr | None:
        if isinstance(e, ast.Call) and isinstance(e.func, ast.Name) and e.func.id == "len" and len(e.args) == 1 and not e.keywords:
            return e.args[0]
        return None

    def visit_Compare(self, node: ast.Compare):  # noqa: N802
        self.generic_visit(node)
        if len(node.ops) != 1:
            return node
        l, r, op = node.left, node.comparators[0], type(node.ops[0])
        if self._len_arg(r) is not None and self._len_arg(l) is None:
            mirror = {ast.Lt: ast.Gt, ast.LtE: ast.GtE, ast.Gt: ast.Lt, ast.GtE: ast.LtE, ast.Eq: ast.Eq, ast.NotEq: ast.NotEq}
            if op not in mirror:
                return node
            l, r, op = r, l, mirror[op]
        x = self._len_arg(l)
        if x is None or not (isinstance(r, ast.Constant) and type(r.value) is int):
            return node
        k = r.value
        if (op, k) in ((ast.Gt, 0), (ast.NotEq, 0), (ast.GtE, 1)):
            return x
        if (op, k) in ((ast.Eq, 0), (ast.Lt, 1), (ast.LtE, 0)):
            return ast.UnaryOp(op=ast.Not(), operand=x)
        return node


def _tidy_tests(stmts: list[ast.stmt]) -> list[ast.stmt]:
    """Simplify boolean conditional expressions in tests; drop an `if` with an effect-free test and two empty branches."""
    out = []
    for s in stmts:
        s = _map_blocks(s, _tidy_tests)
        if isinstance(s, (ast.If, ast.While)):
            s.test = _LenTruth().visit(_BoolIfExp().visit(s.test))
        if isinstance(s, ast.If) and not s.body and not s.orelse and _pure(s.test):
            continue
        out.append(s)
    return out


def _tc_branch(b: list[ast.stmt]) -> list[ast.stmt]:
    if _terminates(b):
        return b
    if b and isinstance(b[-1], ast.If):
        b[-1].body = _tc_branch(b[-1].body)
        b[-1].orelse = _tc_branch(b[-1].orelse)
        return b
    return b + [ast.Continue()]


def _loops(stmts: list[ast.stmt]) -> list[ast.stmt]:
    """`while True:` loops: a leading `if c: break` is the loop test; when the body ends in a `try`/`if`, a handler or
    branch that falls off its end continues with the next iteration — written out as `continue`."""
    out = []
    for s in stmts:
        s = _map_blocks(s, _loops)
        if isinstance(s, ast.While) and _u(s.test) == "True" and not s.orelse and s.body:
            first = s.body[0]
            if isinstance(first, ast.If) and not first.orelse and len(first.body) == 1 and isinstance(first.body[0], ast.Break):
                s.test, s.body = _neg(first.test), s.body[1:]
            else:
                s.body = _guards(s.body)
                last = s.body[-1]
                if isinstance(last, ast.Try) and not last.finalbody:
                    for h in last.handlers:
                        h.body = _tc_branch(h.body)
                elif isinstance(last, ast.If):
                    last.body, last.orelse = _tc_branch(last.body), _tc_branch(last.orelse)
        out.append(s)
    return out


class _AllAny(ast.NodeTransformer):
    """`not all(p for x in it)` = `any(not p for x in it)`;  `not any(p …)` = `all(not p …)`."""

    def visit_UnaryOp(self, node: ast.UnaryOp):  # noqa: N802
        self.generic_visit(node)
        c = node.operand
        if isinstance(node.op, ast.Not) and isinstance(c, ast.Call) and isinstance(c.func, ast.Name) and c.func.id in ("all", "any") \
                and len(c.args) == 1 and not c.keywords and isinstance(c.args[0], (ast.GeneratorExp, ast.ListComp)):
            g = c.args[0]
            return ast.Call(func=ast.Name(id="any" if c.func.id == "all" else "all", ctx=ast.Load()),
                            args=[type(g)(elt=_neg(g.elt), generators=g.generators)], keywords=[])
        return node


def _flag_loops(stmts: list[ast.stmt]) -> list[ast.stmt]:
    """`flag = False; while not flag: …; flag = True  (in tail position of the body)`  ->  `while True: …; break`."""
    stmts = [_map_blocks(s, _flag_loops) for s in stmts]
    for i, s in enumerate(stmts):
        if not (isinstance(s, ast.While) and not s.orelse and isinstance(s.test, ast.UnaryOp) and isinstance(s.test.op, ast.Not)
                and isinstance(s.test.operand, ast.Name)):
            continue
        flag = s.test.operand.id
        inits = [j for j, x in enumerate(stmts[:i]) if _simple_target(x) == flag]
        if len(inits) != 1 or _u(stmts[inits[0]].value) != "False":
            continue
        whole = ast.Module(body=stmts, type_ignores=[])
        loads = [n for n in ast.walk(whole) if isinstance(n, ast.Name) and n.id == flag and isinstance(n.ctx, ast.Load)]
        stores = [x for x in _walk_stmts(stmts) if _simple_target(x) == flag]
        other = [n for n in ast.walk(whole) if isinstance(n, (ast.AugAssign, ast.NamedExpr, ast.For, ast.ExceptHandler, ast.With))
                 and flag in {m.id for m in ast.walk(n.target if hasattr(n, "target") and n.target is not None else ast.Pass()) if isinstance(m, ast.Name)}]
        tails = [(b, k) for b, k in _tail_stmts(s.body) if _simple_target(b[k]) == flag and _u(b[k].value) == "True"]
        if len(loads) != 1 or other or len(stores) != 1 + len(tails) or not tails:
            continue                                        # used elsewhere, or set somewhere that is not a tail of the body
        for b, k in tails:
            b[k] = ast.Break()
        s.test = ast.Constant(value=True)
        del stmts[inits[0]]
        return _flag_loops(stmts)
    return stmts


def _normalise(fn: ast.FunctionDef | ast.AsyncFunctionDef, cls: ast.ClassDef | None = None, mod: ast.Module | None = None,
               exclude: frozenset[str] | set[str] = frozenset()) -> list[ast.stmt]:
    body = _AllAny().visit(_PositionalArgs().visit(ast.Module(body=copy.deepcopy(fn.body), type_ignores=[]))).body
    params = {a.arg for a in fn.args.args + fn.args.kwonlyargs}
    body = _strip(body)
    body = _flag_loops(body)
    if cls is not None or mod is not None:
        body = _inline_helpers(body, cls, mod, set(exclude))
    body = _split_tuple_assign(body)
    body = _merge_branch_assign(body)
    body = _simplify_locals(body, params)
    body = _strip(body)
    body = _tidy_tests(body)
    body = _loops(body)
    body = _guards(body)
    body = _drop_tail_returns(body)
    return body


def _paths(stmts: list[ast.stmt]) -> list[tuple[list[tuple[ast.expr, bool]], list[ast.stmt]]]:
    """Paths through the if-tree: (signed tests, straight-line actions incl. the final jump)."""
    if not stmts:
        return [([], [])]
    s, rest = stmts[0], stmts[1:]
    if isinstance(s, ast.If):
        out = []
        test, flip = s.test, False
        while isinstance(test, ast.UnaryOp) and isinstance(test.op, ast.Not):   # `if not c: A else: B` = `if c: B else: A`
            test, flip = test.operand, not flip
        for pol, branch in ((True, s.body), (False, s.orelse)):
            lit = (test, pol != flip)
            for c1, a1 in _paths(branch):
                if a1 and _is_jump(a1[-1]):
                    out.append(([lit] + c1, a1))
                else:
                    for c2, a2 in _paths(rest):
                        out.append(([lit] + c1 + c2, a1 + a2))
        return out
    if _is_jump(s):
        return [([], [s])]
    return [(c, [s] + a) for c, a in _paths(rest)]


def _dnf(paths: list[list[tuple[ast.expr, bool]]], tr) -> str:
    """Lean Bool: OR over paths of AND of signed tests (`tr` translates one test)."""
    if not paths:
        return "false"
    terms = []
    for conds in paths:
        if not conds:
            return "true"
        lits = [tr(e) if pol else neg_term(tr(e)) for e, pol in conds]
        terms.append("(" + " && ".join(lits) + ")")
    return "(" + " || ".join(terms) + ")"


# ----------------------------------------------------------------------------- expressions
def _balanced(t: str) -> bool:
    d = 0
    for ch in t:
        d += ch == "("
        d -= ch == ")"
        if d < 0:
            return False
    return d == 0


def _atomic(t: str) -> bool:
    return (t.startswith("(") and t.endswith(")") and _balanced(t[1:-1])) or all(ch.isalnum() or ch in "._" for ch in t)


def _split_top(t: str, op: str) -> list[str] | None:
    """`(a op b op c)` -> [a, b, c] (top level only)."""
    if not (t.startswith("(") and t.endswith(")") and _balanced(t[1:-1])):
        return None
    body, parts, d, cur, i = t[1:-1], [], 0, "", 0
    while i < len(body):
        ch = body[i]
        d += ch == "("
        d -= ch == ")"
        if d == 0 and body.startswith(f" {op} ", i):
            parts.append(cur)
            cur = ""
            i += len(op) + 2
            continue
        cur += ch
        i += 1
    parts.append(cur)
    other = "&&" if op == "||" else "||"
    if len(parts) < 2 or any(_split_top(f"({x})", other) for x in parts if not x.startswith("(")):
        return None
    return parts


_COMPL = {"<": "≥", "≥": "<", "≤": ">", ">": "≤", "=": "≠", "≠": "="}


def neg_term(t: str) -> str:
    """The negation of a Bool term, pushed inside (Int comparisons are complemented: exact on a total order)."""
    if t.startswith("!"):
        w = t[1:]
        return w[1:-1] if w.startswith("(") and w.endswith(")") and _balanced(w[1:-1]) else w
    if t == "limit.isNone":
        return "limit.isSome"
    if t == "limit.isSome":
        return "limit.isNone"
    if t.startswith("decide (") and t.endswith(")") and _balanced(t[len("decide ("):-1]):
        inner = t[len("decide ("):-1]
        d = 0
        for i, ch in enumerate(inner):
            d += ch == "("
            d -= ch == ")"
            if d == 0 and ch in _COMPL and inner[i - 1] == " " and inner[i + 1] == " ":
                return f"decide ({inner[:i]}{_COMPL[ch]}{inner[i + 1:]})"
    for op, other in (("||", "&&"), ("&&", "||")):
        parts = _split_top(t, op)
        if parts:
            return "(" + f" {other} ".join(neg_term(x) for x in parts) + ")"
    return f"!{t}" if _atomic(t) else f"!({t})"



def _expr(e: ast.expr, env: dict[str, str]) -> str:
    """A boolean test over a Nat counter `n` / an Option Nat `limit` as a Lean Bool term."""
    if isinstance(e, ast.BoolOp):
        op = " || " if isinstance(e.op, ast.Or) else " && "
        return "(" + op.join(_expr(v, env) for v in e.values) + ")"
    if isinstance(e, ast.UnaryOp) and isinstance(e.op, ast.Not):
        return neg_term(_expr(e.operand, env))           # negation pushed inside (De Morgan, complemented comparisons)
    if isinstance(e, ast.Compare) and len(e.ops) > 1:  # a < b < c
        parts, left = [], e.left
        for op, right in zip(e.ops, e.comparators):
            parts.append(_expr(ast.Compare(left=left, ops=[op], comparators=[right]), env))
            left = right
        return "(" + " && ".join(parts) + ")"
    if isinstance(e, ast.Compare):
        l, r, op = e.left, e.comparators[0], e.ops[0]
        for a, b in ((l, r), (r, l)):
            if isinstance(op, (ast.Is, ast.IsNot, ast.Eq, ast.NotEq)) and isinstance(b, ast.Constant) and b.value is None \
                    and env.get(_u(a)) == "limit":
                return "limit.isNone" if isinstance(op, (ast.Is, ast.Eq)) else "limit.isSome"
        if env.get(_u(r)) == "n" and env.get(_u(l)) != "n":          # canonical orientation: the counter on the left
            mirror = {ast.Lt: ast.Gt, ast.LtE: ast.GtE, ast.Gt: ast.Lt, ast.GtE: ast.LtE}.get(type(op))
            l, r, op = r, l, (mirror() if mirror else op)
        sym = {ast.Lt: "<", ast.LtE: "≤", ast.Gt: ">", ast.GtE: "≥", ast.Eq: "=", ast.NotEq: "≠"}.get(type(op))
        if sym is None:
            raise Bad(f"comparison {_u(e)}")
        return f"decide ({_atom(l, env)} {sym} {_atom(r, env)})"
    if isinstance(e, ast.Constant) and isinstance(e.value, bool):
        return "true" if e.value else "false"
    raise Bad(f"unsupported test {_u(e)}")


def _atom(e: ast.expr, env: dict[str, str]) -> str:
    s = _u(e)
    if isinstance(e, ast.Constant) and isinstance(e.value, int) and not isinstance(e.value, bool) and e.value >= 0:
        return f"({e.value} : Int)"
    if env.get(s) == "n":
        return "(n : Int)"
    if env.get(s) == "limit":
        # only evaluated when the limit is not None (Python raises TypeError otherwise — an Exception inside the
        # handler, the task dies): `none` is mapped to -1, i.e. "never restart"
        return "(match limit with | some l => (l : Int) | none => -1)"
    if isinstance(e, ast.BinOp) and isinstance(e.op, (ast.Add, ast.Sub)):
        return f"({_atom(e.left, env)} {'+' if isinstance(e.op, ast.Add) else '-'} {_atom(e.right, env)})"
    raise Bad(f"unsupported operand {s}")


# ----------------------------------------------------------------------------- _actor.py
def _actor(src: str) -> list[str]:
    tree = _parse(src)
    actor = _cls(tree, "Actor")
    out: list[str] = []
    delay_us = None
    limit = "missing"
    for n in actor.body:
        tgt = n.target if isinstance(n, ast.AnnAssign) else (n.targets[0] if isinstance(n, ast.Assign) and len(n.targets) == 1 else None)
        if isinstance(tgt, ast.Name) and n.value is not None:
            if tgt.id == "RESTART_DELAY":
                v = n.value
                if not (isinstance(v, ast.Call) and _u(v.func) in ("timedelta", "datetime.timedelta")) or v.args:
                    raise Bad("RESTART_DELAY is not timedelta(kw=…)")
                unit = {"days": 86400_000_000, "hours": 3600_000_000, "minutes": 60_000_000, "seconds": 1_000_000,
                        "milliseconds": 1000, "microseconds": 1}
                total = 0
                for kw in v.keywords:
                    q = ast.literal_eval(kw.value) * unit[kw.arg]
                    if q != int(q):
                        raise Bad("RESTART_DELAY not a whole number of µs")
                    total += int(q)
                delay_us = total
            if tgt.id == "_restart_limit":
                limit = ast.literal_eval(n.value)
    if delay_us is None or limit == "missing":
        raise Bad("RESTART_DELAY / _restart_limit not found")
    if not (limit is None or (isinstance(limit, int) and not isinstance(limit, bool) and limit >= 0)):
        raise Bad(f"_restart_limit default {limit!r}")
    out.append(f"/-- `Actor.RESTART_DELAY` in microseconds. -/\ndef restartDelayUs : Int := {delay_us}")
    out.append("/-- default of `Actor._restart_limit` (`none` = unlimited). -/\n"
               f"def defaultRestartLimit : Option Nat := {'none' if limit is None else f'some {limit}'}")

    # _delay_if_restart(it): under which condition is `await asyncio.sleep(RESTART_DELAY.total_seconds())` reached?
    d = _fn(actor, "_delay_if_restart")
    arg = d.args.args[1].arg
    sleeping, other = [], []
    for conds, acts in _paths(_normalise(d, actor, tree)):
        acts = [a for a in acts if not (isinstance(a, ast.Return) and a.value is None)]
        srcs = [_u(a) for a in acts]
        if srcs == ["await asyncio.sleep(self.RESTART_DELAY.total_seconds())"]:
            sleeping.append(conds)
        elif not srcs:
            other.append(conds)
        else:
            raise Bad(f"_delay_if_restart: unexpected actions {srcs}")
    if not sleeping:
        raise Bad("_delay_if_restart: never sleeps for RESTART_DELAY")
    out.append("/-- `_delay_if_restart`: is the delay awaited before iteration `n`? -/\n"
               f"def delayApplies (n : Nat) : Bool := {_dnf(sleeping, lambda e: _expr(e, {arg: 'n'}))}")

    # _run_loop
    rl = _fn(actor, "_run_loop")
    body = _normalise(rl, actor, tree)
    loops = [s for s in body if isinstance(s, ast.While)]
    if len(loops) != 1 or _u(loops[0].test) != "True" or loops[0].orelse:
        raise Bad("_run_loop: expected one `while True:`")
    loop = loops[0]
    after_loop = body[body.index(loop) + 1:]
    if any(not (isinstance(s, ast.Return) and s.value is None) for s in after_loop):
        raise Bad("_run_loop: statements after the loop")
    wbody = loop.body
    if not wbody or not isinstance(wbody[0], ast.Try):
        raise Bad("_run_loop: the loop does not start with the try")
    tr = wbody[0]
    if tr.orelse or tr.finalbody:
        raise Bad("_run_loop: try/else/finally not understood")
    tb = [_u(s) for s in tr.body]
    if not (len(tb) == 2 and tb[1] == "await self._run()" and isinstance(tr.body[0], ast.Expr)
            and isinstance(tr.body[0].value, ast.Await) and isinstance(tr.body[0].value.value, ast.Call)
            and _u(tr.body[0].value.value.func) == "self._delay_if_restart" and len(tr.body[0].value.value.args) == 1
            and isinstance(tr.body[0].value.value.args[0], ast.Name)):
        raise Bad(f"_run_loop: try body is {tb}")
    ctr = tr.body[0].value.value.args[0].id       # the restart counter: whatever local is passed to the delay
    pre = body[: body.index(loop)]
    inits = [s for s in pre if _simple_target(s) == ctr]
    if len(inits) != 1 or _u(inits[0].value) != "0" or len(pre) != 1:
        raise Bad("_run_loop: the restart counter is not initialised to 0 right before the loop")
    # a normal return of _run() must leave the loop
    tail = wbody[1:]
    for conds, acts in _paths(tail):
        if [type(a) for a in acts] not in ([ast.Break], [ast.Return]):
            raise Bad(f"_run_loop: after a normal return of _run(): {[_u(a) for a in acts]}")
    handlers = []
    allowed = None
    for h in tr.handlers:
        classes = _handler_classes(h)
        ty = "(" + ", ".join(classes) + ")" if len(classes) != 1 else classes[0]
        restart, reraise = [], []
        for conds, acts in _paths(h.body):
            srcs = [_u(a) for a in acts]
            if srcs == ["raise"]:
                reraise.append(conds)
            elif srcs in ([f"{ctr} += 1", "continue"], [f"{ctr} = {ctr} + 1", "continue"]):
                restart.append(conds)
            else:
                raise Bad(f"_run_loop: handler for {ty}: path does {srcs}")
        if restart:
            if allowed is not None:
                raise Bad("_run_loop: two restarting handlers")
            allowed = _dnf(restart, lambda e: _expr(e, {ctr: "n", "self._restart_limit": "limit"}))
            handlers.append((classes, "restartOrReraise"))
        else:
            handlers.append((classes, "reraise"))
    if allowed is None:
        allowed = "false"
    out.append("/-- the condition under which the restarting `except` clause of `_run_loop` restarts (`n` = the restart counter). -/\n"
               f"def restartAllowed (limit : Option Nat) (n : Nat) : Bool := {allowed}")
    out.append("inductive Action | reraise | restartOrReraise\nderiving DecidableEq, Repr")
    out.append(
        "/-- The kinds of error an invocation of `_run()` can end with, as far as Python's builtin class hierarchy lets an\n"
        "`except` clause of `_run_loop` tell them apart (representative class; its ancestors):\n"
        + "".join(f"  * `{k}` — `{c}`; caught by a clause naming any of: {', '.join(sorted(_ancestors(c)))}\n"
                  for k, c in KIND_CLASS.items())
        + "(`exc`: an `Exception` that is no group; `baseExc`: a `BaseException` outside `Exception` that is neither a group nor\n"
        "`CancelledError`, e.g. `SystemExit`, `KeyboardInterrupt`, `GeneratorExit`, user classes; `baseGroup`: a\n"
        "`BaseExceptionGroup` that is not an `ExceptionGroup`, i.e. with at least one non-`Exception` member.) -/\n"
        "inductive ExcKind | " + " | ".join(KIND_CLASS) + "\nderiving DecidableEq, Repr")
    hs = ", ".join("([" + ", ".join(f".{k}" for k in _kinds_caught(cs)) + f"], Action.{a})" for cs, a in handlers)
    out.append("/-- the `except` clauses of `_run_loop`, in source order: the error kinds each one catches (`isinstance` against the\n"
               "classes it names, by the builtin hierarchy) and what it does. -/\n"
               f"def handlers : List (List ExcKind × Action) := [{hs}]")
    hc = ", ".join("[" + ", ".join(f'"{c}"' for c in cs) + "]" for cs, _ in handlers)
    out.append("/-- the classes named by those clauses (documentation; `handlers` is computed from them). -/\n"
               f"def handlerClasses : List (List String) := [{hc}]")

    # start(): [clear, add(create_task(_run_loop()))] under `not is_running` (or unconditionally)
    guarded = None
    for conds, acts in _paths(_normalise(_fn(actor, "start"), actor, tree)):
        srcs = [_u(a) for a in acts if not (isinstance(a, ast.Return) and a.value is None)]
        if not srcs:
            if [( _u(e), pol) for e, pol in conds] != [("self.is_running", True)]:
                raise Bad("Actor.start: does nothing under a condition other than `is_running`")
        elif srcs == ["self._tasks.clear()", "self._tasks.add(asyncio.create_task(self._run_loop()))"]:
            cs = [(_u(e), pol) for e, pol in conds]
            if cs == [("self.is_running", False)]:
                guarded = True
            elif not cs:
                guarded = False
            else:
                raise Bad(f"Actor.start: starts under {cs}")
        else:
            raise Bad(f"Actor.start: unrecognised actions {srcs}")
    if guarded is None:
        raise Bad("Actor.start: never starts the run loop")
    out.append("/-- `Actor.start()` returns early while `is_running`. -/\n"
               f"def startGuarded : Bool := {'true' if guarded else 'false'}")
    return out


# ----------------------------------------------------------------------------- _background_service.py
def _find_loop(stmts: list[ast.stmt]) -> ast.While | None:
    for s in stmts:
        if isinstance(s, ast.While) and _u(s.test) == "self._tasks":
            return s
    return None


def _is_result_helper(mod: ast.Module, name: str, cls: ast.ClassDef | None = None) -> bool:
    """`def h(t): try: [_ =] t.result() except BaseException as e: return e; return None`
    (a module function, or — with `cls` — a method / static method called as `self.h(t)`)."""
    try:
        fn = _fn(cls if cls is not None else mod, name)
    except Bad:
        return False
    b = _normalise(fn)
    args = [a.arg for a in fn.args.args]
    if cls is not None and [_u(d) for d in fn.decorator_list] != ["staticmethod"]:
        if fn.decorator_list or not args:
            return False
        args = args[1:]
    if len(args) != 1 or fn.args.kwonlyargs or fn.args.vararg or fn.args.kwarg:
        return False
    arg = args[0]
    if not b or not isinstance(b[0], ast.Try) or len(b[0].handlers) != 1:
        return False
    t = b[0]
    h = t.handlers[0]
    ok_body = [_u(x) for x in t.body] in ([f"_ = {arg}.result()"], [f"{arg}.result()"])
    ok_h = _u(h.type) == "BaseException" and h.name and [_u(x) for x in h.body] == [f"return {h.name}"]
    ok_tail = [_u(x) for x in b[1:]] in ([], ["return None"], ["return"])
    return bool(ok_body and ok_h and ok_tail and not t.orelse and not t.finalbody)


def _collects(forstmt: ast.For, mod: ast.Module, cls: ast.ClassDef | None = None) -> str | None:
    """`for t in D: <append the exception of t.result() to L>` -> L."""
    if not isinstance(forstmt.target, ast.Name) or forstmt.orelse:
        return None
    t = forstmt.target.id
    b = forstmt.body
    if len(b) == 1 and isinstance(b[0], ast.Try) and len(b[0].handlers) == 1 and not b[0].orelse and not b[0].finalbody:
        h = b[0].handlers[0]
        if [_u(x) for x in b[0].body] in ([f"_ = {t}.result()"], [f"{t}.result()"]) and h.type is not None \
                and _u(h.type) == "BaseException" and h.name and len(h.body) == 1:
            c = h.body[0]
            if isinstance(c, ast.Expr) and isinstance(c.value, ast.Call) and isinstance(c.value.func, ast.Attribute) \
                    and c.value.func.attr == "append" and [_u(a) for a in c.value.args] == [h.name] \
                    and isinstance(c.value.func.value, ast.Name):
                return c.value.func.value.id
    # via a trivially extracted helper: `if helper(t) is not None: L.append(helper(t))` (after inlining) or with a local
    ps = _paths(b)
    app = [(c, a) for c, a in ps if a]
    if len(app) == 1 and len(ps) == 2:
        conds, acts = app[0]
        if len(acts) == 1 and isinstance(acts[0], ast.Expr) and isinstance(acts[0].value, ast.Call) \
                and isinstance(acts[0].value.func, ast.Attribute) and acts[0].value.func.attr == "append" \
                and isinstance(acts[0].value.func.value, ast.Name) and len(acts[0].value.args) == 1:
            arg = acts[0].value.args[0]
            call = arg
            pre_assign = None
            if isinstance(arg, ast.Name):
                return None
            is_helper = False
            if isinstance(call, ast.Call) and [_u(a) for a in call.args] == [t] and not call.keywords:
                if isinstance(call.func, ast.Name):
                    is_helper = _is_result_helper(mod, call.func.id)
                elif isinstance(call.func, ast.Attribute) and isinstance(call.func.value, ast.Name) and call.func.value.id == "self" \
                        and cls is not None:
                    is_helper = _is_result_helper(mod, call.func.attr, cls)
            if is_helper and len(conds) == 1:
                e, pol = conds[0]
                if (_u(e), pol) in ((f"{_u(call)} is not None", True), (f"{_u(call)} is None", False)):
                    return acts[0].value.func.value.id
    return None


def _service(src: str) -> list[str]:
    tree = _parse(src)
    svc = _cls(tree, "BackgroundService")
    wait_b = _normalise(_fn(svc, "wait"))         # (no inlining yet: is wait() the loop itself or `await self.<helper>()`?)
    loop_fn = _fn(svc, "wait")
    helper = None
    if (len(wait_b) == 1 and isinstance(wait_b[0], ast.Expr) and isinstance(wait_b[0].value, ast.Await)
            and isinstance(wait_b[0].value.value, ast.Call) and not wait_b[0].value.value.args
            and not wait_b[0].value.value.keywords and _u(wait_b[0].value.value.func).startswith("self.")):
        # the loop lives in a helper that takes the cancel flags (stop() calls it with other arguments): keep it apart
        helper = _u(wait_b[0].value.value.func)[5:]
        loop_fn = _fn(svc, helper)
    loop_body = _inline_result_local(_normalise(loop_fn, svc, tree))
    if _find_loop(loop_body) is None:
        raise Bad("wait(): neither the batch loop nor a plain `await self.<helper>()` that has it")
    loop = _find_loop(loop_body)
    if loop is None or loop.orelse:
        raise Bad("batch loop `while self._tasks:` not found")
    pre = loop_body[: loop_body.index(loop)]
    post = loop_body[loop_body.index(loop) + 1:]
    # roles inside the loop
    waits = [s for s in loop.body if isinstance(s, ast.Assign) and _u(s.value) == "await asyncio.wait(self._tasks)"
             and isinstance(s.targets[0], ast.Tuple) and len(s.targets[0].elts) == 2]
    if len(waits) != 1:
        raise Bad("wait loop: `<done>, <pending> = await asyncio.wait(self._tasks)` not found")
    iw = loop.body.index(waits[0])
    done = _u(waits[0].targets[0].elts[0])
    removes = [s for s in loop.body[iw + 1:] if _u(s) in (f"self._tasks = self._tasks - {done}", f"self._tasks -= {done}",
                                                          f"self._tasks = self._tasks.difference({done})",
                                                          f"self._tasks.difference_update({done})")]
    if len(removes) != 1:
        raise Bad("wait loop: the finished tasks are not removed from `_tasks` after the wait")
    fors = [s for s in loop.body[iw + 1:] if isinstance(s, ast.For) and _u(s.iter) == done]
    if len(fors) != 1:
        raise Bad("wait loop: no loop over the finished tasks")
    lst = _collects(fors[0], tree, svc)
    if lst is None:
        raise Bad("wait loop: cannot see that every exception of `task.result()` is appended to one list")

    def is_init(s: ast.stmt) -> bool:
        return _simple_target(s) == lst and _u(s.value) == "[]"

    def raises_group(stmts: list[ast.stmt]) -> bool:
        for conds, acts in _paths(stmts):
            for a in acts:
                if isinstance(a, ast.Raise) and a.exc is not None and isinstance(a.exc, ast.Call) \
                        and _u(a.exc.func) == "BaseExceptionGroup" and len(a.exc.args) == 2 and _u(a.exc.args[1]) == lst:
                    if [(_u(e), pol) for e, pol in conds] != [(lst, True)]:
                        raise Bad("wait loop: the group is not raised under `if <list>:`")
                    return True
        return False

    known = {id(waits[0]), id(removes[0]), id(fors[0])}
    in_init = [s for s in loop.body if is_init(s)]
    rest_in_loop = [s for s in loop.body if id(s) not in known and not is_init(s)]
    in_raise = raises_group([s for s in rest_in_loop if isinstance(s, ast.If) and loop.body.index(s) > iw])
    pre_init = any(is_init(s) for s in pre)
    post_raise = raises_group(post)
    if in_raise and in_init and loop.body.index(in_init[0]) < loop.body.index(fors[0]) and not post_raise and not pre_init:
        all_rounds = False
    elif post_raise and pre_init and not in_raise and not in_init:
        all_rounds = True
    else:
        raise Bad("wait loop: cannot tell whether exceptions are raised per batch or after all rounds")
    # cancel in every round?  `if <flag>: self.cancel(msg)` before the asyncio.wait
    def cancel_flag(stmts: list[ast.stmt]) -> str | None:
        for s in stmts:
            if isinstance(s, ast.If) and not s.orelse and [_u(x) for x in s.body] == ["self.cancel(msg)"] and isinstance(s.test, ast.Name):
                return s.test.id
        return None

    round_flag = cancel_flag(loop.body[:iw])
    pre_flag = cancel_flag(pre)
    other = [s for s in rest_in_loop if not (isinstance(s, ast.If) and (cancel_flag([s]) or loop.body.index(s) > iw))]
    if other:
        raise Bad(f"wait loop: unexpected statement {_u(other[0])[:60]}")

    # stop(): nothing when `_tasks` is empty; else cancel + wait, re-raise the group minus CancelledError
    stop = _fn(svc, "stop")
    sb = _normalise(stop, svc, tree, {helper} if helper else set())
    work = None
    for conds, acts in _paths(sb):
        acts = [a for a in acts if not (isinstance(a, ast.Return) and a.value is None)]
        cs = [(_u(e), pol) for e, pol in conds]
        if not acts:
            if cs != [("self._tasks", False)]:
                raise Bad(f"stop(): returns early under {cs}")
        else:
            if cs not in ([("self._tasks", True)],):
                raise Bad(f"stop(): works under {cs}")
            work = acts
    if work is None:
        raise Bad("stop(): never waits")
    cancel_at_call = False
    if work and _u(work[0]) == "self.cancel(msg)":
        cancel_at_call = True
        work = work[1:]
    if not (len(work) == 1 and isinstance(work[0], ast.Try) and not work[0].orelse and not work[0].finalbody):
        raise Bad("stop(): expected `[self.cancel(msg);] try: await …`")
    tr = work[0]
    if not (len(tr.body) == 1 and isinstance(tr.body[0], ast.Expr) and isinstance(tr.body[0].value, ast.Await)
            and isinstance(tr.body[0].value.value, ast.Call)):
        raise Bad("stop(): try body is not a single await")
    call = tr.body[0].value.value
    callee = _u(call.func)
    kw = {k.arg: _u(k.value) for k in call.keywords}
    cancel_rounds = False
    if callee == "self.wait" and not call.args and not kw:
        pass
    elif helper is not None and callee == f"self.{helper}" and not call.args:
        cancel_rounds = round_flag is not None and kw.get(round_flag) == "True"
        if pre_flag is not None and kw.get(pre_flag) == "True":
            cancel_at_call = True
    else:
        raise Bad(f"stop(): awaits {_u(call)}")
    for flag in {round_flag, pre_flag} - {None}:
        names = [a.arg for a in loop_fn.args.kwonlyargs]
        if flag not in names or _u(loop_fn.args.kw_defaults[names.index(flag)]) != "False":
            raise Bad("cancel flag of the wait helper has no `False` default")   # wait() must never cancel
    if not cancel_at_call and not cancel_rounds:
        raise Bad("stop(): no cancellation found")
    if len(tr.handlers) != 1 or _u(tr.handlers[0].type) != "BaseExceptionGroup" or not tr.handlers[0].name:
        raise Bad("stop(): expected one `except BaseExceptionGroup as g`")
    g = tr.handlers[0].name
    rest = f"{g}.split(asyncio.CancelledError)[1]"
    seen_raise = False
    for conds, acts in _paths(tr.handlers[0].body):
        acts = [a for a in acts if not (isinstance(a, ast.Return) and a.value is None)]
        cs = [(_u(e), pol) for e, pol in conds]
        if not acts:
            if cs not in ([(f"{rest} is not None", False)], [(f"{rest} is None", True)]):
                raise Bad(f"stop(): swallows the group under {cs}")
        elif [_u(a) for a in acts] == [f"raise {rest}"] and cs in ([(f"{rest} is not None", True)], [(f"{rest} is None", False)]):
            seen_raise = True
        else:
            raise Bad(f"stop(): handler does {[_u(a) for a in acts]} under {cs}")
    if not seen_raise:
        raise Bad("stop(): the group minus CancelledError is never re-raised")

    # is_running / cancel
    isr = _normalise(_fn(svc, "is_running"), svc, tree)
    ok = False
    if len(isr) == 1 and isinstance(isr[0], ast.Return) and isinstance(isr[0].value, ast.Call) and _u(isr[0].value.func) == "any" \
            and len(isr[0].value.args) == 1 and isinstance(isr[0].value.args[0], (ast.GeneratorExp, ast.ListComp)):
        ge = isr[0].value.args[0]
        if len(ge.generators) == 1 and not ge.generators[0].ifs and _u(ge.generators[0].iter) == "self._tasks" \
                and _u(ge.elt) == f"not {_u(ge.generators[0].target)}.done()":
            ok = True
    elif len(isr) == 2 and isinstance(isr[0], ast.For) and _u(isr[0].iter) == "self._tasks" and not isr[0].orelse \
            and _u(isr[1]) == "return False" and isinstance(isr[0].target, ast.Name):
        t = isr[0].target.id
        ps = [([(_u(e), pol) for e, pol in c], [_u(x) for x in a]) for c, a in _paths(isr[0].body)]
        if sorted(ps) == sorted([([(f"{t}.done()", False)], ["return True"]), ([(f"{t}.done()", True)], [])]):
            ok = True
    if not ok:
        raise Bad("is_running: not `any(not task.done() for task in self._tasks)`")
    can = _normalise(_fn(svc, "cancel"), svc, tree)
    if not (len(can) == 1 and isinstance(can[0], ast.For) and _u(can[0].iter) == "self._tasks" and isinstance(can[0].target, ast.Name)
            and [_u(x) for x in can[0].body] == [f"{can[0].target.id}.cancel(msg)"] and not can[0].orelse):
        raise Bad("cancel(): not `for task in self._tasks: task.cancel(msg)`")
    return [
        "/-- `wait()` raises its group only after the loop over batches has ended (all rounds). -/\n"
        f"def waitAllRounds : Bool := {'true' if all_rounds else 'false'}",
        "/-- `stop()` cancels the tasks present when it is called. -/\n"
        f"def stopCancelsAtCall : Bool := {'true' if (cancel_at_call or cancel_rounds) else 'false'}",
        "/-- `stop()` cancels again at the start of every later round (tasks that appeared meanwhile). -/\n"
        f"def stopCancelsEveryRound : Bool := {'true' if cancel_rounds else 'false'}",
    ]


def _inline_result_local(stmts: list[ast.stmt]) -> list[ast.stmt]:
    """Inside `for t in D:` bodies, inline `e = helper(t)` (assigned once per iteration) into its uses."""
    out = []
    for s in stmts:
        s = _map_blocks(s, _inline_result_local)
        if isinstance(s, ast.For) and s.body and _simple_target(s.body[0]) and isinstance(s.body[0].value, ast.Call) \
                and isinstance(s.body[0].value.func, (ast.Name, ast.Attribute)):
            name, val = _simple_target(s.body[0]), s.body[0].value
            mod = ast.Module(body=s.body[1:], type_ignores=[])
            s.body = _Subst(name, val).visit(mod).body
        out.append(s)
    return out


# ----------------------------------------------------------------------------- _internal/_asyncio.py
def _guard(e: ast.expr, task: str) -> str:
    """A test of cancel_and_await as a Lean Bool over `done : Bool` and `cancelling : Nat`."""
    if isinstance(e, ast.BoolOp):
        op = " || " if isinstance(e.op, ast.Or) else " && "
        return "(" + op.join(_guard(v, task) for v in e.values) + ")"
    if isinstance(e, ast.UnaryOp) and isinstance(e.op, ast.Not):
        return f"(!{_guard(e.operand, task)})"
    s = _u(e)
    if s == f"{task}.done()":
        return "done"
    if s == f"{task}.cancelling()":          # truthiness of an int
        return "decide (cancelling > 0)"
    if isinstance(e, ast.Compare) and len(e.ops) == 1 and _u(e.left) == f"{task}.cancelling()" \
            and isinstance(e.comparators[0], ast.Constant) and isinstance(e.comparators[0].value, int):
        sym = {ast.Lt: "<", ast.LtE: "≤", ast.Gt: ">", ast.GtE: "≥", ast.Eq: "=", ast.NotEq: "≠"}.get(type(e.ops[0]))
        if sym:
            return f"decide (cancelling {sym} {e.comparators[0].value})"
    if isinstance(e, ast.Constant) and isinstance(e.value, bool):
        return "true" if e.value else "false"
    raise Bad(f"cancel_and_await: unsupported test {s}")


def _cancel_and_await(src: str) -> list[str]:
    tree = _parse(src)
    fn = _fn(tree, "cancel_and_await")
    task = fn.args.args[0].arg
    early, work = [], []
    for conds, acts in _paths(_normalise(fn, None, tree)):
        acts = [a for a in acts if not (isinstance(a, ast.Return) and a.value is None)]
        (work if acts else early).append((conds, acts))
    if not work:
        raise Bad("cancel_and_await: never awaits the task")
    shapes = {tuple(_u(a) for a in acts) for _, acts in work}
    if len(shapes) != 1:
        raise Bad("cancel_and_await: different work on different paths")
    acts = work[0][1]
    cancels = False
    if acts and _u(acts[0]) == f"{task}.cancel()":
        cancels = True
        acts = acts[1:]
    if not (len(acts) == 1 and isinstance(acts[0], ast.Try)):
        raise Bad("cancel_and_await: expected `[task.cancel();] try: await task except CancelledError: pass`")
    tr = acts[0]
    if [_u(x) for x in tr.body] != [f"await {task}"] or tr.orelse or tr.finalbody:
        raise Bad("cancel_and_await: try body is not `await task`")
    swallow = False
    for h in tr.handlers:
        ty = _u(h.type) if h.type is not None else "BaseException"
        if ty in ("asyncio.CancelledError", "CancelledError") and not h.body:
            swallow = True
        else:
            raise Bad(f"cancel_and_await: handler for {ty} not recognised")
    guard = _dnf([c for c, _ in early], lambda e: _guard(e, task))
    return [
        "/-- `cancel_and_await`: the condition of its early return (`done` = `task.done()`, `cancelling` = `task.cancelling()`). -/\n"
        f"def caEarlyReturn (done : Bool) (cancelling : Nat) : Bool := {guard}",
        f"/-- `cancel_and_await` calls `task.cancel()` before awaiting. -/\ndef caCancels : Bool := {'true' if cancels else 'false'}",
        "/-- `await task` inside `cancel_and_await` swallows `CancelledError` (and nothing else). -/\n"
        f"def caSwallowsCancelled : Bool := {'true' if swallow else 'false'}",
    ]


def generate(repo: pathlib.Path) -> str:
    _check_hierarchy()
    a = _actor((repo / SOURCES[0]).read_text())
    b = _service((repo / SOURCES[1]).read_text())
    c = _cancel_and_await((repo / SOURCES[2]).read_text())
    return "namespace Extracted.Actor\n\n" + "\n\n".join(a + b + c) + "\n\nend Extracted.Actor\n"
