"""`component_graph.py` classification predicates + the tables of the formula generators -> Lean (C12).

Pure `ast`.  What is extracted (the Lean model `Frequenz/Model/Graph.lean` is parametrised by all of it):

  component_graph.py
    is_pv_inverter / is_battery_inverter / is_ev_charger / is_chp   -> Bool functions on (category, inverter type)
    is_pv_meter / is_battery_meter / is_ev_charger_meter / is_chp_meter
        -> MeterSpec {category, "not is_grid_meter" present?, "len(successors) > 0" present?, leaf predicate of the all(...)}
    is_*_chain        -> (leaf predicate, meter predicate) of the `or`
    is_grid_meter     -> GridMeterSpec {category, #predecessors, predecessor category, #grid successors}
    dfs               -> shape check only (stop at first match, visited set, union over successors); raises if changed
    _validate_*       -> category tables (valid roots, intermediary, leaf)
  generators
    grid:      category set of the grid successors that are summed
    consumer:  `_are_grid_meters` (category + excluded chains), `non_consumer_component` (chains),
               `consumer_component` (category set + excluded chains)
    producer:  chains of the dfs condition;   pv: chain of the dfs condition
    _formula_generator: leaf predicates of `_get_meter_fallback_components`, pairs of `_is_primary_fallback_pair`,
               NON_EXISTING_COMPONENT_ID, whether `_get_metric_fallback_components` requires all successors of the
               predecessor to be requested before pairing (false on the pinned tree)
    every generator: how `nones_are_zeros` is computed at each push_component_metric, the metric id of the builder
    chp:       required predecessor category / count

Anything that does not have the expected shape raises (the check then searches for a failing input).
"""
from __future__ import annotations

import ast
import pathlib
import sys

NAME = "Graph"
GEN = "src/frequenz/sdk/timeseries/formula_engine/_formula_generators/"
SOURCES = [
    "src/frequenz/sdk/microgrid/component_graph.py",
    GEN + "_formula_generator.py",
    GEN + "_grid_power_formula_base.py",
    GEN + "_grid_power_formula.py",
    GEN + "_consumer_power_formula.py",
    GEN + "_producer_power_formula.py",
    GEN + "_battery_power_formula.py",
    GEN + "_pv_power_formula.py",
    GEN + "_ev_charger_power_formula.py",
    GEN + "_chp_power_formula.py",
    GEN + "_simple_formula.py",
]

CATS = {"NONE": "none", "GRID": "grid", "METER": "meter", "INVERTER": "inverter", "BATTERY": "battery",
        "EV_CHARGER": "evCharger", "CHP": "chp"}
INVTYPES = {"NONE": "none", "BATTERY": "battery", "SOLAR": "solar", "HYBRID": "hybrid"}
LEAVES = {"is_pv_inverter": "pvInverter", "is_battery_inverter": "batteryInverter", "is_ev_charger": "evCharger",
          "is_chp": "chp"}
METERS = {"is_pv_meter": "pvMeter", "is_battery_meter": "batteryMeter", "is_ev_charger_meter": "evChargerMeter",
          "is_chp_meter": "chpMeter"}
CHAINS = {"is_pv_chain": "pv", "is_battery_chain": "battery", "is_ev_charger_chain": "evCharger", "is_chp_chain": "chp"}


class Shape(Exception):
    pass


def need(cond: bool, what: str) -> None:
    if not cond:
        raise Shape(what)


# ----------------------------------------------------------------------------- ast helpers
def body_of(fn: ast.FunctionDef) -> list[ast.stmt]:
    b = list(fn.body)
    if b and isinstance(b[0], ast.Expr) and isinstance(b[0].value, ast.Constant) and isinstance(b[0].value.value, str):
        b = b[1:]
    return b


def methods(tree: ast.AST, cls: str) -> dict[str, ast.FunctionDef]:
    for n in ast.walk(tree):
        if isinstance(n, ast.ClassDef) and n.name == cls:
            return {f.name: f for f in n.body if isinstance(f, (ast.FunctionDef, ast.AsyncFunctionDef))}
    raise Shape(f"class {cls} not found")


def all_functions(tree: ast.AST) -> dict[str, ast.FunctionDef]:
    return {f.name: f for f in ast.walk(tree) if isinstance(f, ast.FunctionDef)}


def enum_member(e: ast.expr, enum: str, table: dict[str, str]) -> str:
    need(isinstance(e, ast.Attribute) and isinstance(e.value, ast.Name) and e.value.id == enum,
         f"expected {enum}.<member>, got {ast.unparse(e)}")
    need(e.attr in table, f"unknown {enum} member {e.attr}")
    return table[e.attr]


def single_return(fn: ast.FunctionDef) -> ast.expr:
    b = body_of(fn)
    need(len(b) >= 1 and isinstance(b[-1], ast.Return) and b[-1].value is not None
         and all(isinstance(s, ast.Assign) and ast.unparse(s.value) == "connection_manager.get().component_graph"
                 for s in b[:-1]), f"{fn.name}: expected a single return")
    return b[-1].value


def conjuncts(e: ast.expr) -> list[ast.expr]:
    return list(e.values) if isinstance(e, ast.BoolOp) and isinstance(e.op, ast.And) else [e]


def disjuncts(e: ast.expr) -> list[ast.expr]:
    return list(e.values) if isinstance(e, ast.BoolOp) and isinstance(e.op, ast.Or) else [e]


def is_cmp(e: ast.expr, op: type) -> bool:
    return isinstance(e, ast.Compare) and len(e.ops) == 1 and isinstance(e.ops[0], op)


def attr_of_name(e: ast.expr, attr: str) -> bool:
    """`<name>.<attr>`"""
    return isinstance(e, ast.Attribute) and e.attr == attr and isinstance(e.value, ast.Name)


def method_call(e: ast.expr, table: dict[str, str]) -> str | None:
    """`<obj>.<method>(<one arg>)` with method in table -> table value."""
    if isinstance(e, ast.Call) and isinstance(e.func, ast.Attribute) and e.func.attr in table and len(e.args) == 1 \
            and not e.keywords:
        return table[e.func.attr]
    return None


def negated(e: ast.expr) -> ast.expr | None:
    return e.operand if isinstance(e, ast.UnaryOp) and isinstance(e.op, ast.Not) else None


def cat_set(e: ast.expr) -> list[str]:
    need(isinstance(e, ast.Set), f"expected a set literal of categories, got {ast.unparse(e)}")
    return [enum_member(x, "ComponentCategory", CATS) for x in e.elts]


def all_over(e: ast.expr, table: dict[str, str]) -> str | None:
    """`all(<obj>.<pred>(x) for x in <iter>)` -> pred"""
    if isinstance(e, ast.Call) and isinstance(e.func, ast.Name) and e.func.id == "all" and len(e.args) == 1 \
            and isinstance(e.args[0], ast.GeneratorExp) and len(e.args[0].generators) == 1 \
            and not e.args[0].generators[0].ifs:
        return method_call(e.args[0].elt, table)
    return None


# ----------------------------------------------------------------------------- component_graph.py
def parse_leaf(fn: ast.FunctionDef) -> tuple[str, str | None]:
    cat, typ = None, None
    for c in conjuncts(single_return(fn)):
        need(is_cmp(c, ast.Eq), f"{fn.name}: expected `==` comparisons, got {ast.unparse(c)}")
        lhs, rhs = c.left, c.comparators[0]
        if attr_of_name(lhs, "category"):
            need(cat is None, f"{fn.name}: two category tests")
            cat = enum_member(rhs, "ComponentCategory", CATS)
        elif attr_of_name(lhs, "type"):
            need(typ is None, f"{fn.name}: two type tests")
            typ = enum_member(rhs, "InverterType", INVTYPES)
        else:
            raise Shape(f"{fn.name}: unexpected test {ast.unparse(c)}")
    need(cat is not None, f"{fn.name}: no category test")
    return cat, typ


def parse_meter_pred(fn: ast.FunctionDef) -> dict:
    b = body_of(fn)
    need(isinstance(b[-1], ast.Return) and b[-1].value is not None, f"{fn.name}: last statement must be a return")
    for s in b[:-1]:
        need(isinstance(s, ast.Assign) and ast.unparse(s.value).startswith("self.successors("),
             f"{fn.name}: unexpected statement {ast.unparse(s)}")
    spec = {"cat": None, "notGridMeter": False, "nonEmpty": False, "leaf": None}
    for c in conjuncts(b[-1].value):
        n = negated(c)
        if is_cmp(c, ast.Eq) and attr_of_name(c.left, "category"):
            spec["cat"] = enum_member(c.comparators[0], "ComponentCategory", CATS)
        elif n is not None and method_call(n, {"is_grid_meter": "g"}):
            spec["notGridMeter"] = True
        elif is_cmp(c, ast.Gt) and ast.unparse(c.left).startswith("len(") and ast.unparse(c.comparators[0]) == "0":
            spec["nonEmpty"] = True
        elif all_over(c, LEAVES):
            need(spec["leaf"] is None, f"{fn.name}: two all(...) tests")
            spec["leaf"] = all_over(c, LEAVES)
        else:
            raise Shape(f"{fn.name}: unexpected conjunct {ast.unparse(c)}")
    need(spec["cat"] is not None and spec["leaf"] is not None, f"{fn.name}: category test or all(...) missing")
    return spec


def parse_chain(fn: ast.FunctionDef) -> tuple[str, str]:
    ds = disjuncts(single_return(fn))
    need(len(ds) == 2, f"{fn.name}: expected `is_leaf(c) or is_meter(c)`")
    leaf, meter = method_call(ds[0], LEAVES), method_call(ds[1], METERS)
    need(leaf is not None and meter is not None, f"{fn.name}: expected `is_leaf(c) or is_meter(c)`")
    return leaf, meter


def parse_grid_meter(fn: ast.FunctionDef) -> dict:
    b = body_of(fn)
    need(len(b) == 7, "is_grid_meter: expected 7 statements")

    def guard(s: ast.stmt) -> ast.Compare:
        need(isinstance(s, ast.If) and not s.orelse and len(s.body) == 1 and isinstance(s.body[0], ast.Return)
             and isinstance(s.body[0].value, ast.Constant) and s.body[0].value.value is False
             and is_cmp(s.test, ast.NotEq), f"is_grid_meter: expected `if a != b: return False`, got {ast.unparse(s)}")
        return s.test  # type: ignore[return-value]

    g0, g2, g4 = guard(b[0]), guard(b[2]), guard(b[4])
    need(attr_of_name(g0.left, "category"), "is_grid_meter: first guard must test the category")
    cat = enum_member(g0.comparators[0], "ComponentCategory", CATS)
    need(isinstance(b[1], ast.Assign) and ".predecessors(" in ast.unparse(b[1].value), "is_grid_meter: predecessors")
    need(ast.unparse(g2.left).startswith("len(") and isinstance(g2.comparators[0], ast.Constant), "is_grid_meter: len(preds)")
    npred = g2.comparators[0].value
    need(isinstance(b[3], ast.Assign) and ast.unparse(b[3].value).startswith("next(iter("), "is_grid_meter: next(iter(..))")
    need(attr_of_name(g4.left, "category"), "is_grid_meter: third guard must test the predecessor's category")
    pcat = enum_member(g4.comparators[0], "ComponentCategory", CATS)
    need(isinstance(b[5], ast.Assign) and ".successors(" in ast.unparse(b[5].value), "is_grid_meter: successors")
    r = b[6]
    need(isinstance(r, ast.Return) and is_cmp(r.value, ast.Eq) and ast.unparse(r.value.left).startswith("len(")
         and isinstance(r.value.comparators[0], ast.Constant), "is_grid_meter: return len(grid_successors) == n")
    nsucc = r.value.comparators[0].value
    need(isinstance(npred, int) and isinstance(nsucc, int), "is_grid_meter: integer counts")
    return {"cat": cat, "npred": npred, "pcat": pcat, "nsucc": nsucc}


class _Renamer(ast.NodeTransformer):
    def __init__(self) -> None:
        self.map: dict[str, str] = {}

    def _n(self, name: str) -> str:
        if name not in self.map:
            self.map[name] = f"v{len(self.map)}"
        return self.map[name]

    def visit_arg(self, node: ast.arg) -> ast.arg:
        node.arg = self._n(node.arg)
        node.annotation = None
        return node

    def visit_Name(self, node: ast.Name) -> ast.Name:
        if node.id in self.map or isinstance(node.ctx, ast.Store):
            node.id = self._n(node.id)
        return node

    def visit_AnnAssign(self, node: ast.AnnAssign) -> ast.AST:
        self.generic_visit(node)
        if node.value is None:
            return ast.Pass()
        return ast.Assign(targets=[node.target], value=node.value, lineno=0)


def normalized(fn: ast.FunctionDef) -> str:
    """Source of `fn` without docstring/annotations, locals renamed in order of first appearance."""
    import copy

    f = copy.deepcopy(fn)
    f.body = body_of(f)
    f.returns = None
    f.decorator_list = []
    r = _Renamer()
    r.visit(f.args)
    for i, s in enumerate(f.body):
        f.body[i] = r.visit(s)
    ast.fix_missing_locations(f)
    return "\n".join(ast.unparse(s) for s in f.body)


DFS_SHAPE = "\n".join([
    "if v1 in v2:",
    "    return set()",
    "v2.add(v1)",
    "if v3(v1):",
    "    return {v1}",
    "v4 = set()",
    "for v5 in v0.successors(v1.component_id):",
    "    v4.update(v0.dfs(v5, v2, v3))",
    "return v4",
])


def category_set_in(fn: ast.FunctionDef, what: str) -> list[str]:
    """The `component_categories={...}` literal / `valid_root_types = {...}` inside a validator."""
    for n in ast.walk(fn):
        if isinstance(n, ast.Set) and n.elts and all(
                isinstance(x, ast.Attribute) and isinstance(x.value, ast.Name) and x.value.id == "ComponentCategory"
                for x in n.elts):
            return cat_set(n)
    raise Shape(f"{what}: no category set literal")


# ----------------------------------------------------------------------------- generators
def naz_kind(e: ast.expr, lambdas: dict[str, ast.expr]) -> str:
    """Classify the `nones_are_zeros=` argument: `true`, `false`, or `notCat <cat>` (category != <cat>)."""
    if isinstance(e, ast.Constant) and isinstance(e.value, bool):
        return "(.const true)" if e.value else "(.const false)"
    if is_cmp(e, ast.NotEq) and isinstance(e.left, ast.Attribute) and e.left.attr == "category":
        return f"(.notCat .{enum_member(e.comparators[0], 'ComponentCategory', CATS)})"
    if isinstance(e, ast.Call) and isinstance(e.func, ast.Name) and e.func.id in lambdas and len(e.args) == 1:
        return naz_kind(lambdas[e.func.id], lambdas)
    raise Shape(f"nones_are_zeros: unsupported expression {ast.unparse(e)}")


def naz_calls(fn: ast.FunctionDef) -> list[tuple[str, str, bool]]:
    """[(kind, first-arg source, has fallback kw)] for every push_component_metric call, in source order."""
    lambdas: dict[str, ast.expr] = {}
    for n in ast.walk(fn):
        if isinstance(n, (ast.Assign, ast.AnnAssign)) and isinstance(n.value, ast.Lambda):
            t = n.targets[0] if isinstance(n, ast.Assign) else n.target
            if isinstance(t, ast.Name):
                lambdas[t.id] = n.value.body
    out = []
    calls = [n for n in ast.walk(fn) if isinstance(n, ast.Call) and isinstance(n.func, ast.Attribute)
             and n.func.attr == "push_component_metric"]
    calls.sort(key=lambda c: (c.lineno, c.col_offset))
    for c in calls:
        kw = {k.arg: k.value for k in c.keywords}
        need("nones_are_zeros" in kw, "push_component_metric without nones_are_zeros")
        out.append((naz_kind(kw["nones_are_zeros"], lambdas), ast.unparse(c.args[0]), "fallback" in kw))
    return out


def metric_id(fn: ast.FunctionDef) -> str:
    for n in ast.walk(fn):
        if isinstance(n, ast.Call) and isinstance(n.func, ast.Attribute) and n.func.attr == "_get_builder":
            need(len(n.args) >= 2 and isinstance(n.args[1], ast.Attribute), "_get_builder(name, ComponentMetricId.X, ...)")
            return n.args[1].attr
    raise Shape(f"{fn.name}: no _get_builder call")


def chains_of(e: ast.expr, neg: bool) -> list[str]:
    out = []
    for x in (conjuncts(e) if neg else disjuncts(e)):
        y = negated(x) if neg else x
        if y is None:
            continue
        c = method_call(y, CHAINS)
        if c is not None:
            out.append(c)
    return out


def lean_list(xs: list[str], dot: bool = True) -> str:
    return "[" + ", ".join(("." + x) if dot else x for x in xs) + "]"


def lean_bool(b: bool) -> str:
    return "true" if b else "false"


def generate(repo: pathlib.Path) -> str:
    trees = {s: ast.parse((repo / s).read_text()) for s in SOURCES}
    cg = methods(trees[SOURCES[0]], "_MicrogridComponentGraph")
    out: list[str] = ["set_option linter.unusedVariables false", "", "namespace Extracted.Graph", ""]
    out += [
        "/-- `ComponentCategory` (frequenz.client.microgrid). -/",
        "inductive Cat where | none | grid | meter | inverter | battery | evCharger | chp",
        "deriving DecidableEq, Repr",
        "/-- `InverterType`. -/",
        "inductive InvType where | none | battery | solar | hybrid",
        "deriving DecidableEq, Repr",
        "inductive Leaf where | pvInverter | batteryInverter | evCharger | chp",
        "deriving DecidableEq, Repr",
        "inductive MeterPred where | pvMeter | batteryMeter | evChargerMeter | chpMeter",
        "deriving DecidableEq, Repr",
        "inductive Chain where | pv | battery | evCharger | chp",
        "deriving DecidableEq, Repr",
        "/-- `category == METER and not is_grid_meter(c) and len(successors) > 0 and all(is_<leaf>(s) …)` -/",
        "structure MeterSpec where",
        "  cat : Cat",
        "  notGridMeter : Bool",
        "  nonEmpty : Bool",
        "  leaf : Leaf",
        "deriving DecidableEq, Repr",
        "structure GridMeterSpec where",
        "  cat : Cat",
        "  nPred : Nat",
        "  predCat : Cat",
        "  nGridSucc : Nat",
        "deriving DecidableEq, Repr",
        "/-- how a generator computes `nones_are_zeros` for a pushed component -/",
        "inductive Naz where | const (b : Bool) | notCat (c : Cat)",
        "deriving DecidableEq, Repr",
        "",
    ]
    # leaves
    for py, ln in LEAVES.items():
        need(py in cg, f"{py} missing")
        cat, typ = parse_leaf(cg[py])
        cond = f"c == .{cat}" + (f" && t == .{typ}" if typ else "")
        out.append(f"/-- `{py}` -/")
        out.append(f"def {ln}Test (c : Cat) (t : InvType) : Bool := {cond}")
    out.append("def Leaf.test : Leaf → Cat → InvType → Bool")
    for ln in LEAVES.values():
        out.append(f"  | .{ln} => {ln}Test")
    out.append("")
    # meters
    for py, ln in METERS.items():
        need(py in cg, f"{py} missing")
        sp = parse_meter_pred(cg[py])
        out.append(f"/-- `{py}` -/")
        out.append(f"def {ln}Spec : MeterSpec := ⟨.{sp['cat']}, {lean_bool(sp['notGridMeter'])}, "
                   f"{lean_bool(sp['nonEmpty'])}, .{sp['leaf']}⟩")
    out.append("def MeterPred.spec : MeterPred → MeterSpec")
    for ln in METERS.values():
        out.append(f"  | .{ln} => {ln}Spec")
    out.append("")
    # chains
    out.append("/-- `is_*_chain(c) = is_<leaf>(c) or is_<meter>(c)` -/")
    out.append("def Chain.parts : Chain → Leaf × MeterPred")
    for py, ln in CHAINS.items():
        need(py in cg, f"{py} missing")
        leaf, meter = parse_chain(cg[py])
        out.append(f"  | .{ln} => (.{leaf}, .{meter})")
    out.append("")
    gm = parse_grid_meter(cg["is_grid_meter"])
    out.append("/-- `is_grid_meter` -/")
    out.append(f"def gridMeterSpec : GridMeterSpec := ⟨.{gm['cat']}, {gm['npred']}, .{gm['pcat']}, {gm['nsucc']}⟩")
    # dfs
    got = normalized(cg["dfs"])
    need(got == DFS_SHAPE, "dfs: body no longer has the modelled shape:\n" + got)
    out.append("/-- `dfs` has the modelled shape: visited check, stop at the first match, union over the successors. -/")
    out.append("def dfsShapeChecked : Bool := true")
    out.append("")
    # validators
    out.append(f"def validRootCats : List Cat := {lean_list(category_set_in(cg['_validate_graph_root'], 'root'))}")
    out.append(f"def intermediaryCats : List Cat := "
               f"{lean_list(category_set_in(cg['_validate_intermediary_components'], 'intermediary'))}")
    out.append(f"def leafCats : List Cat := {lean_list(category_set_in(cg['_validate_leaf_components'], 'leaf'))}")
    out.append("")

    # ---- generators
    fg = all_functions(trees[GEN + "_formula_generator.py"])
    # NON_EXISTING_COMPONENT_ID
    nonexist = None
    for n in trees[GEN + "_formula_generator.py"].body:
        if isinstance(n, ast.Assign) and isinstance(n.targets[0], ast.Name) and n.targets[0].id == "NON_EXISTING_COMPONENT_ID":
            need(ast.unparse(n.value) == "sys.maxsize", "NON_EXISTING_COMPONENT_ID is no longer sys.maxsize")
            nonexist = 2 ** 63 - 1
    need(nonexist is not None, "NON_EXISTING_COMPONENT_ID missing")
    out.append(f"def nonExistingComponentId : Nat := {nonexist}")
    # _get_metric_fallback_components: the category that makes a component "a meter"
    mfc = fg["_get_metric_fallback_components"]
    cats = [enum_member(n.comparators[0], "ComponentCategory", CATS) for n in ast.walk(mfc)
            if is_cmp(n, ast.Eq) and isinstance(n.left, ast.Attribute) and n.left.attr == "category"]
    need(len(cats) == 1, "_get_metric_fallback_components: expected one `component.category == X` test")
    out.append(f"def fallbackPrimaryCat : Cat := .{cats[0]}")
    lens = [n for n in ast.walk(mfc) if is_cmp(n, ast.Eq) and ast.unparse(n.left) == "len(predecessors)"]
    need(len(lens) == 1 and ast.unparse(lens[0].comparators[0]) == "1", "_get_metric_fallback_components: len(predecessors) == 1")
    # is a component paired with its predecessor only when ALL successors of the predecessor were requested?
    pair_ifs = [n for n in ast.walk(mfc) if isinstance(n, ast.If) and "_is_primary_fallback_pair" in ast.unparse(n.test)]
    need(len(pair_ifs) == 1, "_get_metric_fallback_components: expected one `if self._is_primary_fallback_pair(...)`")
    cj = conjuncts(pair_ifs[0].test)
    need(isinstance(cj[0], ast.Call) and ast.unparse(cj[0].func) == "self._is_primary_fallback_pair",
         "_get_metric_fallback_components: pair test must come first")
    if len(cj) == 1:
        requires_all = False
    else:
        need(len(cj) == 2 and ast.unparse(cj[1]) == "graph.successors(predecessor.component_id).issubset(components)",
             f"_get_metric_fallback_components: unexpected extra condition {ast.unparse(pair_ifs[0].test)}")
        requires_all = True
    out.append("/-- `_get_metric_fallback_components` pairs a component with its predecessor only if all successors of")
    out.append("the predecessor are among the requested components -/")
    out.append(f"def pairRequiresAllRequested : Bool := {lean_bool(requires_all)}")
    # _get_meter_fallback_components
    mf = fg["_get_meter_fallback_components"]
    ifs = [s for s in body_of(mf) if isinstance(s, ast.If)]
    need(len(ifs) == 1 and isinstance(ifs[0].body[0], ast.Return) and ast.unparse(ifs[0].body[0].value) == "successors",
         "_get_meter_fallback_components: expected `if all(..) or ..: return successors`")
    leaves = [all_over(d, LEAVES) for d in disjuncts(ifs[0].test)]
    need(all(x is not None for x in leaves), "_get_meter_fallback_components: unexpected disjunct")
    out.append(f"def meterFallbackLeaves : List Leaf := {lean_list(leaves)}")
    # _is_primary_fallback_pair
    pf = fg["_is_primary_fallback_pair"]
    rets = [s for s in body_of(pf) if isinstance(s, ast.Return)]
    need(len(rets) == 1, "_is_primary_fallback_pair: one return")
    alias = {}
    for s in body_of(pf):
        if isinstance(s, ast.Assign) and isinstance(s.value, ast.Name) and isinstance(s.targets[0], ast.Name):
            alias[s.targets[0].id] = s.value.id
    pairs = []
    for d in disjuncts(rets[0].value):
        cs = conjuncts(d)
        need(len(cs) == 2, f"_is_primary_fallback_pair: {ast.unparse(d)}")
        leaf, meter = method_call(cs[0], LEAVES), method_call(cs[1], METERS)
        need(leaf is not None and meter is not None, f"_is_primary_fallback_pair: {ast.unparse(d)}")
        a0 = alias.get(cs[0].args[0].id, cs[0].args[0].id)
        a1 = alias.get(cs[1].args[0].id, cs[1].args[0].id)
        need(a0 == "fallback_candidate" and a1 == "primary_candidate", "_is_primary_fallback_pair: argument roles")
        pairs.append(f"(.{leaf}, .{meter})")
    out.append(f"def primaryFallbackPairs : List (Leaf × MeterPred) := {lean_list(pairs, dot=False)}")
    out.append("")

    # grid
    gb = all_functions(trees[GEN + "_grid_power_formula_base.py"])["_generate"]
    sets = [n for n in ast.walk(gb) if isinstance(n, ast.SetComp)]
    need(len(sets) == 1 and len(sets[0].generators[0].ifs) == 1 and is_cmp(sets[0].generators[0].ifs[0], ast.In),
         "grid: expected `{c for c in grid_successors if c.category in {...}}`")
    out.append(f"def gridSuccessorCats : List Cat := {lean_list(cat_set(sets[0].generators[0].ifs[0].comparators[0]))}")
    nz = naz_calls(gb)
    need(len(nz) == 2 and nz[0][2] and not nz[1][2], "grid: expected two push_component_metric calls (fallback / plain)")
    out.append(f"def gridNaz : Naz := {nz[0][0]}")
    out.append(f"def gridNazNoFallback : Naz := {nz[1][0]}")
    out.append("")

    # consumer
    cf = all_functions(trees[GEN + "_consumer_power_formula.py"])
    agm = single_return(cf["_are_grid_meters"])
    need(isinstance(agm, ast.Call) and getattr(agm.func, "id", "") == "all" and isinstance(agm.args[0], ast.GeneratorExp),
         "_are_grid_meters: expected all(... for ...)")
    elt = agm.args[0].elt
    cs = conjuncts(elt)
    need(is_cmp(cs[0], ast.Eq) and isinstance(cs[0].left, ast.Attribute) and cs[0].left.attr == "category",
         "_are_grid_meters: first conjunct must test the category")
    out.append(f"def areGridMetersCat : Cat := .{enum_member(cs[0].comparators[0], 'ComponentCategory', CATS)}")
    ch = chains_of(elt, neg=True)
    need(len(ch) == len(cs) - 1, "_are_grid_meters: unexpected conjunct")
    out.append(f"def areGridMetersNotChains : List Chain := {lean_list(ch)}")
    nc = single_return(cf["non_consumer_component"])
    ch = chains_of(nc, neg=False)
    need(len(ch) == len(disjuncts(nc)), "non_consumer_component: unexpected disjunct")
    out.append(f"def nonConsumerChains : List Chain := {lean_list(ch)}")
    cc = single_return(cf["consumer_component"])
    cs = conjuncts(cc)
    need(is_cmp(cs[0], ast.In) and isinstance(cs[0].left, ast.Attribute) and cs[0].left.attr == "category",
         "consumer_component: first conjunct must be `category in {...}`")
    out.append(f"def consumerCats : List Cat := {lean_list(cat_set(cs[0].comparators[0]))}")
    ch = chains_of(cc, neg=True)
    need(len(ch) == len(cs) - 1, "consumer_component: unexpected conjunct")
    out.append(f"def consumerNotChains : List Chain := {lean_list(ch)}")
    nz = naz_calls(cf["_gen_with_grid_meter"])
    need(len(nz) == 3 and not nz[0][2] and nz[1][2] and not nz[2][2], "consumer with grid meter: push_component_metric calls")
    out.append(f"def consumerGridMeterNaz : Naz := {nz[0][0]}")
    out.append(f"def consumerWithNaz : Naz := {nz[1][0]}")
    nz = naz_calls(cf["_gen_without_grid_meter"])
    need(len(nz) == 3 and nz[0][1] == "NON_EXISTING_COMPONENT_ID" and nz[1][2], "consumer without grid meter: calls")
    out.append(f"def consumerNoneNaz : Naz := {nz[0][0]}")
    out.append(f"def consumerWithoutNaz : Naz := {nz[1][0]}")
    # the operators pushed: '+' between grid meters, '-' before every non consumer, '+' between consumers
    opers = [ast.unparse(n.args[0]) for n in ast.walk(cf["_gen_with_grid_meter"])
             if isinstance(n, ast.Call) and isinstance(n.func, ast.Attribute) and n.func.attr == "push_oper"]
    need(sorted(opers) == ["'+'", "'-'", "'-'"], f"consumer with grid meter: operators {opers}")
    out.append("")

    # producer
    pg = all_functions(trees[GEN + "_producer_power_formula.py"])["generate"]
    lams = [n for n in ast.walk(pg) if isinstance(n, ast.Call) and isinstance(n.func, ast.Attribute) and n.func.attr == "dfs"]
    need(len(lams) == 1 and isinstance(lams[0].args[2], ast.Lambda), "producer: dfs(grid, set(), lambda ...)")
    ch = chains_of(lams[0].args[2].body, neg=False)
    need(len(ch) == len(disjuncts(lams[0].args[2].body)), "producer: unexpected disjunct in the dfs condition")
    out.append(f"def producerChains : List Chain := {lean_list(ch)}")
    nz = naz_calls(pg)
    need(len(nz) == 3 and nz[0][1] == "NON_EXISTING_COMPONENT_ID" and nz[1][2], "producer: push_component_metric calls")
    out.append(f"def producerNoneNaz : Naz := {nz[0][0]}")
    out.append(f"def producerNaz : Naz := {nz[1][0]}")
    out.append("")

    # pv
    vg = all_functions(trees[GEN + "_pv_power_formula.py"])["generate"]
    dfss = [n for n in ast.walk(vg) if isinstance(n, ast.Call) and isinstance(n.func, ast.Attribute) and n.func.attr == "dfs"]
    need(len(dfss) == 1 and isinstance(dfss[0].args[2], ast.Attribute) and dfss[0].args[2].attr in CHAINS,
         "pv: dfs(grid, set(), component_graph.is_pv_chain)")
    out.append(f"def pvDfsChains : List Chain := [.{CHAINS[dfss[0].args[2].attr]}]")
    nz = naz_calls(vg)
    need(len(nz) == 3 and nz[0][1] == "NON_EXISTING_COMPONENT_ID" and nz[1][2], "pv: push_component_metric calls")
    out.append(f"def pvNoneNaz : Naz := {nz[0][0]}")
    out.append(f"def pvNaz : Naz := {nz[1][0]}")
    out.append(f"def pvNazNoFallback : Naz := {nz[2][0]}")
    out.append("")

    # battery
    bg = all_functions(trees[GEN + "_battery_power_formula.py"])["generate"]
    nz = naz_calls(bg)
    need(len(nz) == 3 and nz[0][1] == "NON_EXISTING_COMPONENT_ID" and nz[1][2] and not nz[2][2], "battery: calls")
    out.append(f"def batteryNoneNaz : Naz := {nz[0][0]}")
    out.append(f"def batteryNaz : Naz := {nz[1][0]}")
    out.append(f"def batteryNazNoFallback : Naz := {nz[2][0]}")
    flt = [n for n in ast.walk(bg) if isinstance(n, ast.Call) and getattr(n.func, "id", "") == "filter"]
    need(len(flt) == 1 and isinstance(flt[0].args[0], ast.Attribute) and flt[0].args[0].attr in LEAVES,
         "battery: filter(component_graph.is_battery_inverter, predecessors)")
    out.append(f"def batteryInverterLeaf : Leaf := .{LEAVES[flt[0].args[0].attr]}")
    out.append("")

    # ev
    eg = all_functions(trees[GEN + "_ev_charger_power_formula.py"])["generate"]
    nz = naz_calls(eg)
    need(len(nz) == 2 and nz[0][1] == "NON_EXISTING_COMPONENT_ID", "ev: push_component_metric calls")
    out.append(f"def evNoneNaz : Naz := {nz[0][0]}")
    out.append(f"def evNaz : Naz := {nz[1][0]}")
    out.append("")

    # chp
    hf = all_functions(trees[GEN + "_chp_power_formula.py"])
    nz = naz_calls(hf["generate"])
    need(len(nz) == 2 and nz[0][1] == "NON_EXISTING_COMPONENT_ID", "chp: push_component_metric calls")
    out.append(f"def chpNoneNaz : Naz := {nz[0][0]}")
    out.append(f"def chpNaz : Naz := {nz[1][0]}")
    gm_ = hf["_get_chp_meters"]
    cmp_cat = [n for n in ast.walk(gm_) if isinstance(n, ast.Compare) and isinstance(n.left, ast.Attribute)
               and n.left.attr == "category"]
    cmp_cat.sort(key=lambda n: (n.lineno, n.col_offset))
    need(len(cmp_cat) == 2 and is_cmp(cmp_cat[0], ast.Eq) and is_cmp(cmp_cat[1], ast.NotEq),
         "chp: expected `comp.category == CHP` and `meter.category != METER`")
    out.append(f"def chpCat : Cat := .{enum_member(cmp_cat[0].comparators[0], 'ComponentCategory', CATS)}")
    out.append(f"def chpPredecessorCat : Cat := .{enum_member(cmp_cat[1].comparators[0], 'ComponentCategory', CATS)}")
    lens = [n for n in ast.walk(gm_) if is_cmp(n, ast.NotEq) and ast.unparse(n.left) == "len(predecessors)"]
    need(len(lens) == 1 and ast.unparse(lens[0].comparators[0]) == "1", "chp: len(predecessors) != 1")
    alls = [n for n in ast.walk(gm_) if isinstance(n, ast.Call) and getattr(n.func, "id", "") == "all"]
    need(len(alls) == 1 and ast.unparse(alls[0].args[0].elt) == "successor in chps", "chp: all(successor in chps ...)")
    out.append("")

    # simple formula (fallback formulas of grid / consumer / producer)
    sg = all_functions(trees[GEN + "_simple_formula.py"])["_generate"]
    nz = naz_calls(sg)
    need(len(nz) == 1, "simple formula: one push_component_metric call")
    out.append(f"def simpleNaz : Naz := {nz[0][0]}")
    out.append("")

    # metric ids
    mids = [
        ("grid", metric_id(all_functions(trees[GEN + "_grid_power_formula.py"])["generate"])),
        ("consumer", metric_id(cf["generate"])),
        ("producer", metric_id(pg)),
        ("battery", metric_id(bg)),
        ("pv", metric_id(vg)),
        ("ev", metric_id(eg)),
        ("chp", metric_id(hf["generate"])),
    ]
    simple = [f for f in ast.walk(trees[GEN + "_simple_formula.py"]) if isinstance(f, ast.ClassDef)
              and f.name == "SimplePowerFormula"]
    need(len(simple) == 1, "SimplePowerFormula missing")
    mids.append(("simple", metric_id(simple[0].body[-1])))
    out.append("/-- metric id every generated power formula subscribes to -/")
    out.append("def metricIds : List (String × String) := ["
               + ", ".join(f'("{a}", "{b}")' for a, b in mids) + "]")
    out.append("")
    out.append("end Extracted.Graph")
    return "\n".join(out) + "\n"


if __name__ == "__main__":
    print(generate(pathlib.Path(sys.argv[1] if len(sys.argv) > 1 else "/repo")))
