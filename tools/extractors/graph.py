"""`component_graph.py` classification predicates + the tables of the formula generators -> Lean (C12).

HOW.  The anchored functions are *evaluated*, not pattern-matched: their definitions are taken from the
current source with `ast` (annotations, decorators and docstrings dropped; imports NOT executed; the repo is
never imported), compiled into a sandbox whose only other contents are stubs (`ComponentCategory`,
`InverterType`, `Component`, a graph whose `successors/predecessors/components` are answered from a scenario,
`connection_manager.get()`, a recording formula builder), and run on an exhaustive family of small scenarios.
The observed truth tables / generated formulas are then *fitted* to the parameters of the Lean model
(`Frequenz/Model/Graph.lean`): each parameter is searched over its whole candidate space and must reproduce
the observations on EVERY scenario; if no candidate does, the extractor raises (the check then treats the
proof as broken and searches for a failing input).  So the Lean terms always come from what the current
source *does*; how it is written (names, statement order, early returns vs nested ifs, helper functions in
the same class/module, comprehensions vs loops, operand order) is irrelevant.  Decorators are EVALUATED in the
sandbox (all but abstractmethod/override/final; unknown class decorators raise), class-level constants are kept
(a refactor may introduce helper methods / tables), and the sandbox executes imports of a fixed list of pure standard-library modules only (`SAFE_MODULES`,
also enforced for imports inside function bodies); any other unknown name makes the evaluation fail and the
extractor raise.

Extracted (all consumed by the model; lists whose order cannot matter — they are only used under any/all/
membership — are emitted in a fixed canonical order):
  component_graph.py   is_pv_inverter / is_battery_inverter / is_ev_charger / is_chp   (category, inverter type)
                       is_*_meter -> MeterSpec;  is_*_chain -> (leaf, meter) ;  is_grid_meter -> GridMeterSpec
                       dfs == "stop at the first match, union over successors" on all scenarios, `visited` honoured (else raise)
                       predicatesReadCurrentGraphOnly: one graph object switched through pairs of topologies (a meter
                       changing role / position) answers like a fresh one — false under lru_cache / memo attributes
                       (`history_free`; feeds `C12_history_free`)
                       _validate_* category sets (syntactic, informational only)
  _formula_generator   _get_meter_fallback_components -> leaves; _is_primary_fallback_pair -> pairs;
                       _get_metric_fallback_components -> primary category, pairRequiresAllRequested;
                       NON_EXISTING_COMPONENT_ID
  generators           grid successor categories; _are_grid_meters (category, excluded chains);
                       consumer searches (chains / categories); producer and PV search chains;
                       battery inverter predicate (+ chained DC wiring: all inverters of every requested battery);
                       CHP category / predecessor category;
                       every nones_are_zeros rule; the metric id of every builder
"""
from __future__ import annotations

import ast
import copy
import itertools
import pathlib
import sys

NAME = "Graph"
GEN = "src/frequenz/sdk/timeseries/formula_engine/_formula_generators/"
SOURCES = [
    "src/frequenz/sdk/microgrid/component_graph.py",
    GEN + "_formula_generator.py",
    GEN + "_simple_formula.py",
    GEN + "_grid_power_formula_base.py",
    GEN + "_grid_power_formula.py",
    GEN + "_consumer_power_formula.py",
    GEN + "_producer_power_formula.py",
    GEN + "_battery_power_formula.py",
    GEN + "_pv_power_formula.py",
    GEN + "_ev_charger_power_formula.py",
    GEN + "_chp_power_formula.py",
]

CATS = {"NONE": "none", "GRID": "grid", "METER": "meter", "INVERTER": "inverter", "BATTERY": "battery",
        "EV_CHARGER": "evCharger", "CHP": "chp"}
INVTYPES = {"NONE": "none", "BATTERY": "battery", "SOLAR": "solar", "HYBRID": "hybrid"}
LEAVES = {"is_pv_inverter": "pvInverter", "is_battery_inverter": "batteryInverter", "is_ev_charger": "evCharger",
          "is_chp": "chp"}
METERS = {"is_pv_meter": "pvMeter", "is_battery_meter": "batteryMeter", "is_ev_charger_meter": "evChargerMeter",
          "is_chp_meter": "chpMeter"}
CHAINS = {"is_pv_chain": "pv", "is_battery_chain": "battery", "is_ev_charger_chain": "evCharger", "is_chp_chain": "chp"}


class Shape(Exception):
    pass


def need(cond: bool, what: str) -> None:
    if not cond:
        raise Shape(what)


# ============================================================================= ast utilities
def body_of(fn: ast.FunctionDef) -> list[ast.stmt]:
    b = list(fn.body)
    if b and isinstance(b[0], ast.Expr) and isinstance(b[0].value, ast.Constant) and isinstance(b[0].value.value, str):
        b = b[1:]
    return b


class _Renamer(ast.NodeTransformer):
    def __init__(self) -> None:
        self.map: dict[str, str] = {}

    def _n(self, name: str) -> str:
        if name not in self.map:
            self.map[name] = f"v{len(self.map)}"
        return self.map[name]

    def visit_arg(self, node: ast.arg) -> ast.arg:
        node.arg = self._n(node.arg)
        node.annotation = None
        return node

    def visit_Name(self, node: ast.Name) -> ast.Name:
        if node.id in self.map or isinstance(node.ctx, ast.Store):
            node.id = self._n(node.id)
        return node

    def visit_AnnAssign(self, node: ast.AnnAssign) -> ast.AST:
        self.generic_visit(node)
        if node.value is None:
            return ast.Pass()
        return ast.Assign(targets=[node.target], value=node.value, lineno=0)


def normalized(fn: ast.FunctionDef) -> str:
    """Source of `fn` without docstring/annotations, locals renamed in order of first appearance
    (used by the harness for its function-level source fingerprints)."""
    f = copy.deepcopy(fn)
    f.body = body_of(f)
    f.returns = None
    f.decorator_list = []
    r = _Renamer()
    r.visit(f.args)
    for i, s in enumerate(f.body):
        f.body[i] = r.visit(s)
    ast.fix_missing_locations(f)
    return "\n".join(ast.unparse(s) for s in f.body)


NEUTRAL_DECORATORS = ("abstractmethod", "abc.abstractmethod", "override", "typing.override", "final", "typing.final")
NEUTRAL_CLASS_DECORATORS = ("dataclass", "dataclasses.dataclass", "final", "typing.final")


def _decorator_name(d: ast.expr) -> str:
    return ast.unparse(d.func if isinstance(d, ast.Call) else d)


# Pure standard-library modules a refactor may start to use; they are the ONLY imports that are executed
# (everything else — the repo, its dependencies — is never imported: unknown names make the extractor raise).
SAFE_MODULES = ("functools", "operator", "itertools", "collections", "collections.abc", "typing", "math", "sys")


class _Strip(ast.NodeTransformer):
    """Drop annotations, docstrings and the NEUTRAL_DECORATORS (all other decorators are evaluated in the sandbox)."""

    def visit_FunctionDef(self, node: ast.FunctionDef) -> ast.AST:
        node.returns = None
        # Decorators known not to change what a call computes are dropped; every other decorator (staticmethod,
        # property, functools.lru_cache, a project-local memoiser, …) is kept and EVALUATED in the sandbox, so that
        # its effect is observed (see `history_free`); one that cannot be evaluated there makes the extractor raise.
        node.decorator_list = [d for d in node.decorator_list if _decorator_name(d) not in NEUTRAL_DECORATORS]
        for a in node.args.posonlyargs + node.args.args + node.args.kwonlyargs:
            a.annotation = None
        if node.args.vararg:
            node.args.vararg.annotation = None
        if node.args.kwarg:
            node.args.kwarg.annotation = None
        node.body = body_of(node) or [ast.Pass()]
        self.generic_visit(node)
        return node

    def visit_AnnAssign(self, node: ast.AnnAssign) -> ast.AST:
        self.generic_visit(node)
        if node.value is None:
            return ast.Pass()
        return ast.copy_location(ast.Assign(targets=[node.target], value=node.value), node)


# ============================================================================= sandbox stubs
class Member:
    def __init__(self, enum: str, name: str) -> None:
        self.enum, self.name, self.value = enum, name, name

    def __repr__(self) -> str:
        return f"{self.enum}.{self.name}"


class EnumNS:
    def __init__(self, enum: str, names: list[str] | None) -> None:
        self._enum, self._open, self._m = enum, names is None, {}
        for n in names or []:
            self._m[n] = Member(enum, n)

    def __getattr__(self, name: str) -> Member:
        if name.startswith("_"):
            raise AttributeError(name)
        if name not in self._m:
            if not self._open:
                raise Shape(f"unknown {self._enum} member {name}")
            self._m[name] = Member(self._enum, name)
        return self._m[name]

    def __iter__(self):
        return iter(self._m.values())


class Component:
    def __init__(self, component_id: int, category: Member, type: Member | None = None, kind: str = "") -> None:
        self.component_id, self.category, self.type, self.kind = component_id, category, type, kind

    def __hash__(self) -> int:
        return hash(self.component_id)

    def __eq__(self, other: object) -> bool:
        return isinstance(other, Component) and other.component_id == self.component_id

    def __repr__(self) -> str:
        return f"<{self.kind}#{self.component_id}>"


class Dummy:
    """Stands for anything the evaluated code only passes around (channels, quantities, loggers)."""

    def __init__(self, *a, **k) -> None:
        pass

    def __getattr__(self, name: str) -> "Dummy":
        if name.startswith("__"):
            raise AttributeError(name)
        return Dummy()

    def __call__(self, *a, **k) -> "Dummy":
        return Dummy()


class Config:
    def __init__(self, component_ids=None, allow_fallback: bool = True) -> None:
        self.component_ids, self.allow_fallback = component_ids, allow_fallback


class Builder:
    """Records what a generator pushes (stands for ResampledFormulaBuilder / the engine it builds)."""

    def __init__(self, namespace=None, formula_name=None, channel_registry=None, resampler_subscription_sender=None,
                 metric_id=None, create_method=None) -> None:
        # (parameter names of the real `ResampledFormulaBuilder`: the generators may pass them by keyword)
        self.metric_id = metric_id
        self.items: list = []

    def push_oper(self, op: str) -> None:
        self.items.append(("op", op))

    def push_component_metric(self, component_id, *, nones_are_zeros, fallback=None) -> None:
        self.items.append(("c", component_id, bool(nones_are_zeros), fallback))

    def build(self) -> "Builder":
        return self

    def terms(self) -> list[tuple[int, int, bool, object]]:
        """[(sign, id, nones_are_zeros, fallback)] — only flat sums/differences are generated."""
        out, sign = [], 1
        expect_comp = True
        for it in self.items:
            if it[0] == "op":
                need(it[1] in ("+", "-") and not expect_comp, f"generated formula is not a flat +/- chain: {self.items}")
                sign, expect_comp = (1 if it[1] == "+" else -1), True
            else:
                need(expect_comp, f"generated formula is not a flat +/- chain: {self.items}")
                out.append((sign, it[1], it[2], it[3]))
                expect_comp = False
        need(not expect_comp or not self.items, f"dangling operator: {self.items}")
        return out


class Fallback:
    def __init__(self, formula_generator) -> None:      # (parameter name of the real FallbackFormulaMetricFetcher)
        self.generator = formula_generator


class ConnectionManager:
    def __init__(self) -> None:
        self.graph = None

    def get(self) -> "ConnectionManager":
        return self

    @property
    def component_graph(self):
        return self.graph


def load_module(tree: ast.Module, ns: dict, skip_classes: tuple[str, ...] = ()) -> None:
    """Define the module's functions and classes (methods only) in `ns`.  Imports are not executed."""
    for stmt in tree.body:
        if isinstance(stmt, ast.Import):
            for a in stmt.names:
                if a.name in SAFE_MODULES and (a.asname or a.name.split(".")[0]) not in ns:
                    _exec([ast.Import(names=[ast.alias(name=a.name, asname=a.asname)])], ns)
        elif isinstance(stmt, ast.ImportFrom):
            if stmt.level == 0 and stmt.module in SAFE_MODULES:
                for a in stmt.names:
                    if a.name != "*" and (a.asname or a.name) not in ns:
                        _exec([ast.ImportFrom(module=stmt.module, names=[ast.alias(name=a.name, asname=a.asname)], level=0)], ns)
        elif isinstance(stmt, ast.FunctionDef):
            _exec([_Strip().visit(copy.deepcopy(stmt))], ns)
        elif isinstance(stmt, ast.ClassDef):
            if stmt.name in skip_classes:
                continue
            for d in stmt.decorator_list:
                need(_decorator_name(d) in NEUTRAL_CLASS_DECORATORS,
                     f"class {stmt.name}: decorator `{ast.unparse(d)}` is not known to the extractor")
            bases = []
            for b in stmt.bases:
                b = b.value if isinstance(b, ast.Subscript) else b
                if isinstance(b, ast.Name) and (isinstance(ns.get(b.id), type) or b.id in ("Exception", "ValueError")):
                    if b.id not in ("ABC", "Generic"):
                        bases.append(ast.Name(id=b.id, ctx=ast.Load()))
            body: list[ast.stmt] = []
            consts: list[tuple[str, ast.expr]] = []
            for s in stmt.body:
                if isinstance(s, ast.FunctionDef):
                    body.append(_Strip().visit(copy.deepcopy(s)))
                elif isinstance(s, (ast.Assign, ast.AnnAssign)) and getattr(s, "value", None) is not None:
                    t = s.targets[0] if isinstance(s, ast.Assign) else s.target
                    if isinstance(t, ast.Name):
                        consts.append((t.id, s.value))
            cls = ast.ClassDef(name=stmt.name, bases=bases, keywords=[], body=body or [ast.Pass()], decorator_list=[])
            if sys.version_info >= (3, 12):
                cls.type_params = []
            try:
                _exec([cls], ns)
            except NameError as e:
                raise Shape(f"class {stmt.name}: a decorator/default cannot be evaluated in the sandbox ({e})") from e
            for cname, value in consts:      # class-level constants (a table a refactor may introduce)
                try:
                    setattr(ns[stmt.name], cname, eval(compile(ast.fix_missing_locations(  # pylint: disable=eval-used
                        ast.Expression(body=copy.deepcopy(value))), "<extracted>", "eval"), ns))
                except Exception:  # pylint: disable=broad-except
                    pass   # a class attribute the evaluated functions do not need (else: AttributeError -> raise)
        elif isinstance(stmt, (ast.Assign, ast.AnnAssign)):
            tgt = stmt.targets[0] if isinstance(stmt, ast.Assign) else stmt.target
            if isinstance(tgt, ast.Name) and getattr(stmt, "value", None) is not None:
                try:
                    _exec([ast.Assign(targets=[ast.Name(id=tgt.id, ctx=ast.Store())], value=copy.deepcopy(stmt.value))], ns)
                except Exception:  # pylint: disable=broad-except
                    pass   # a module constant the evaluated functions do not need


def _sandbox_builtins() -> dict:
    """The builtins of the sandbox: `import` (also inside a function body) reaches the SAFE_MODULES only."""
    import builtins  # pylint: disable=import-outside-toplevel

    real_import = builtins.__import__

    def guarded_import(name, globals=None, locals=None, fromlist=(), level=0):  # pylint: disable=redefined-builtin
        if level != 0 or name not in SAFE_MODULES:
            raise Shape(f"the evaluated code imports `{'.' * level}{name}` (only {', '.join(SAFE_MODULES)} are available)")
        return real_import(name, globals, locals, fromlist, level)

    return dict(vars(builtins), __import__=guarded_import)


def _exec(stmts: list[ast.stmt], ns: dict) -> None:
    mod = ast.Module(body=stmts, type_ignores=[])
    ast.fix_missing_locations(mod)
    exec(compile(mod, "<extracted>", "exec"), ns)  # pylint: disable=exec-used


# ============================================================================= scenarios
KINDS = {  # kind -> (category, inverter type)
    "grid": ("GRID", None), "meter": ("METER", None), "batInv": ("INVERTER", "BATTERY"), "pvInv": ("INVERTER", "SOLAR"),
    "hybInv": ("INVERTER", "HYBRID"), "ev": ("EV_CHARGER", None), "chp": ("CHP", None), "bat": ("BATTERY", None),
}
DEVICES = ("pvInv", "batInv", "ev", "chp")


class Scenario:
    """A small component tree.  spec = nested tuples: ("meter", [children…]) | ("batInv", [("bat", [])…]) | (kind, [])."""

    def __init__(self, sb: "Sandbox", succ: list, extra_edges: list[tuple[int, int]] | None = None) -> None:
        self.sb = sb
        self.nodes: dict[int, Component] = {}
        self.children: dict[int, list[int]] = {}
        self.parent: dict[int, int | None] = {}
        self._next = 1
        self.grid = self._add(("grid", succ), None)
        self.edges = [(p, c) for c, p in self.parent.items() if p is not None] + list(extra_edges or [])
        self.graph = sb.Graph(self)

    def _add(self, spec, parent: int | None) -> int:
        kind, kids = spec[0], spec[1]
        if len(spec) > 2:                      # explicit id (topologies of one history share ids)
            cid = spec[2]
            need(cid not in self.nodes, "scenario: duplicate id")
        else:
            while self._next in self.nodes:
                self._next += 1
            cid = self._next
            self._next += 1
        cat, typ = KINDS[kind]
        self.nodes[cid] = Component(cid, getattr(self.sb.CC, cat), getattr(self.sb.IT, typ) if typ else None, kind)
        self.parent[cid] = parent
        self.children[cid] = []
        if parent is not None:
            self.children[parent].append(cid)
        for k in kids:
            self._add(k, cid)
        return cid

    def comp(self, cid: int) -> Component:
        return self.nodes[cid]

    def of_kind(self, kind: str) -> list[Component]:
        return [c for c in self.nodes.values() if c.kind == kind]

    def below(self, cid: int) -> list[Component]:
        return [self.nodes[c] for c in self.children[cid]]


def leaf(kind: str):
    return ("batInv", [("bat", [])]) if kind == "batInv" else (kind, [])


def meter(*kids):
    return ("meter", list(kids))


def scenario_specs() -> list[list]:
    """Successor lists of the grid: every shape the fitted parameters can depend on."""
    child_sets: list[list] = [[]]
    kinds = list(DEVICES) + ["hybInv", "meter0"]

    def mk(k):
        return meter() if k == "meter0" else leaf(k)

    for k in kinds:
        child_sets.append([mk(k)])
    for a, b in itertools.combinations_with_replacement(kinds, 2):
        child_sets.append([mk(a), mk(b)])
    specs: list[list] = []
    for cs in child_sets:
        specs.append([meter(*cs)])                                   # single grid successor
        specs.append([meter(*cs), meter(leaf("ev"), meter())])      # two grid successors
        specs.append([meter(meter(*cs), leaf("pvInv"))])             # below a grid meter
        specs.append([leaf("pvInv"), meter(meter(*cs), meter())])    # nested, no grid meter
    for k in list(DEVICES) + ["hybInv"]:
        specs.append([leaf(k)])
        specs.append([leaf(k), meter(leaf("ev"), meter())])
    # several dedicated meters of the same device type side by side (accumulation over meters, not only over devices)
    for k in DEVICES:
        specs.append([meter(leaf(k)), meter(leaf(k), leaf(k))])
        specs.append([meter(meter(leaf(k)), meter(leaf(k), leaf(k)), meter(leaf(k)))])
    specs.append([meter(meter(leaf("pvInv"), leaf("pvInv")), meter(leaf("batInv"), leaf("batInv")), meter(leaf("ev")),
                        meter(leaf("chp")), leaf("pvInv"), leaf("batInv"), leaf("ev"), leaf("chp"), leaf("hybInv"),
                        meter(leaf("ev"), leaf("batInv"), meter()))])
    specs.append([leaf("pvInv"), leaf("batInv"), leaf("hybInv"), meter(leaf("pvInv")), meter(leaf("chp"), leaf("chp")),
                  meter(meter(leaf("batInv")), leaf("ev")), meter()])
    return specs


# ============================================================================= the sandbox
class Sandbox:
    def __init__(self, repo: pathlib.Path) -> None:
        self.trees = {s: ast.parse((repo / s).read_text()) for s in SOURCES}
        self.CC = EnumNS("ComponentCategory", list(CATS))
        self.IT = EnumNS("InverterType", list(INVTYPES))
        self.cm = ConnectionManager()
        base = {
            "__builtins__": _sandbox_builtins(),
            "ComponentCategory": self.CC, "InverterType": self.IT, "Component": Component,
            "ComponentMetricId": EnumNS("ComponentMetricId", None), "Connection": Dummy,
            "sys": sys, "itertools": itertools, "logging": Dummy(), "_logger": Dummy(), "nx": Dummy(),
            "Power": Dummy(), "ReactivePower": Dummy(), "Current": Dummy(), "Quantity": Dummy(),
            "connection_manager": self.cm, "ResampledFormulaBuilder": Builder, "FormulaGeneratorConfig": Config,
            "FallbackFormulaMetricFetcher": Fallback, "FormulaEngine": Builder, "FormulaEngine3Phase": Dummy,
            "Callable": Dummy(), "Iterable": Dummy(), "abc": Dummy(), "dataclasses": Dummy(), "asdict": Dummy(),
        }
        # component graph
        self.gns = dict(base)
        load_module(self.trees[SOURCES[0]], self.gns)
        need(isinstance(self.gns.get("_MicrogridComponentGraph"), type), "class _MicrogridComponentGraph not found")
        src_graph = self.gns["_MicrogridComponentGraph"]

        class Graph(src_graph):  # type: ignore[misc,valid-type]
            def __init__(self, sc: Scenario) -> None:  # pylint: disable=super-init-not-called
                self._sc = sc

            def successors(self, component_id: int):
                return {self._sc.nodes[b] for a, b in self._sc.edges if a == component_id}

            def predecessors(self, component_id: int):
                return {self._sc.nodes[a] for a, b in self._sc.edges if b == component_id}

            def components(self, component_ids=None, component_categories=None):
                sel = list(self._sc.nodes.values())
                if component_ids is not None:
                    sel = [c for c in sel if c.component_id in component_ids]
                if component_categories is not None:
                    sel = [c for c in sel if c.category in component_categories]
                return set(sel)

        self.Graph = Graph
        # generators: one shared namespace, base classes first
        self.ns = dict(base)
        for s in SOURCES[1:]:
            load_module(self.trees[s], self.ns, skip_classes=("FormulaGeneratorConfig",))
        self.scenarios = [Scenario(self, spec) for spec in scenario_specs()]

    def generator(self, cls: str, sc: Scenario, config: Config, graph=None):
        need(isinstance(self.ns.get(cls), type), f"class {cls} not found")
        self.cm.graph = sc.graph if graph is None else graph
        return self.ns[cls]("ns", Dummy(), Dummy(), config)

    def generate(self, cls: str, sc: Scenario, config: Config, graph=None):
        """-> ("ok", terms, builder) | ("err", exception class name)"""
        gen = self.generator(cls, sc, config, graph)
        try:
            b = gen.generate()
        except Exception as e:  # pylint: disable=broad-except
            if type(e).__name__ in ("ComponentNotFound", "FormulaGenerationError"):
                return ("err", type(e).__name__, None)
            raise Shape(f"{cls}.generate() raised {type(e).__name__}: {e}") from e
        need(isinstance(b, Builder), f"{cls}.generate() did not return the built engine")
        return ("ok", b.terms(), b)


# ============================================================================= fitting
def unique(cands: list, what: str):
    need(len(cands) >= 1, f"{what}: the observed behaviour is not expressible by the model's parameter")
    return cands[0]


def ref_dfs(sc: Scenario, start: int, cond, visited: frozenset[int] = frozenset()) -> set[int]:
    """Stop at the first match, union over the successors; nodes already in `visited` yield nothing
    (on trees a node is reached once, so the set never has to grow during the search)."""
    if start in visited:
        return set()
    c = sc.comp(start)
    if cond(c):
        return {start}
    out: set[int] = set()
    for k in sc.children[start]:
        out |= ref_dfs(sc, k, cond, visited)
    return out


PREDICATES = ["is_grid_meter"] + list(LEAVES) + list(METERS) + list(CHAINS)
GENERATORS = ("GridPowerFormula", "ConsumerPowerFormula", "ProducerPowerFormula", "PVPowerFormula", "BatteryPowerFormula",
              "EVChargerPowerFormula", "CHPPowerFormula")


def history_topologies() -> list[list]:
    """Topologies over ONE id space in which the meter #3 changes role: its successors (ids 4, 5; batteries 14, 15)
    vary over {nothing, one kind, two of a kind, two kinds} and its position over {below the grid meter #2, one
    of two grid successors, the single grid successor (= grid meter)}."""
    def dev(kind: str, slot: int):
        return ("batInv", [("bat", [], 14 + slot)], 4 + slot) if kind == "batInv" else (kind, [], 4 + slot)

    configs: list[list] = [[]]
    for k in DEVICES:
        configs += [[dev(k, 0)], [dev(k, 0), dev(k, 1)]]
    for a, b in itertools.combinations(DEVICES, 2):
        configs.append([dev(a, 0), dev(b, 1)])
    tops = []
    for cs in configs:
        tops.append([("meter", [("meter", cs, 3), ("meter", [], 8)], 2)])
        tops.append([("meter", cs, 3), ("meter", [("ev", [], 9)], 8)])
        tops.append([("meter", cs, 3)])
    return tops


def history_free(sb: "Sandbox") -> bool:
    """Does every classification predicate / generator read the CURRENT topology only?  One long-lived graph
    object is queried on topology A, switched to topology B (what `refresh_from` does: it replaces the graph
    data, nothing else), queried again, switched back to A and queried a third time; every answer must equal
    the answer of a fresh graph object of the same topology.  (A memo that `refresh_from` itself invalidates is
    NOT recognised: `refresh_from` is not evaluated, the flag is then conservatively false.)"""
    scs = [Scenario(sb, spec) for spec in history_topologies()]
    conds = [lambda c: c.kind == "meter", lambda c: c.kind in ("pvInv", "chp"), lambda c: False]

    def observe(graph, sc: Scenario) -> dict:
        o: dict = {}
        for c in sc.nodes.values():
            o["p", c.component_id] = tuple(bool(getattr(graph, p)(c)) for p in PREDICATES)
        for i, cond in enumerate(conds):
            o["dfs", i] = sorted(c.component_id for c in graph.dfs(sc.comp(sc.grid), set(), cond))
        jobs = [(g, Config()) for g in GENERATORS if g not in ("BatteryPowerFormula", "EVChargerPowerFormula")]
        jobs += [("GridPowerFormula", Config(allow_fallback=False)),
                 ("EVChargerPowerFormula", Config(component_ids={c.component_id for c in sc.of_kind("ev")})),
                 ("BatteryPowerFormula", Config(component_ids={c.component_id for c in sc.of_kind("bat")}))]
        if sc.of_kind("pvInv"):
            jobs.append(("PVPowerFormula", Config(component_ids={c.component_id for c in sc.of_kind("pvInv")})))
        for n, (cls, cfg) in enumerate(jobs):
            r = sb.generate(cls, sc, cfg, graph=graph)
            if r[0] != "ok":
                o["f", n] = r[:2]
                continue
            terms = []
            for sign, cid, naz, fb in r[1]:
                fbt = None
                if fb is not None:
                    need(isinstance(fb, Fallback), "fallback is not a FallbackFormulaMetricFetcher")
                    sb.cm.graph = graph
                    fbt = sorted((i, f) for _, i, f, _ in fb.generator.generate().terms())
                terms.append((sign, cid, naz, fbt))
            o["f", n] = sorted(terms, key=repr)
        return o

    fresh = [observe(sc.graph, sc) for sc in scs]
    for a, sca in enumerate(scs):
        for b, scb in enumerate(scs):
            # all role changes of meter #3 at one position, and all position changes with the same successors
            if a == b or not (a % 3 == b % 3 or a // 3 == b // 3):
                continue
            live = sb.Graph(sca)
            try:
                if observe(live, sca) != fresh[a]:
                    return False
                live._sc = scb                      # pylint: disable=protected-access
                if observe(live, scb) != fresh[b]:
                    return False
                live._sc = sca                      # pylint: disable=protected-access
                if observe(live, sca) != fresh[a]:
                    return False
            except Shape:
                return False                        # a stale verdict made a generator fail
    return True


def subsets(xs: list) -> list[tuple]:
    return [c for r in range(len(xs) + 1) for c in itertools.combinations(xs, r)]


def fit_naz(obs: list[tuple[str, bool]], what: str) -> str:
    """obs = [(category name, flag)].  Constant rules are preferred when they explain everything."""
    need(len(obs) > 0, f"{what}: never observed")
    for b in (True, False):
        if all(f == b for _, f in obs):
            return f"(.const {'true' if b else 'false'})"
    for c in CATS:
        if all(f == (cat != c) for cat, f in obs):
            return f"(.notCat .{CATS[c]})"
    raise Shape(f"{what}: nones_are_zeros rule {sorted(set(obs))} is neither constant nor `category != X`")


def lean_list(xs: list[str], dot: bool = True) -> str:
    return "[" + ", ".join(("." + x) if dot else x for x in xs) + "]"


def lean_bool(b: bool) -> str:
    return "true" if b else "false"


def category_sets(tree: ast.AST, fn_name: str) -> list[str]:
    """Informational only: the category set literal inside a validator (not used by any theorem)."""
    for f in ast.walk(tree):
        if isinstance(f, ast.FunctionDef) and f.name == fn_name:
            for n in ast.walk(f):
                if isinstance(n, ast.Set) and n.elts and all(
                        isinstance(x, ast.Attribute) and isinstance(x.value, ast.Name) and x.value.id == "ComponentCategory"
                        and x.attr in CATS for x in n.elts):
                    # a set literal has no order: list it in declaration order of the enum
                    order = list(CATS.values())
                    return sorted({CATS[x.attr] for x in n.elts}, key=order.index)
    return []


def generate(repo: pathlib.Path) -> str:  # noqa: C901  pylint: disable=too-many-locals,too-many-branches,too-many-statements
    sb = Sandbox(repo)
    scs = sb.scenarios
    CC, IT = sb.CC, sb.IT
    out: list[str] = ["set_option linter.unusedVariables false", "", "namespace Extracted.Graph", ""]
    out += [
        "/-- `ComponentCategory` (frequenz.client.microgrid). -/",
        "inductive Cat where | none | grid | meter | inverter | battery | evCharger | chp",
        "deriving DecidableEq, Repr",
        "/-- `InverterType`. -/",
        "inductive InvType where | none | battery | solar | hybrid",
        "deriving DecidableEq, Repr",
        "inductive Leaf where | pvInverter | batteryInverter | evCharger | chp",
        "deriving DecidableEq, Repr",
        "inductive MeterPred where | pvMeter | batteryMeter | evChargerMeter | chpMeter",
        "deriving DecidableEq, Repr",
        "inductive Chain where | pv | battery | evCharger | chp",
        "deriving DecidableEq, Repr",
        "/-- `category == METER and not is_grid_meter(c) and len(successors) > 0 and all(is_<leaf>(s) …)` -/",
        "structure MeterSpec where",
        "  cat : Cat",
        "  notGridMeter : Bool",
        "  nonEmpty : Bool",
        "  leaf : Leaf",
        "deriving DecidableEq, Repr",
        "structure GridMeterSpec where",
        "  cat : Cat",
        "  nPred : Nat",
        "  predCat : Cat",
        "  nGridSucc : Nat",
        "deriving DecidableEq, Repr",
        "/-- how a generator computes `nones_are_zeros` for a pushed component -/",
        "inductive Naz where | const (b : Bool) | notCat (c : Cat)",
        "deriving DecidableEq, Repr",
        "",
    ]
    g0 = scs[0].graph

    # ---- leaf predicates: truth table over (category, inverter type)
    leaf_tab: dict[str, dict[tuple[str, str], bool]] = {}
    leaf_fit: dict[str, tuple[str, str | None]] = {}
    for py, ln in LEAVES.items():
        need(hasattr(g0, py), f"{py} missing")
        tab = {}
        for c in CATS:
            for t in INVTYPES:
                tab[(c, t)] = bool(getattr(g0, py)(Component(0, getattr(CC, c), getattr(IT, t))))
        cands = [(c, t) for c in CATS for t in [None] + list(INVTYPES)
                 if all(v == (cc == c and (t is None or tt == t)) for (cc, tt), v in tab.items())]
        cat, typ = unique(cands, py)
        leaf_tab[ln], leaf_fit[ln] = tab, (cat, typ)
        out.append(f"/-- `{py}` -/")
        out.append(f"def {ln}Test (c : Cat) (t : InvType) : Bool := c == .{CATS[cat]}" + (f" && t == .{INVTYPES[typ]}" if typ else ""))
    out.append("def Leaf.test : Leaf → Cat → InvType → Bool")
    for ln in LEAVES.values():
        out.append(f"  | .{ln} => {ln}Test")
    out.append("")

    def is_leaf(ln: str, c: Component) -> bool:
        return leaf_tab[ln][(c.category.name, c.type.name if c.type is not None else "NONE")]

    # ---- is_grid_meter
    obs_gm = []
    for sc in scs:
        for c in sc.nodes.values():
            p = sc.parent[c.component_id]
            obs_gm.append((c, 0 if p is None else 1, None if p is None else sc.comp(p), 0 if p is None else len(sc.children[p]),
                           bool(sc.graph.is_grid_meter(c))))
    # a meter with two predecessors is never a grid meter candidate in the model (trees), but pin the count anyway
    dag = Scenario(sb, [meter(meter()), meter()])
    inner = dag.children[dag.children[dag.grid][0]][0]
    dag2 = Scenario(sb, [meter(meter()), meter()], extra_edges=[(dag.children[dag.grid][1], inner)])
    two_pred = bool(dag2.graph.is_grid_meter(dag2.comp(inner)))
    cands = []
    for cat in CATS:
        for pcat in CATS:
            for ns_ in (1, 2, 3):
                if all(v == (c.category.name == cat and npred == 1 and par.category.name == pcat and nsucc == ns_)
                       if npred == 1 else (v is False) for c, npred, par, nsucc, v in obs_gm) and not two_pred:
                    cands.append((cat, 1, pcat, ns_))
    gm = unique(cands, "is_grid_meter")
    out.append("/-- `is_grid_meter` -/")
    out.append(f"def gridMeterSpec : GridMeterSpec := ⟨.{CATS[gm[0]]}, {gm[1]}, .{CATS[gm[2]]}, {gm[3]}⟩")
    out.append("")

    # ---- is_*_meter -> MeterSpec
    meter_spec = {}
    for py, ln in METERS.items():
        need(hasattr(g0, py), f"{py} missing")
        obs = [(sc, c, bool(getattr(sc.graph, py)(c))) for sc in scs for c in sc.nodes.values() if c.kind != "grid"]
        cands = []
        for cat in CATS:
            for ngm in (True, False):
                for ne in (True, False):
                    for lf in LEAVES.values():
                        def pred(sc, c, cat=cat, ngm=ngm, ne=ne, lf=lf) -> bool:
                            kids = sc.below(c.component_id)
                            return (c.category.name == cat and (not ngm or not sc.graph.is_grid_meter(c))
                                    and (not ne or len(kids) > 0) and all(is_leaf(lf, k) for k in kids))
                        if all(pred(sc, c) == v for sc, c, v in obs):
                            cands.append((cat, ngm, ne, lf))
        sp = unique(cands, py)
        meter_spec[ln] = sp
        out.append(f"/-- `{py}` -/")
        out.append(f"def {ln}Spec : MeterSpec := ⟨.{CATS[sp[0]]}, {lean_bool(sp[1])}, {lean_bool(sp[2])}, .{sp[3]}⟩")
    out.append("def MeterPred.spec : MeterPred → MeterSpec")
    for ln in METERS.values():
        out.append(f"  | .{ln} => {ln}Spec")
    out.append("")
    meter_py = {ln: py for py, ln in METERS.items()}

    # ---- is_*_chain -> (leaf, meter)
    chain_py = {ln: py for py, ln in CHAINS.items()}
    out.append("/-- `is_*_chain(c) = is_<leaf>(c) or is_<meter>(c)` -/")
    out.append("def Chain.parts : Chain → Leaf × MeterPred")
    for py, ln in CHAINS.items():
        need(hasattr(g0, py), f"{py} missing")
        obs = [(sc, c, bool(getattr(sc.graph, py)(c))) for sc in scs for c in sc.nodes.values() if c.kind != "grid"]
        cands = [(lf, m) for lf in LEAVES.values() for m in METERS.values()
                 if all(v == (is_leaf(lf, c) or bool(getattr(sc.graph, meter_py[m])(c))) for sc, c, v in obs)]
        lf, m = unique(cands, py)
        out.append(f"  | .{ln} => (.{lf}, .{m})")
    out.append("")

    def in_chain(sc: Scenario, ch: str, c: Component) -> bool:
        return bool(getattr(sc.graph, chain_py[ch])(c))

    # ---- dfs
    conds = [lambda c, S=S: c.kind in S for S in
             [(), ("meter",), ("pvInv",), ("batInv", "ev"), ("bat",), ("meter", "chp"), ("grid",), ("hybInv", "bat", "pvInv")]]
    for sc in scs:
        for cond in conds:
            for start in (sc.grid, sc.children[sc.grid][0]):
                got = sc.graph.dfs(sc.comp(start), set(), cond)
                need({c.component_id for c in got} == ref_dfs(sc, start, cond),
                     "dfs: no longer `stop at the first match, union over the successors`")
                # the caller-supplied visited set prunes the search (Model: dfsV) and receives the visited nodes
                kids = sc.children[start]
                for pre in ([start], kids[:1], kids[-1:] + [g for k in kids[:1] for g in sc.children[k][:1]]):
                    seen = {sc.comp(i) for i in pre}
                    got = sc.graph.dfs(sc.comp(start), seen, cond)
                    need({c.component_id for c in got} == ref_dfs(sc, start, cond, frozenset(pre)),
                         "dfs: components in the caller's `visited` set are no longer skipped")
                    need(start in {c.component_id for c in seen} and {c.component_id for c in got} <= {c.component_id for c in seen},
                         "dfs: the visited nodes are no longer added to the caller's `visited` set")
    out.append("/-- `dfs` behaves as modelled (stop at the first match, union over the successors) on every scenario. -/")
    out.append("def dfsShapeChecked : Bool := true")
    out.append("/-- Every `is_*` predicate, `dfs` and every generator answers from the topology the graph object holds NOW:")
    out.append("one object switched through pairs of topologies (a meter changing role / position) always answered like a")
    out.append("fresh object (no `lru_cache`, memo attribute or module-level cache survives a `refresh_from`). -/")
    out.append(f"def predicatesReadCurrentGraphOnly : Bool := {lean_bool(history_free(sb))}")
    out.append("")
    cg_tree = sb.trees[SOURCES[0]]
    out.append(f"def validRootCats : List Cat := {lean_list(category_sets(cg_tree, '_validate_graph_root'))}")
    out.append(f"def intermediaryCats : List Cat := {lean_list(category_sets(cg_tree, '_validate_intermediary_components'))}")
    out.append(f"def leafCats : List Cat := {lean_list(category_sets(cg_tree, '_validate_leaf_components'))}")
    out.append("")

    # ---- _formula_generator helpers
    need("NON_EXISTING_COMPONENT_ID" in sb.ns and sb.ns["NON_EXISTING_COMPONENT_ID"] == sys.maxsize,
         "NON_EXISTING_COMPONENT_ID is no longer sys.maxsize")
    non_existing = 2 ** 63 - 1
    out.append(f"def nonExistingComponentId : Nat := {non_existing}")

    # _get_meter_fallback_components
    obs = []
    for sc in scs:
        gen = sb.generator("GridPowerFormula", sc, Config())
        for c in sc.of_kind("meter"):
            obs.append((sc, c, {x.component_id for x in gen._get_meter_fallback_components(c)}))  # pylint: disable=protected-access
    cands = [S for S in subsets(list(LEAVES.values()))
             if all(got == ({k.component_id for k in sc.below(c.component_id)}
                            if any(all(is_leaf(lf, k) for k in sc.below(c.component_id)) for lf in S) else set())
                    for sc, c, got in obs)]
    mfl = unique(cands, "_get_meter_fallback_components")
    # _is_primary_fallback_pair
    obs = []
    for sc in scs[:80]:
        gen = sb.generator("GridPowerFormula", sc, Config())
        for p in sc.nodes.values():
            for c in sc.nodes.values():
                if p.kind != "grid" and c.kind not in ("grid", "bat"):
                    obs.append((sc, p, c, bool(gen._is_primary_fallback_pair(p, c))))  # pylint: disable=protected-access
    all_pairs = [(lf, m) for lf in LEAVES.values() for m in METERS.values()]
    table = [(lf, m) for lf, m in all_pairs
             if any(v and is_leaf(lf, c) and getattr(sc.graph, meter_py[m])(p) for sc, p, c, v in obs)]
    need(all(v == any(is_leaf(lf, c) and bool(getattr(sc.graph, meter_py[m])(p)) for lf, m in table) for sc, p, c, v in obs),
         "_is_primary_fallback_pair: not a disjunction of (is_<leaf>(fallback) and is_<meter>(primary))")
    # _get_metric_fallback_components
    obs = []
    for sc in scs:
        gen = sb.generator("GridPowerFormula", sc, Config())
        pool = [c for c in sc.nodes.values() if c.kind not in ("grid", "bat")]
        groups = [set(pool)] + [{c} for c in pool] + [set(sc.below(m.component_id)) for m in sc.of_kind("meter")]
        groups += [set(sc.below(m.component_id)[:1]) for m in sc.of_kind("meter")]
        for comps in groups:
            if comps:
                res = gen._get_metric_fallback_components(set(comps))  # pylint: disable=protected-access
                obs.append((sc, gen, comps, {k.component_id: {x.component_id for x in v} for k, v in res.items()}))

    def ref_metric_fallback(sc, gen, comps, pcat, req):
        sb.cm.graph = sc.graph
        res: dict[int, set[int]] = {}
        for c in comps:
            if c.category.name == pcat:
                res[c.component_id] = {x.component_id for x in gen._get_meter_fallback_components(c)}  # pylint: disable=protected-access
                continue
            par = sc.parent[c.component_id]
            p = None if par is None else sc.comp(par)
            if p is not None and gen._is_primary_fallback_pair(p, c) and (  # pylint: disable=protected-access
                    not req or set(sc.below(p.component_id)) <= set(comps)):
                res.setdefault(p.component_id, set()).add(c.component_id)
            else:
                res[c.component_id] = set()
        return res

    cands = []
    for pcat in CATS:
        for req in (False, True):
            ok = True
            for sc, gen, comps, got in obs:
                # (a group containing both a meter and its own successors depends on set iteration order: skip)
                if any(sc.parent[c.component_id] is not None and sc.comp(sc.parent[c.component_id]) in comps for c in comps):
                    continue
                try:
                    same = ref_metric_fallback(sc, gen, comps, pcat, req) == got
                except AssertionError:      # `_get_meter_fallback_components` refuses non-meters
                    same = False
                if not same:
                    ok = False
                    break
            if ok:
                cands.append((pcat, req))
    pcat, req = unique(cands, "_get_metric_fallback_components")
    need(len(cands) == 1, f"_get_metric_fallback_components: ambiguous {cands}")
    out.append(f"def fallbackPrimaryCat : Cat := .{CATS[pcat]}")
    out.append("/-- `_get_metric_fallback_components` pairs a component with its predecessor only if all successors of")
    out.append("the predecessor are among the requested components -/")
    out.append(f"def pairRequiresAllRequested : Bool := {lean_bool(req)}")
    out.append(f"def meterFallbackLeaves : List Leaf := {lean_list(list(mfl))}")
    out.append("def primaryFallbackPairs : List (Leaf × MeterPred) := "
               + lean_list([f"(.{lf}, .{m})" for lf, m in table], dot=False))
    out.append("")

    # ---- generators
    def cat_of(sc: Scenario, cid: int) -> str:
        return "NONE" if cid == non_existing else sc.comp(cid).category.name

    def run_all(cls: str, mk_config) -> list:
        res = []
        for sc in scs:
            cfg = mk_config(sc)
            if cfg is not None:
                res.append((sc, cfg, sb.generate(cls, sc, cfg)))
        return res

    def naz_obs(runs, want_fallback_cfg: bool | None = None, pick=lambda t: True) -> list[tuple[str, bool]]:
        o = []
        for sc, cfg, r in runs:
            if r[0] == "ok" and (want_fallback_cfg is None or cfg.allow_fallback == want_fallback_cfg):
                o += [(cat_of(sc, t[1]), t[2]) for t in r[1] if t[1] != non_existing and pick(t)]
        return o

    def none_obs(runs) -> list[tuple[str, bool]]:
        return [("NONE", t[2]) for sc, cfg, r in runs if r[0] == "ok" for t in r[1] if t[1] == non_existing]

    def fallback_terms(runs) -> list[tuple[str, bool]]:
        """nones_are_zeros flags inside the fallback formulas (generated lazily by the real fetcher)."""
        o = []
        for sc, cfg, r in runs:
            if r[0] != "ok":
                continue
            for t in r[1]:
                if t[3] is not None:
                    need(isinstance(t[3], Fallback), "fallback is not a FallbackFormulaMetricFetcher")
                    sb.cm.graph = sc.graph
                    fb = t[3].generator.generate()
                    need(isinstance(fb, Builder), "fallback generator did not build an engine")
                    ft = fb.terms()
                    need(all(s == 1 for s, *_ in ft), "fallback formula is not a plain sum")
                    o += [(cat_of(sc, i), f) for _, i, f, _ in ft]
        return o

    # grid
    runs = run_all("GridPowerFormula", lambda sc: Config())
    runs_nf = run_all("GridPowerFormula", lambda sc: Config(allow_fallback=False))
    seen_cats: dict[str, bool] = {}
    for sc, cfg, r in runs + runs_nf:
        top = sc.below(sc.grid)
        if r[0] == "ok":
            ids = {t[1] for t in r[1]}
            need(all(t[0] == 1 for t in r[1]), "grid formula is not a plain sum")
            need(ids <= {c.component_id for c in top}, "grid formula uses components that are not grid successors")
            for c in top:
                inc = c.component_id in ids
                need(seen_cats.setdefault(c.category.name, inc) == inc, "grid formula: inclusion does not depend on the category alone")
        else:
            for c in top:
                need(seen_cats.setdefault(c.category.name, False) is False, "grid formula: error although a summed category is present")
    gcats = [CATS[c] for c in CATS if seen_cats.get(c)]
    out.append(f"def gridSuccessorCats : List Cat := {lean_list(gcats)}")
    out.append(f"def gridNaz : Naz := {fit_naz(naz_obs(runs), 'grid')}")
    out.append(f"def gridNazNoFallback : Naz := {fit_naz(naz_obs(runs_nf), 'grid (no fallback)')}")
    simple_obs = fallback_terms(runs)
    out.append("")

    # consumer
    obs = []
    for sc in scs:
        gen = sb.generator("ConsumerPowerFormula", sc, Config())
        need(hasattr(gen, "_are_grid_meters"), "ConsumerPowerFormula._are_grid_meters missing")
        obs.append((sc, bool(gen._are_grid_meters(set(sc.below(sc.grid))))))  # pylint: disable=protected-access
    chains = list(CHAINS.values())
    cands = [(cat, S) for cat in CATS for S in subsets(chains)
             if all(v == all(c.category.name == cat and not any(in_chain(sc, ch, c) for ch in S) for c in sc.below(sc.grid))
                    for sc, v in obs)]
    agm_cat, agm_chains = unique(cands, "_are_grid_meters")
    are_gm = dict((id(sc), v) for sc, v in obs)
    out.append(f"def areGridMetersCat : Cat := .{CATS[agm_cat]}")
    out.append(f"def areGridMetersNotChains : List Chain := {lean_list(list(agm_chains))}")
    runs = run_all("ConsumerPowerFormula", lambda sc: Config())
    with_runs = [(sc, cfg, r) for sc, cfg, r in runs if are_gm[id(sc)]]
    without_runs = [(sc, cfg, r) for sc, cfg, r in runs if not are_gm[id(sc)]]
    need(with_runs and without_runs, "consumer: scenarios do not reach both code paths")

    def primaries_of(sc: Scenario, found: set[int]) -> set[int]:
        gen = sb.generator("GridPowerFormula", sc, Config())
        return {k.component_id for k in gen._get_metric_fallback_components({sc.comp(i) for i in found})}  # pylint: disable=protected-access

    cands = []
    for S in subsets(chains):
        ok = True
        for sc, cfg, r in with_runs:
            need(r[0] == "ok", "consumer formula with grid meters raised")
            top = {c.component_id for c in sc.below(sc.grid)}
            pos = sorted(t[1] for t in r[1] if t[0] == 1)
            neg = {t[1] for t in r[1] if t[0] == -1}
            need(pos == sorted(top), "consumer with grid meters: the positive terms are not exactly the grid meters")
            found: set[int] = set()
            for m in top:
                found |= ref_dfs(sc, m, lambda c, S=S: any(in_chain(sc, ch, c) for ch in S))
            if primaries_of(sc, found) != neg or len(neg) != len([t for t in r[1] if t[0] == -1]):
                ok = False
                break
        if ok:
            cands.append(S)
    out.append(f"def nonConsumerChains : List Chain := {lean_list(list(unique(cands, 'non_consumer_component')))}")
    ccats = [c for c in CATS if c not in ("NONE", "GRID")]
    cands = []
    for K in subsets(ccats):
        for S in subsets(chains):
            ok = True
            for sc, cfg, r in without_runs:
                need(r[0] == "ok", "consumer formula without grid meter raised")
                found = ref_dfs(sc, sc.grid, lambda c, K=K, S=S: c.category.name in K and not any(in_chain(sc, ch, c) for ch in S))
                want = primaries_of(sc, found) if found else {non_existing}
                if sorted(t[1] for t in r[1]) != sorted(want) or any(t[0] != 1 for t in r[1]):
                    ok = False
                    break
            if ok:
                cands.append((K, S))
    need(len(cands) >= 1, "consumer_component: behaviour not expressible as `category in K and not in chains S`")
    # behaviourally equal candidates differ only in categories that can never be found: take the smallest K, largest S
    cands.sort(key=lambda ks: (len(ks[0]), -len(ks[1])))
    cK, cS = cands[0]
    out.append(f"def consumerCats : List Cat := {lean_list([CATS[c] for c in cK])}")
    out.append(f"def consumerNotChains : List Chain := {lean_list(list(cS))}")
    out.append(f"def consumerGridMeterNaz : Naz := {fit_naz(naz_obs(with_runs, pick=lambda t: t[0] == 1), 'consumer grid meters')}")
    out.append(f"def consumerWithNaz : Naz := {fit_naz(naz_obs(with_runs, pick=lambda t: t[0] == -1), 'consumer (with grid meter)')}")
    out.append(f"def consumerNoneNaz : Naz := {fit_naz(none_obs(without_runs), 'consumer NON_EXISTING')}")
    out.append(f"def consumerWithoutNaz : Naz := {fit_naz(naz_obs(without_runs), 'consumer (without grid meter)')}")
    simple_obs += fallback_terms(runs)
    out.append("")

    # searches from the grid: producer, pv
    def fit_search(cls: str, runs, what: str) -> tuple:
        cands = []
        for S in subsets(chains):
            ok = True
            for sc, cfg, r in runs:
                need(r[0] == "ok", f"{what} raised")
                found = ref_dfs(sc, sc.grid, lambda c, S=S: any(in_chain(sc, ch, c) for ch in S))
                want = primaries_of(sc, found) if found else {non_existing}
                if sorted(t[1] for t in r[1]) != sorted(want) or any(t[0] != 1 for t in r[1]):
                    ok = False
                    break
            if ok:
                cands.append(S)
        return unique(cands, what)

    runs = run_all("ProducerPowerFormula", lambda sc: Config())
    out.append(f"def producerChains : List Chain := {lean_list(list(fit_search('ProducerPowerFormula', runs, 'producer search')))}")
    out.append(f"def producerNoneNaz : Naz := {fit_naz(none_obs(runs), 'producer NON_EXISTING')}")
    out.append(f"def producerNaz : Naz := {fit_naz(naz_obs(runs), 'producer')}")
    simple_obs += fallback_terms(runs)
    out.append("")

    runs = run_all("PVPowerFormula", lambda sc: Config())
    out.append(f"def pvDfsChains : List Chain := {lean_list(list(fit_search('PVPowerFormula', runs, 'pv search')))}")
    pool_runs = run_all("PVPowerFormula", lambda sc: Config(component_ids={c.component_id for c in sc.of_kind('pvInv')}) if sc.of_kind('pvInv') else None)
    sub_runs = run_all("PVPowerFormula", lambda sc: Config(component_ids={sc.of_kind('pvInv')[0].component_id}) if sc.of_kind('pvInv') else None)
    for sc, cfg, r in pool_runs + sub_runs:
        need(r[0] == "ok", "pv pool formula raised")
        want = primaries_of(sc, set(cfg.component_ids))
        need(sorted(t[1] for t in r[1]) == sorted(want) and all(t[0] == 1 for t in r[1]),
             "pv pool formula: not the primaries of the requested inverters")
    out.append(f"def pvNoneNaz : Naz := {fit_naz(none_obs(runs), 'pv NON_EXISTING')}")
    out.append(f"def pvNaz : Naz := {fit_naz(naz_obs(runs + pool_runs + sub_runs), 'pv')}")
    nf_runs = run_all("PVPowerFormula", lambda sc: Config(
        component_ids={c.component_id for c in sc.nodes.values() if c.kind in ("pvInv", "meter")}, allow_fallback=False))
    out.append(f"def pvNazNoFallback : Naz := {fit_naz(fallback_terms(runs + pool_runs) + naz_obs(nf_runs), 'pv formula without fallback')}")
    out.append("")

    # battery
    def bat_cfg(sc, sub=False):
        bats = sc.of_kind("bat")
        if not bats:
            return None
        return Config(component_ids={b.component_id for b in (bats[:1] if sub else bats)})

    runs = run_all("BatteryPowerFormula", bat_cfg)
    sub = run_all("BatteryPowerFormula", lambda sc: bat_cfg(sc, True))
    empty = run_all("BatteryPowerFormula", lambda sc: Config(component_ids=set()))[:5]
    for sc, cfg, r in runs + sub:
        need(r[0] == "ok", "battery formula raised on whole inverters")
        invs = {sc.parent[b] for b in cfg.component_ids}
        need(sorted(t[1] for t in r[1]) == sorted(primaries_of(sc, invs)) and all(t[0] == 1 for t in r[1]),
             "battery formula: not the primaries of the inverters of the requested batteries")
    # which predecessors of a battery count as its inverters?
    accepted = {}
    for k in ("batInv", "pvInv", "ev", "chp"):
        sc = Scenario(sb, [meter((k, [("bat", [])]))])
        r = sb.generate("BatteryPowerFormula", sc, Config(component_ids={sc.of_kind("bat")[0].component_id}))
        accepted[k] = r[0] == "ok"
    cands = [lf for lf in LEAVES.values()
             if all(accepted[k] == is_leaf(lf, Component(0, getattr(CC, KINDS[k][0]), getattr(IT, KINDS[k][1]) if KINDS[k][1] else None))
                    for k in accepted)]
    # chained DC wiring (bat x on inverters A, B; bat y on inverters B, C): every inverter of every requested battery
    for wrap in (lambda m: [m], lambda m: [meter(m)], lambda m: [m, meter()]):
        sc = Scenario(sb, wrap(meter(("batInv", [("bat", [], 21)], 11), ("batInv", [("bat", [], 22)], 12), ("batInv", [], 13))),
                      extra_edges=[(12, 21), (13, 22)])
        for ids in ({21, 22}, {22, 21, 22}):
            r = sb.generate("BatteryPowerFormula", sc, Config(component_ids=ids))
            need(r[0] == "ok" and sorted(t[1] for t in r[1]) == sorted(primaries_of(sc, {11, 12, 13}))
                 and all(t[0] == 1 for t in r[1]),
                 "battery formula: with batteries shared between inverters, not the primaries of ALL their inverters")
        r = sb.generate("BatteryPowerFormula", sc, Config(component_ids={21}))
        need(r[0] == "err" and r[1] == "FormulaGenerationError",
             "battery formula: a shared battery whose other inverter has an unrequested battery is no longer an error")
    out.append(f"def batteryNoneNaz : Naz := {fit_naz(none_obs(empty), 'battery NON_EXISTING')}")
    out.append(f"def batteryNaz : Naz := {fit_naz(naz_obs(runs + sub), 'battery')}")
    out.append(f"def batteryNazNoFallback : Naz := {fit_naz(fallback_terms(runs + sub), 'battery fallback formula')}")
    out.append(f"def batteryInverterLeaf : Leaf := .{unique(cands, 'battery formula: inverter predicate')}")
    # "not all batteries behind an inverter requested" is an error
    sc = Scenario(sb, [meter(("batInv", [("bat", []), ("bat", [])]))])
    r = sb.generate("BatteryPowerFormula", sc, Config(component_ids={sc.of_kind("bat")[0].component_id}))
    need(r[0] == "err" and r[1] == "FormulaGenerationError", "battery formula: partial inverter selection is no longer an error")
    out.append("")

    # ev
    runs = run_all("EVChargerPowerFormula", lambda sc: Config(component_ids={c.component_id for c in sc.of_kind("ev")}))
    for sc, cfg, r in runs:
        need(r[0] == "ok" and sorted(t[1] for t in r[1]) == (sorted(cfg.component_ids) or [non_existing])
             and all(t[0] == 1 and t[3] is None for t in r[1]), "ev formula: not the plain sum of the requested ids")
    out.append(f"def evNoneNaz : Naz := {fit_naz(none_obs(runs), 'ev NON_EXISTING')}")
    out.append(f"def evNaz : Naz := {fit_naz(naz_obs(runs), 'ev')}")
    out.append("")

    # chp
    runs = run_all("CHPPowerFormula", lambda sc: Config())
    out.append(f"def chpNoneNaz : Naz := {fit_naz(none_obs(runs), 'chp NON_EXISTING')}")
    out.append(f"def chpNaz : Naz := {fit_naz(naz_obs(runs), 'chp')}")
    cands = []
    for ccat in CATS:
        for pcat_ in CATS:
            ok = True
            for sc, cfg, r in runs:
                chps = [c for c in sc.nodes.values() if c.category.name == ccat]
                err = any(sc.parent[c.component_id] is None or sc.comp(sc.parent[c.component_id]).category.name != pcat_
                          or any(k not in chps for k in sc.below(sc.parent[c.component_id])) for c in chps)
                want = sorted({sc.parent[c.component_id] for c in chps}) or [non_existing]
                if (r[0] == "err") != err or (not err and (sorted(t[1] for t in r[1]) != want or any(t[0] != 1 or t[3] is not None for t in r[1]))):
                    ok = False
                    break
            if ok:
                cands.append((ccat, pcat_))
    ccat, pcat_ = unique(cands, "chp formula")
    need(len(cands) == 1, f"chp formula: ambiguous {cands}")
    out.append(f"def chpCat : Cat := .{CATS[ccat]}")
    out.append(f"def chpPredecessorCat : Cat := .{CATS[pcat_]}")
    out.append("")
    runs = run_all("SimplePowerFormula", lambda sc: Config(
        component_ids={c.component_id for c in sc.nodes.values() if c.kind not in ("grid", "bat")}, allow_fallback=False))
    for sc, cfg, r in runs:
        need(r[0] == "ok" and sorted(t[1] for t in r[1]) == sorted(cfg.component_ids) and all(t[0] == 1 for t in r[1]),
             "SimplePowerFormula: not the plain sum of the requested components")
    out.append(f"def simpleNaz : Naz := {fit_naz(simple_obs + naz_obs(runs), 'SimplePowerFormula (fallback formulas)')}")
    out.append("")

    # metric ids
    mids = []
    sc = scs[-1]
    for nm, cls, cfg in [("grid", "GridPowerFormula", Config()), ("consumer", "ConsumerPowerFormula", Config()),
                         ("producer", "ProducerPowerFormula", Config()),
                         ("battery", "BatteryPowerFormula", Config(component_ids={b.component_id for b in sc.of_kind("bat")})),
                         ("pv", "PVPowerFormula", Config()),
                         ("ev", "EVChargerPowerFormula", Config(component_ids={c.component_id for c in sc.of_kind("ev")})),
                         ("chp", "CHPPowerFormula", Config()),
                         ("simple", "SimplePowerFormula", Config(component_ids={c.component_id for c in sc.of_kind("ev")}, allow_fallback=False))]:
        r = sb.generate(cls, sc, cfg)
        need(r[0] == "ok" and isinstance(r[2].metric_id, Member), f"{cls}: no metric id")
        mids.append((nm, r[2].metric_id.name))
    out.append("/-- metric id every generated power formula subscribes to -/")
    out.append("def metricIds : List (String × String) := [" + ", ".join(f'("{a}", "{b}")' for a, b in mids) + "]")
    out.append("")
    out.append("end Extracted.Graph")
    return "\n".join(out) + "\n"


if __name__ == "__main__":
    print(generate(pathlib.Path(sys.argv[1] if len(sys.argv) > 1 else "/repo")))
