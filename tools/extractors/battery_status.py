"""`_power_distributing/_component_status/*` + `_component_pool_status_tracker.py` -> Lean (C16).

What is generated (module `Frequenz.Extracted.BatteryStatus`, namespace `Extracted.BatteryStatus`):

* tables / constants read from the source: the valid battery states, relay states and inverter states of
  `BatteryStatusTracker`, the critical `ErrorLevel`, the members of `ComponentStatusEnum`, the minimum blocking
  duration passed to `BlockingStatus`, the default `max_data_age` / `max_blocking_duration` of `BatteryManager`,
  the timer interval / missed-tick policy of the data timers;
* the *entry points* ("contract") of the tracker's logic, each as a **canonical decision tree**:
  `BlockingStatus.{__post_init__, block, unblock, is_blocked}`, the five `_handle_status_*` and
  `_get_new_status_if_changed` of `BatteryStatusTracker`, the body of the `select` loop of `BatteryStatusTracker._run`
  (one iteration = `Tracker.runIteration`), `ComponentPoolStatus.get_working_components` and the body of the loop of
  `ComponentPoolStatusTracker._update_status` (`Pool.updateStatus`).

How: every entry point is **executed symbolically, path by path** (`Exec`), on a symbolic object state (one term per
leaf field of the object, initially `s.<field>`).  Private helpers — methods of the same classes, static methods,
module-level functions, properties — are inlined at their call sites (parameters bound positionally or by keyword,
early returns, side effects in program order, object references kept as references); calls of *other entry points*
stay calls (`Blocking.block s.blocking now`).  Every boolean the code looks at is an *atom* over the initial state and
the parameters (a flag, `x == Enum.member`, `x is None`, an integer comparison, `x in table`, "some element of the
list satisfies p"); each run of the interpreter follows one valuation of the atoms it meets.  The set of paths
(valuation -> final state, returned value, value sent) is then rebuilt as the reduced decision tree over the atoms in
one fixed global order, with integer (time) expressions in linear normal form and comparisons oriented canonically
(`a - b > c`, `a > b + c`, `c + b < a`, `not a <= c + b` are one atom), emptiness tests of a set in one spelling, enum
equalities treated as the exclusive alternatives they are (split in the order of the enum), and a field that ends
with the value it is known to have had rendered as unchanged.  The Lean text therefore depends on what the code computes, not on how it is written:
renamed locals/parameters/helpers, reordered independent statements, guard clauses vs nested ifs, `match` vs `elif`,
ternaries, De Morgan, `next(...)`/`any(...)` vs search loops, extracted or inlined helpers, swapped comparison
operands, keyword vs positional arguments all give the same text.

Supported Python: straight-line code, `if/elif/else`, `match` on values, conditional expressions, `and/or/not`,
`return`, `continue`, `break`, assignments (plain, annotated, augmented, walrus) to locals and to (nested) attributes
of the object, search loops over a symbolic list, `next/any/all` over a generator, and a handful of recognised
library idioms (`datetime.now(tz=…)` = the parameter `now`, `timedelta(seconds=c)`, `min`, `max`, `len`, `math.isnan`,
`x in valid_set`, `set.intersection/add/discard`, `Timer.reset()`, `sender.send(...)`, `selected_from`).  Logging
statements (and `if`s that contain nothing else, provided their tests have no side effect) and `assert`s are dropped.
Anything else raises `Unsupported`; the check then treats the proofs as broken and searches for a failing input.
A comparison of an `Optional` time is accepted only on paths that have established `is not None` before.

Time is `Int` microseconds; `None`-able values are `Option`; sets of ids are duplicate-free `List Nat`.
"""
from __future__ import annotations

import ast
import json
import pathlib

NAME = "BatteryStatus"
_BASE = "src/frequenz/sdk/microgrid/_power_distributing/"
SOURCES = [
    _BASE + "_component_status/_battery_status_tracker.py",
    _BASE + "_component_status/_blocking_status.py",
    _BASE + "_component_status/_component_status.py",
    _BASE + "_component_pool_status_tracker.py",
    _BASE + "_component_managers/_battery_manager.py",
]


class Unsupported(Exception):
    pass


def camel(name: str) -> str:
    parts = [p for p in name.strip("_").split("_") if p]
    return parts[0].lower() + "".join(p.capitalize() for p in parts[1:])


def enum_ctor(name: str) -> str:
    return camel(name.lower())


# --------------------------------------------------------------------------- schema
# python attribute -> (lean field, type).  Types: Int Bool OptInt Status OptStatus Str ListStr SetNat Nat
# or the name of a structure.  "Timer" is the ghost field holding the loop time of the last `reset()`.
STRUCTS: dict[str, dict[str, tuple[str, str]]] = {
    "Blocking": {
        "min_duration": ("minDuration", "Int"),
        "max_duration": ("maxDuration", "Int"),
        "last_blocking_duration": ("lastBlockingDuration", "Int"),
        "blocked_until": ("blockedUntil", "OptInt"),
    },
    "Stream": {
        "last_msg_timestamp": ("lastMsgTimestamp", "Int"),
        "last_msg_correct": ("lastMsgCorrect", "Bool"),
        "data_recv_timer": ("timerResetAt", "Timer"),
    },
    "Tracker": {
        "_max_data_age": ("maxDataAge", "Int"),
        "_last_status": ("lastStatus", "Status"),
        "_blocking_status": ("blocking", "Blocking"),
        "_battery": ("battery", "Stream"),
        "_inverter": ("inverter", "Stream"),
    },
    "Msg": {
        "timestamp": ("timestamp", "Int"),
        "component_state": ("componentState", "Str"),
        "relay_state": ("relayState", "Str"),
        "errors": ("errorLevels", "ListStr"),
    },
    "SpResult": {"succeeded": ("succeeded", "Bool"), "failed": ("failed", "Bool")},
    "Selected": {},
    "PoolStatus": {"working": ("working", "SetNat"), "uncertain": ("uncertain", "SetNat")},
    "Pool": {"_current_status": ("currentStatus", "PoolStatus")},
    "CompStatus": {"component_id": ("componentId", "Nat"), "value": ("value", "Status")},
}
OBJECT_STRUCTS = ("Blocking", "Stream", "Tracker", "PoolStatus", "Pool")  # mutable objects (held by reference)
REF_TYPES = OBJECT_STRUCTS + ("SetNat", "Timer")
LEAN_TYPE = {"Int": "Int", "Bool": "Bool", "OptInt": "Option Int", "Status": "Status", "OptStatus": "Option Status",
             "Str": "String", "OptStr": "Option String", "ListStr": "List String", "SetNat": "List Nat", "Nat": "Nat",
             "Unit": "Unit", "OptPoolStatus": "Option PoolStatus", "Timer": "Int"}
PARAM_TYPES = {"BatteryData": "Msg", "InverterData": "Msg", "BatteryData | InverterData": "Msg", "ComponentData": "Msg",
               "InverterData | BatteryData": "Msg", "datetime": "Int", "SetPowerResult": "SpResult",
               "abc.Set[int]": "SetNat", "set[int]": "SetNat", "timedelta": "Int"}
ENUMS = {"Status": ["Status.notWorking", "Status.uncertain", "Status.working"],
         "Src": ["Src.battery", "Src.batteryTimer", "Src.inverter", "Src.inverterTimer", "Src.setPowerResult"]}
PARAM_NAME = {"Msg": "msg", "SpResult": "result", "SetNat": "components", "Selected": "selected", "CompStatus": "status",
              "Int": "t"}

# The entry points: (struct, python name) -> lean name, parameter types, result type, may it change the object.
CONTRACT: dict[tuple[str, str], dict] = {
    ("Blocking", "__post_init__"): dict(lean="Blocking.postInit", params=[], ret="Unit", mut=True),
    ("Blocking", "block"): dict(lean="Blocking.block", params=[], ret="Int", mut=True),
    ("Blocking", "unblock"): dict(lean="Blocking.unblock", params=[], ret="Unit", mut=True),
    ("Blocking", "is_blocked"): dict(lean="Blocking.isBlocked", params=[], ret="Bool", mut=False),
    ("Tracker", "_handle_status_battery"): dict(lean="Tracker.handleStatusBattery", params=["Msg"], ret="Unit", mut=True),
    ("Tracker", "_handle_status_inverter"): dict(lean="Tracker.handleStatusInverter", params=["Msg"], ret="Unit", mut=True),
    ("Tracker", "_handle_status_set_power_result"): dict(lean="Tracker.handleStatusSetPowerResult", params=["SpResult"],
                                                         ret="Unit", mut=True),
    ("Tracker", "_handle_status_battery_timer"): dict(lean="Tracker.handleStatusBatteryTimer", params=[], ret="Unit", mut=True),
    ("Tracker", "_handle_status_inverter_timer"): dict(lean="Tracker.handleStatusInverterTimer", params=[], ret="Unit",
                                                       mut=True),
    ("Tracker", "_get_new_status_if_changed"): dict(lean="Tracker.getNewStatusIfChanged", params=[], ret="OptStatus", mut=True),
    ("PoolStatus", "get_working_components"): dict(lean="PoolStatus.getWorkingComponents", params=["SetNat"], ret="SetNat",
                                                   mut=False),
}


def lean_ty(t: str) -> str:
    return LEAN_TYPE.get(t, t)


def leaf_paths(struct: str, prefix: tuple = ()) -> list[tuple[tuple, str]]:
    """(python attribute path, type) of every leaf field below an object of type `struct`."""
    out = []
    for attr, (_, ty) in STRUCTS[struct].items():
        if ty in OBJECT_STRUCTS:
            out += leaf_paths(ty, prefix + (attr,))
        else:
            out.append((prefix + (attr,), ty))
    return out


def path_type(struct: str, path: tuple) -> str:
    ty = struct
    for a in path:
        if ty not in STRUCTS or a not in STRUCTS[ty]:
            raise Unsupported(f"unknown attribute {a} of {ty}")
        ty = STRUCTS[ty][a][1]
    return ty


def timedelta_us(node: ast.expr) -> int:
    """`timedelta(seconds=c)` / `timedelta(milliseconds=c)` ... -> integer microseconds."""
    if not (isinstance(node, ast.Call) and ast.unparse(node.func) in ("timedelta", "datetime.timedelta")):
        raise Unsupported(f"expected timedelta(...), got {ast.unparse(node)}")
    names = ["days", "seconds", "microseconds", "milliseconds", "minutes", "hours", "weeks"]
    scale = {"weeks": 7 * 86400_000_000, "days": 86400_000_000, "hours": 3600_000_000, "minutes": 60_000_000,
             "seconds": 1_000_000, "milliseconds": 1000, "microseconds": 1}
    total = 0.0
    items = list(zip(names, node.args)) + [(kw.arg, kw.value) for kw in node.keywords]
    for name, v in items:
        if isinstance(v, ast.UnaryOp) and isinstance(v.op, ast.USub) and isinstance(v.operand, ast.Constant):
            v = ast.Constant(value=-v.operand.value)
        if name not in scale or not isinstance(v, ast.Constant) or isinstance(v.value, bool) \
                or not isinstance(v.value, (int, float)):
            raise Unsupported(f"timedelta argument {name}={ast.unparse(v)}")
        total += float(v.value) * scale[name]
    if total != int(total):
        raise Unsupported("timedelta is not a whole number of microseconds")
    return int(total)


def is_log_call(v: ast.expr) -> bool:
    if isinstance(v, ast.Call):
        f = ast.unparse(v.func)
        return f.startswith("_logger.") or f.startswith("logging.")
    return False


# --------------------------------------------------------------------------- terms
class T:
    """A canonical Lean term.  `key` = its rendering; two terms are the same iff their keys are equal."""
    __slots__ = ("op", "ty", "args", "key")

    def __init__(self, op: str, ty: str, *args):
        self.op, self.ty, self.args = op, ty, args
        self.key = render(self, {})

    def __repr__(self) -> str:
        return f"<{self.key} : {self.ty}>"


def atomic(t: T, bound: dict) -> str:
    r = render(t, bound)
    if r.startswith("(") or r.startswith("{") or r.startswith('"') or all(c.isalnum() or c in "._" for c in r):
        return r
    return f"({r})"


def render(t: T, bound: dict) -> str:
    if bound and t.op == "call" and t.key in bound:
        return bound[t.key]
    op, a = t.op, t.args
    if op in ("var", "const"):
        return a[0]
    if op == "field":
        return f"{atomic(a[0], bound)}.{a[1]}"
    if op == "proj":
        return f"{atomic(a[0], bound)}.{a[1]}"
    if op == "some":
        return f"(some {atomic(a[0], bound)})"
    if op == "bin":
        return f"({render(a[1], bound)} {a[0]} {render(a[2], bound)})"
    if op == "lin":  # ((coeff, atom), …), constant — already in canonical order
        out = None
        for c, x in a[0]:
            mag = atomic(x, bound) if abs(c) == 1 else f"(({abs(c)} : Int) * {atomic(x, bound)})"
            if out is None:
                out = mag if c > 0 else f"(-{mag})"
            else:
                out = f"({out} {'+' if c > 0 else '-'} {mag})"
        if a[1] != 0 or out is None:
            k = f"({abs(a[1])} : Int)" if out is not None else f"({a[1]} : Int)"
            out = k if out is None else f"({out} {'+' if a[1] > 0 else '-'} {k})"
        return out
    if op == "fn":  # pure library function: pyMinInt, pyMaxInt, setInter, setAdd, setDiscard
        return "(" + " ".join([a[0]] + [atomic(x, bound) for x in a[1:]]) + ")"
    if op == "len":
        return f"({atomic(a[0], bound)}.length : Int)"
    if op == "call":  # entry point: name, receiver, args…
        return "(" + " ".join([a[0], atomic(a[1], bound), "now"] + [atomic(x, bound) for x in a[2:]]) + ")"
    if op == "rec":  # struct, base | None, ((field, term), …)
        fields = ", ".join(f"{f} := {render(v, bound)}" for f, v in a[2])
        if a[1] is None:
            return "{ " + fields + " }"
        return "{ " + render(a[1], bound) + " with " + fields + " }"
    if op == "find":  # list, predicate over the bound element `e`
        return f"({atomic(a[0], bound)}.find? (fun e => {render(a[1], bound)}))"
    if op == "get":
        return f"({atomic(a[0], bound)}.get!)"
    # ---- booleans
    if op == "cmp":  # lt | le | eq on Int;  eq on enums / strings
        x, y = render(a[1], bound), render(a[2], bound)
        if a[0] == "eq":
            return f"({x} == {y})" if a[1].ty != "Int" else f"decide ({x} = {y})"
        return f"decide ({x} {'<' if a[0] == 'lt' else '≤'} {y})"
    if op == "optcmp":  # gt | ge : Option Int vs Int
        return f"(optCmp (fun a b => decide (a {'>' if a[0] == 'gt' else '≥'} b)) {atomic(a[1], bound)} {atomic(a[2], bound)})"
    if op == "isSome":
        return f"{atomic(a[0], bound)}.isSome"
    if op == "nonempty":
        return f"decide (({atomic(a[0], bound)}.length : Int) > (0 : Int))"
    if op == "contains":
        return f"({a[0]}.contains {atomic(a[1], bound)})"
    if op == "not":
        return f"(!{atomic(a[0], bound)})"
    if op in ("and", "or"):
        return "(" + (" && " if op == "and" else " || ").join(render(x, bound) for x in a) + ")"
    raise Unsupported(f"term {op}")


def const(code: str, ty: str) -> T:
    return T("const", ty, code)


def int_const(v: int) -> T:
    return const(f"({v} : Int)", "Int")


TRUE, FALSE, NONE = const("true", "Bool"), const("false", "Bool"), const("none", "None")


def is_const(t) -> bool:
    return isinstance(t, T) and t.op == "const"


def mk_field(base: T, leanfield: str, ty: str) -> T:
    if base.op == "rec":
        for f, v in base.args[2]:
            if f == leanfield:
                return v
        if base.args[1] is not None:
            return mk_field(base.args[1], leanfield, ty)
    return T("field", ty, base, leanfield)


def subterms(t: T):
    """Post-order walk."""
    for a in t.args:
        if isinstance(a, T):
            yield from subterms(a)
        elif isinstance(a, tuple):
            for x in a:
                if isinstance(x, tuple) and len(x) == 2 and isinstance(x[1], T):
                    yield from subterms(x[1])
                elif isinstance(x, T):
                    yield from subterms(x)
    yield t


def int_value(t: T) -> int | None:
    if t.op == "const" and t.ty == "Int":
        return int(t.args[0].strip("()").split(":")[0])
    return None


def lin_parts(t: T) -> tuple[dict, int]:
    """Integer term as  sum coeff*atom + const  (atoms by key)."""
    v = int_value(t)
    if v is not None:
        return {}, v
    if t.op == "lin":
        return {x.key: (c, x) for c, x in t.args[0]}, t.args[1]
    return {t.key: (1, t)}, 0


def mk_lin(parts: dict, k: int) -> T:
    items = [(c, x) for c, x in parts.values() if c != 0]
    if not items:
        return int_const(k)
    items.sort(key=lambda cx: (cx[0] < 0, cx[1].key))
    if len(items) == 1 and items[0][0] == 1 and k == 0:
        return items[0][1]
    return T("lin", "Int", tuple(items), k)


def mk_arith(op: str, a: T, b: T) -> T:
    """`a op b` on integers in canonical (linear) form: `a + b`, `b + a`, `a - (-b)`, `2 * a`, `a * 2`, `a + a` coincide."""
    (pa, ka), (pb, kb) = lin_parts(a), lin_parts(b)
    if op in ("+", "-"):
        sgn = 1 if op == "+" else -1
        out = dict(pa)
        for key, (c, x) in pb.items():
            out[key] = (out.get(key, (0, x))[0] + sgn * c, x)
        return mk_lin(out, ka + sgn * kb)
    if op == "*":
        if not pa:
            return mk_lin({k: (c * ka, x) for k, (c, x) in pb.items()}, ka * kb)
        if not pb:
            return mk_lin({k: (c * kb, x) for k, (c, x) in pa.items()}, ka * kb)
        x, y = sorted([a, b], key=operand_key)
        return T("bin", "Int", "*", x, y)
    raise Unsupported(f"operator {op}")


def depth(t: T) -> int:
    return sum(1 for x in subterms(t) if x.op == "call")


def operand_key(t: T):
    return (1 if is_const(t) else 0, t.key)


def atom_rank(t: T):
    """The fixed global order of the atoms in the decision trees."""
    op = t.op
    if op == "cmp" and t.args[0] == "eq" and t.args[1].ty == "Src":
        r = 0
    elif op in ("field", "var", "proj"):
        r = 1
    elif op == "cmp" and t.args[0] == "eq" and t.args[1].ty in ENUMS:
        r = 2
    elif op == "isSome":
        r = 3
    elif op in ("contains", "nonempty"):
        r = 4
    elif op == "cmp":
        r = 5
    elif op == "optcmp":
        r = 6
    else:
        r = 7
    return (depth(t), r, t.key)


def mk_int_cmp(op: str, a: T, b: T) -> tuple[T, bool]:
    """Canonical atom and polarity of `a op b` on integers (op: lt le gt ge eq ne)."""
    # emptiness tests of a set in whatever spelling
    for x, y, o in ((a, b, op), (b, a, {"lt": "gt", "gt": "lt", "le": "ge", "ge": "le"}.get(op, op))):
        if x.op == "len" and is_const(y):
            k = int(y.args[0].strip("()").split(":")[0])
            f = {"lt": lambda n: n < k, "le": lambda n: n <= k, "gt": lambda n: n > k, "ge": lambda n: n >= k,
                 "eq": lambda n: n == k, "ne": lambda n: n != k}[o]
            vals = [f(n) for n in range(0, max(k, 0) + 3)]
            if (not vals[0]) and all(vals[1:]):
                return T("nonempty", "Bool", x.args[0]), True
            if vals[0] and not any(vals[1:]):
                return T("nonempty", "Bool", x.args[0]), False
    # linear form  L = a - b  (op) 0, sign fixed by its first atom, negative terms moved to the right-hand side:
    # `a - b > c`, `a > b + c`, `not (a <= c + b)`, `c + b < a` are one atom
    (pa, ka), (pb, kb) = lin_parts(a), lin_parts(b)
    parts = dict(pa)
    for key, (c, x) in pb.items():
        parts[key] = (parts.get(key, (0, x))[0] - c, x)
    k = ka - kb
    items = sorted([(c, x) for c, x in parts.values() if c != 0], key=lambda cx: cx[1].key)
    if not items:
        v = {"lt": k < 0, "le": k <= 0, "gt": k > 0, "ge": k >= 0, "eq": k == 0, "ne": k != 0}[op]
        return (TRUE if v else FALSE), True
    if items[0][0] < 0:
        items, k = [(-c, x) for c, x in items], -k
        op = {"lt": "gt", "gt": "lt", "le": "ge", "ge": "le"}.get(op, op)
    lhs = mk_lin({x.key: (c, x) for c, x in items if c > 0}, k if k > 0 else 0)
    rhs = mk_lin({x.key: (-c, x) for c, x in items if c < 0}, -k if k < 0 else 0)
    if op in ("eq", "ne"):
        return T("cmp", "Bool", "eq", lhs, rhs), op == "eq"
    if op == "lt":
        return T("cmp", "Bool", "lt", lhs, rhs), True
    if op == "le":
        return T("cmp", "Bool", "le", lhs, rhs), True
    if op == "gt":
        return T("cmp", "Bool", "le", lhs, rhs), False
    return T("cmp", "Bool", "lt", lhs, rhs), False


def mk_opt_cmp(op: str, o: T, n: T) -> tuple[T, bool]:
    """`o op n` with `o : Option Int` known to be `some`."""
    if op == "gt":
        return T("optcmp", "Bool", "gt", o, n), True
    if op == "ge":
        return T("optcmp", "Bool", "ge", o, n), True
    if op == "lt":
        return T("optcmp", "Bool", "ge", o, n), False
    if op == "le":
        return T("optcmp", "Bool", "gt", o, n), False
    raise Unsupported(f"comparison {op} on an optional time")


def theory_eval(atom: T, known: dict) -> bool | None:
    """Truth value of `atom` given the decided atoms (`known`: key -> bool), or None."""
    if atom.key in known:
        return known[atom.key]
    if atom.op == "cmp" and atom.args[0] == "eq" and atom.args[1].ty in ENUMS and is_const(atom.args[2]) \
            and not is_const(atom.args[1]):
        x, c = atom.args[1], atom.args[2]
        others = [T("cmp", "Bool", "eq", x, const(k, x.ty)).key for k in ENUMS[x.ty] if k != c.args[0]]
        if any(known.get(k) is True for k in others):
            return False
        if all(known.get(k) is False for k in others):
            return True
    if atom.op == "cmp" and atom.args[0] in ("lt", "le"):
        other = T("cmp", "Bool", "le" if atom.args[0] == "lt" else "lt", atom.args[1], atom.args[2]).key
        if atom.args[0] == "le" and known.get(other) is True:  # a < b  =>  a <= b
            return True
        if atom.args[0] == "lt" and known.get(other) is False:  # not a <= b  =>  not a < b
            return False
    return None


# --------------------------------------------------------------------------- values of the interpreter
class Ref:
    """Reference to a mutable object inside the symbolic state: python attribute path from the root object."""

    def __init__(self, path: tuple, ty: str):
        self.path, self.ty = tuple(path), ty

    def __repr__(self) -> str:
        return f"Ref({'.'.join(self.path)} : {self.ty})"


class Special:
    def __init__(self, kind: str, payload=None, extra=None):
        self.kind, self.payload, self.extra = kind, payload, extra

    def __repr__(self) -> str:
        return f"Special({self.kind}, {self.payload})"


BATTERY_ID, INVERTER_ID = Special("battery_id"), Special("inverter_id")


class _Return(Exception):
    def __init__(self, value):
        self.value = value


class _Continue(Exception):
    pass


class _Break(Exception):
    pass


PURE_BUILTINS = {"str", "len", "isinstance", "repr", "int", "float", "bool", "type", "math.isnan", "datetime.now",
                 "datetime.datetime.now", "timedelta", "datetime.timedelta", "min", "max", "abs", "next", "any", "all"}
PURE_METHODS = {"isoformat", "total_seconds", "intersection", "union", "difference", "issubset", "get", "keys", "values",
                "items", "format", "join"}
IMPURE_METHODS = {"reset", "add", "discard", "append", "pop", "clear", "update", "send", "remove", "extend", "insert",
                  "setdefault", "popitem", "close", "stop", "start", "cancel", "put", "put_nowait", "set"}


class Ctx:
    """The parsed sources: classes by structure name, module-level functions, tables."""

    def __init__(self) -> None:
        self.classes: dict[str, ast.ClassDef] = {}
        self.modfuncs: dict[str, dict[str, ast.FunctionDef]] = {}  # struct -> functions of its module
        self.tables: dict[str, str] = {}
        self.cs_fields: list[str] = ["component_id", "value"]
        self._pure: dict[int, bool] = {}

    def method(self, struct: str, name: str):
        cls = self.classes.get(struct)
        if cls is None:
            return None
        for m in cls.body:
            if isinstance(m, (ast.FunctionDef, ast.AsyncFunctionDef)) and m.name == name:
                return m
        return None

    def struct_of_class(self, pyname: str) -> str | None:
        for st, c in self.classes.items():
            if c.name == pyname:
                return st
        return None

    # ---- syntactic purity (only used to decide whether a logging-only `if` may be dropped unevaluated)
    def func_is_pure(self, fn) -> bool:
        if id(fn) in self._pure:
            return self._pure[id(fn)]
        self._pure[id(fn)] = True  # recursion: assume pure while looking
        ok = True
        for n in ast.walk(fn):
            if isinstance(n, (ast.Assign, ast.AnnAssign, ast.AugAssign, ast.Delete)):
                tg = n.targets if isinstance(n, (ast.Assign, ast.Delete)) else [n.target]
                if any(not isinstance(t, ast.Name) for t in tg):
                    ok = False
            elif isinstance(n, (ast.Await, ast.Yield, ast.YieldFrom, ast.Global, ast.Nonlocal)):
                ok = False
            elif isinstance(n, ast.Call) and not is_log_call(n) and not self.call_is_pure(n):
                ok = False
        self._pure[id(fn)] = ok
        return ok

    def call_is_pure(self, n: ast.Call) -> bool:
        f = ast.unparse(n.func)
        if f in PURE_BUILTINS:
            return True
        if isinstance(n.func, ast.Name):
            cands = [fs[n.func.id] for fs in self.modfuncs.values() if n.func.id in fs]
            return bool(cands) and all(self.func_is_pure(c) for c in cands)
        if isinstance(n.func, ast.Attribute):
            meth = n.func.attr
            if meth in IMPURE_METHODS:
                return False
            cands = [m for st in self.classes for m in [self.method(st, meth)] if m is not None]
            if cands:
                return all(self.func_is_pure(c) for c in cands)
            return meth in PURE_METHODS
        return False

    def expr_is_pure(self, e: ast.expr) -> bool:
        for n in ast.walk(e):
            if isinstance(n, (ast.NamedExpr, ast.Await, ast.Yield, ast.YieldFrom)):
                return False
            if isinstance(n, ast.Call) and not self.call_is_pure(n):
                return False
        return True

    def is_logging(self, stmt: ast.stmt) -> bool:
        if isinstance(stmt, ast.Expr) and is_log_call(stmt.value):
            return True
        if isinstance(stmt, ast.Expr) and isinstance(stmt.value, ast.Constant):
            return True  # docstring / bare constant
        if isinstance(stmt, (ast.Assert, ast.Pass)):
            return True
        if isinstance(stmt, ast.AnnAssign) and stmt.value is None:
            return True  # bare declaration `x: T`
        if isinstance(stmt, ast.If):
            return all(self.is_logging(s) for s in stmt.body) and all(self.is_logging(s) for s in stmt.orelse) \
                and self.expr_is_pure(stmt.test)
        return False


class Exec:
    """One run of the symbolic interpreter along one valuation of the atoms (`script` = the decisions to replay)."""

    def __init__(self, ctx: Ctx, root: str, script: list[bool], mode: str = "method"):
        self.ctx, self.root, self.mode = ctx, root, mode
        self.svar = T("var", root, "s")
        self.state: dict[tuple, T] = {}
        for p, ty in leaf_paths(root):
            self.state[p] = self.init_term(p)
        self.known: dict[str, bool] = {}
        self.decisions: list[tuple[T, bool]] = []
        self.script, self.pos = script, 0
        self.sent: T | None = None
        self.sent_watch: tuple | None = None
        self.pure = False
        self.struct_stack: list[str] = [root]
        self.depth = 0
        self.awaiting = 0

    # ------------------------------------------------------------------ state
    def init_term(self, path: tuple) -> T:
        t, ty = self.svar, self.root
        for a in path:
            f, fty = STRUCTS[ty][a]
            t = T("field", fty, t, f)
            ty = fty
        return t

    def fold(self, path: tuple, ty: str) -> T:
        """The object at `path` as one Lean term (a base term, a `{ base with … }` update or a structure literal)."""
        if ty not in OBJECT_STRUCTS:
            return self.state[path]
        children = []
        for attr, (f, fty) in STRUCTS[ty].items():
            children.append((f, self.fold(path + (attr,), fty)))
        bases: dict[str, list] = {}
        for f, c in children:
            if c.op == "field" and c.args[1] == f:
                bases.setdefault(c.args[0].key, [c.args[0], 0])[1] += 1
        if not bases:
            return T("rec", ty, ty, None, tuple(children))
        best = sorted(bases.values(), key=lambda bc: (-bc[1], bc[0].key))[0][0]
        rest = tuple((f, c) for f, c in children if not (c.op == "field" and c.args[1] == f and c.args[0].key == best.key))
        if not rest:
            return best
        return T("rec", ty, ty, best, rest)

    def assign_object(self, path: tuple, ty: str, term: T) -> None:
        for attr, (f, fty) in STRUCTS[ty].items():
            sub = mk_field(term, f, fty)
            if fty in OBJECT_STRUCTS:
                self.assign_object(path + (attr,), fty, sub)
            else:
                self.state[path + (attr,)] = sub

    # ------------------------------------------------------------------ decisions
    def decide(self, atom: T) -> bool:
        if is_const(atom):
            return atom.key == "true"
        if atom.op == "not":
            return not self.decide(atom.args[0])
        v = theory_eval(atom, self.known)
        if v is not None:
            return v
        if self.pos < len(self.script):
            v = self.script[self.pos]
        else:
            v = True
            self.script.append(True)
        self.pos += 1
        self.known[atom.key] = v
        self.decisions.append((atom, v))
        return v

    def res(self, atom: T, pol: bool):
        if self.pure:
            return atom if pol else T("not", "Bool", atom)
        return self.decide(atom) == pol

    def truth(self, v, node: ast.AST) -> bool:
        if isinstance(v, bool):
            return v
        if isinstance(v, T) and v.ty == "Bool":
            if self.pure:
                raise Unsupported(f"branching inside a predicate: {ast.unparse(node)}")
            return self.decide(v)
        if v is None:
            return False
        if isinstance(v, T) and v.ty in ("OptInt", "OptStatus", "OptStr") and not self.pure:
            # datetimes, enum members and error objects are truthy: `if x` == `if x is not None`
            return self.decide(T("isSome", "Bool", v))
        if isinstance(v, T) and v.ty in ("Status", "ErrElem"):
            return True
        if isinstance(v, Ref) and v.ty == "SetNat":
            return self.res(T("nonempty", "Bool", self.state[v.path]), True)
        if isinstance(v, T) and v.ty == "SetNat":
            return self.res(T("nonempty", "Bool", v), True)
        raise Unsupported(f"truth value of {ast.unparse(node)}")

    # ------------------------------------------------------------------ expressions
    def ev(self, n: ast.expr, env: dict):
        v = self._ev(n, env)
        if isinstance(v, T) and v.ty == "Bool" and not self.pure:
            return self.decide(v)
        return v

    def as_int(self, v, node) -> T:
        if isinstance(v, T) and v.ty == "Int":
            return v
        raise Unsupported(f"expected a time/duration: {ast.unparse(node)}")

    def _ev(self, n: ast.expr, env: dict):
        if isinstance(n, ast.Constant):
            if isinstance(n.value, bool) or n.value is None or isinstance(n.value, str):
                return n.value
            if isinstance(n.value, int):
                return int_const(n.value)
            if isinstance(n.value, float) and n.value == int(n.value):
                return int_const(int(n.value))
            raise Unsupported(f"constant {n.value!r}")
        if isinstance(n, ast.Name):
            if n.id in env:
                v = env[n.id]
                if isinstance(v, Special) and v.kind == "unknown":
                    raise Unsupported(f"use of {n.id} = {v.payload}")
                return v
            st = self.ctx.struct_of_class(n.id)
            if st is not None:
                return Special("class", st)
            raise Unsupported(f"unknown name {n.id}")
        if isinstance(n, ast.NamedExpr):
            v = self.ev(n.value, env)
            env[n.target.id] = v
            return v
        if isinstance(n, ast.Attribute):
            return self.attribute(n, env)
        if isinstance(n, ast.UnaryOp) and isinstance(n.op, ast.Not):
            if self.pure:
                v = self._ev(n.operand, env)
                if isinstance(v, bool):
                    return not v
                if isinstance(v, T) and v.ty == "Bool":
                    return v.args[0] if v.op == "not" else T("not", "Bool", v)
                raise Unsupported(f"not {ast.unparse(n.operand)}")
            return not self.truth(self.ev(n.operand, env), n.operand)
        if isinstance(n, ast.UnaryOp) and isinstance(n.op, ast.USub):
            v = self.as_int(self.ev(n.operand, env), n.operand)
            return mk_arith("-", int_const(0), v)
        if isinstance(n, ast.BoolOp):
            is_and = isinstance(n.op, ast.And)
            if self.pure:
                parts = []
                for x in n.values:
                    v = self._ev(x, env)
                    if isinstance(v, bool):
                        if v != is_and:
                            return v
                        continue
                    if not (isinstance(v, T) and v.ty == "Bool"):
                        raise Unsupported(f"operand {ast.unparse(x)}")
                    parts.append(v)
                if not parts:
                    return is_and
                return parts[0] if len(parts) == 1 else T("and" if is_and else "or", "Bool", *parts)
            for x in n.values:
                if self.truth(self.ev(x, env), x) != is_and:
                    return not is_and
            return is_and
        if isinstance(n, ast.BinOp):
            a = self.as_int(self.ev(n.left, env), n.left)
            b = self.as_int(self.ev(n.right, env), n.right)
            ops = {ast.Add: "+", ast.Sub: "-", ast.Mult: "*"}
            if type(n.op) not in ops:
                raise Unsupported(f"operator in {ast.unparse(n)}")
            return mk_arith(ops[type(n.op)], a, b)
        if isinstance(n, ast.Compare):
            left = self.ev(n.left, env)
            result = True
            for op, rn in zip(n.ops, n.comparators):
                right = self.ev(rn, env)
                r = self.compare(op, left, right, n)
                if self.pure:
                    if len(n.ops) != 1:
                        raise Unsupported("chained comparison in a predicate")
                    return r
                if not r:
                    return False
                left = right
            return result
        if isinstance(n, ast.IfExp):
            if self.pure:
                raise Unsupported("conditional expression in a predicate")
            return self.ev(n.body if self.truth(self.ev(n.test, env), n.test) else n.orelse, env)
        if isinstance(n, ast.Call):
            return self.call(n, env)
        if isinstance(n, ast.Await):
            c = n.value
            if isinstance(c, ast.Call) and isinstance(c.func, ast.Attribute) and c.func.attr == "send":
                return self.send(c, env)
            if isinstance(c, ast.Call) and not self.pure:
                self.awaiting += 1
                try:
                    return self.call(c, env)
                finally:
                    self.awaiting -= 1
            raise Unsupported(f"await {ast.unparse(c)[:60]}")
        if isinstance(n, ast.Tuple) and not self.pure:
            return tuple(self.ev(e, env) for e in n.elts)
        raise Unsupported(f"expression {ast.unparse(n)[:80]}")

    def attribute(self, n: ast.Attribute, env: dict):
        src = ast.unparse(n)
        if src.startswith("ComponentStatusEnum.") and src.count(".") == 1:
            return const(f"Status.{enum_ctor(n.attr)}", "Status")
        if src.startswith("ErrorLevel.") and src.count(".") == 1:
            return const(json.dumps(n.attr), "Str")
        if src in ("timezone.utc", "datetime.timezone.utc"):
            return Special("utc")
        base = self.ev(n.value, env)
        a = n.attr
        if a in self.ctx.tables and (isinstance(base, Ref) and base.ty == "Tracker"
                                     or isinstance(base, Special) and base.kind == "class" and base.payload == "Tracker"):
            return Special("table", self.ctx.tables[a])
        if isinstance(base, Ref):
            if a == "_timedelta_zero":
                return int_const(0)
            if base.ty in STRUCTS and a in STRUCTS[base.ty]:
                fty = STRUCTS[base.ty][a][1]
                if fty in REF_TYPES:
                    return Ref(base.path + (a,), fty)
                return self.state[base.path + (a,)]
            if base.ty == "Stream" and a == "component_id":
                if base.path[-1:] == ("_battery",):
                    return BATTERY_ID
                if base.path[-1:] == ("_inverter",):
                    return INVERTER_ID
            m = self.ctx.method(base.ty, a)
            if m is not None and any(ast.unparse(d) == "property" for d in m.decorator_list):
                return self.inline(m, base, [], {}, base.ty)
            raise Unsupported(f"attribute {src}")
        if isinstance(base, T):
            if base.ty == "ErrElem" and a == "level":
                return T(base.op, "Str", *base.args)
            if base.ty == "Selected" and a == "message":
                return Special("selmsg", base)
            if base.ty == "Msg" and a == "capacity":
                return Special("capacity", base)
            if base.ty == "SpResult" and a in STRUCTS["SpResult"]:
                return Special("idflag", T("field", "Bool", base, STRUCTS["SpResult"][a][0]))
            if base.ty in STRUCTS and a in STRUCTS[base.ty]:
                f, fty = STRUCTS[base.ty][a]
                return mk_field(base, f, fty)
        if isinstance(base, Special) and base.kind == "compstatus" and a in ("component_id", "value"):
            return base.payload if a == "component_id" else base.extra
        raise Unsupported(f"attribute {src}")

    CMP = {ast.Gt: "gt", ast.Lt: "lt", ast.GtE: "ge", ast.LtE: "le", ast.Eq: "eq", ast.NotEq: "ne"}

    def compare(self, op: ast.cmpop, l, r, node: ast.AST):
        if isinstance(op, (ast.In, ast.NotIn)):
            pol = isinstance(op, ast.In)
            if l is BATTERY_ID and isinstance(r, Special) and r.kind == "idflag":
                return self.res(r.payload, pol)
            if isinstance(r, Special) and r.kind == "table" and isinstance(l, T) and l.ty == "Str":
                return self.res(T("contains", "Bool", r.payload, l), pol)
            raise Unsupported(f"membership test {ast.unparse(node)}")
        if isinstance(op, (ast.Is, ast.IsNot)):
            pol = isinstance(op, ast.Is)
            if isinstance(l, bool) and isinstance(r, bool):
                return (l == r) == pol
            if r is not None and l is None:
                l, r = r, l
            if r is not None:
                raise Unsupported(f"`is` with a non-None operand: {ast.unparse(node)}")
            if l is None or (isinstance(l, T) and l.ty == "None"):
                return pol
            if isinstance(l, T) and l.ty.startswith("Opt"):
                return self.res(T("isSome", "Bool", l), not pol)
            if isinstance(l, (T, Ref, bool, str)):
                return not pol
            raise Unsupported(f"`is None` on {ast.unparse(node)}")
        if type(op) not in self.CMP:
            raise Unsupported("comparison operator")
        o = self.CMP[type(op)]
        if o in ("eq", "ne") and (l is None or r is None) and not isinstance(l, (bool, str)) and not isinstance(r, (bool, str)):
            return self.compare(ast.Is() if o == "eq" else ast.IsNot(), l, r, node)
        if isinstance(l, (bool, str)) or isinstance(r, (bool, str)) or l is None or r is None:
            if o in ("eq", "ne") and not isinstance(l, T) and not isinstance(r, T):
                return (l == r) == (o == "eq")
            raise Unsupported(f"comparison {ast.unparse(node)}")
        if not (isinstance(l, T) and isinstance(r, T)):
            raise Unsupported(f"comparison {ast.unparse(node)}")
        if l.ty == "Int" and r.ty == "Int":
            if is_const(l) and is_const(r):
                x, y = (int(t.args[0].strip("()").split(":")[0]) for t in (l, r))
                return {"gt": x > y, "lt": x < y, "ge": x >= y, "le": x <= y, "eq": x == y, "ne": x != y}[o]
            return self.res(*mk_int_cmp(o, l, r))
        if {l.ty, r.ty} == {"OptInt", "Int"}:
            if l.ty == "Int":
                l, r, o = r, l, {"lt": "gt", "gt": "lt", "le": "ge", "ge": "le"}.get(o, o)
            if l.op == "some":
                return self.res(*mk_int_cmp(o, l.args[0], r))
            if theory_eval(T("isSome", "Bool", l), self.known) is not True:
                raise Unsupported(f"comparison of a possibly-None value: {ast.unparse(node)}")
            return self.res(*mk_opt_cmp(o, l, r))
        if l.ty == r.ty and l.ty in ("Status", "Str", "Src", "Nat") and o in ("eq", "ne"):
            if is_const(l) and is_const(r):
                return (l.key == r.key) == (o == "eq")
            x, y = sorted([l, r], key=operand_key)
            return self.res(T("cmp", "Bool", "eq", x, y), o == "eq")
        raise Unsupported(f"comparison {ast.unparse(node)} : {l.ty} vs {r.ty}")

    # ------------------------------------------------------------------ calls
    def bind_args(self, fn, n_args: list, kwargs: dict, skip_self: bool, what: str, env_for_defaults=None) -> dict:
        a = fn.args
        if a.vararg or a.kwarg:
            raise Unsupported(f"{what}: *args/**kwargs")
        params = list(a.posonlyargs) + list(a.args)
        if skip_self:
            params = params[1:]
        defaults = dict(zip([p.arg for p in params][len(params) - len(a.defaults):], a.defaults)) if a.defaults else {}
        out: dict = {}
        if len(n_args) > len(params):
            raise Unsupported(f"{what}: too many arguments")
        for p, v in zip(params, n_args):
            out[p.arg] = v
        names = [p.arg for p in params] + [p.arg for p in a.kwonlyargs]
        for k, v in kwargs.items():
            if k not in names or k in out:
                raise Unsupported(f"{what}: argument {k}")
            out[k] = v
        for p, d in list(defaults.items()) + [(p.arg, d) for p, d in zip(a.kwonlyargs, a.kw_defaults) if d is not None]:
            if p not in out:
                out[p] = self.ev(d, {})
        for nm in names:
            if nm not in out:
                raise Unsupported(f"{what}: missing argument {nm}")
        self._param_ann = {p.arg: (ast.unparse(p.annotation) if p.annotation is not None else "")
                           for p in params + list(a.kwonlyargs)}
        return out

    def coerce_param(self, v, ann: str):
        """`selected.message` takes the type its receiver declares."""
        if isinstance(v, Special) and v.kind == "selmsg":
            ty = PARAM_TYPES.get(ann)
            if ty == "Msg":
                return T("field", "Msg", v.payload, "msg")
            if ty == "SpResult":
                return T("field", "SpResult", v.payload, "result")
            raise Unsupported(f"selected.message passed to a parameter annotated {ann!r}")
        return v

    def inline(self, fn, self_val, args: list, kwargs: dict, struct: str | None):
        if isinstance(fn, ast.AsyncFunctionDef):
            if self.awaiting == 0:
                raise Unsupported(f"coroutine {fn.name} is called but not awaited")
        awaiting, self.awaiting = self.awaiting, 0
        decos = [ast.unparse(d) for d in fn.decorator_list]
        static = "staticmethod" in decos
        if any(d not in ("staticmethod", "property", "override", "classmethod") for d in decos):
            raise Unsupported(f"decorator on {fn.name}")
        is_method = struct is not None and self_val is not None
        bound = self.bind_args(fn, args, kwargs, is_method and not static, fn.name)
        ann = self._param_ann
        env = {k: self.coerce_param(v, ann.get(k, "")) for k, v in bound.items()}
        if is_method and not static:
            first = (list(fn.args.posonlyargs) + list(fn.args.args))[0].arg
            env[first] = Special("class", struct) if "classmethod" in decos else self_val
        self.depth += 1
        if self.depth > 40:
            raise Unsupported("recursion")
        self.struct_stack.append(struct if struct is not None else self.struct_stack[-1])
        try:
            self.block(fn.body, env)
            return None
        except _Return as r:
            return r.value
        except (_Continue, _Break):
            raise Unsupported(f"continue/break escaping {fn.name}")
        finally:
            self.struct_stack.pop()
            self.depth -= 1
            self.awaiting = awaiting

    def to_term(self, v, ty: str, node: ast.AST) -> T:
        """Coerce a value to a term of (leaf) type `ty`."""
        if isinstance(v, bool) and ty == "Bool":
            return TRUE if v else FALSE
        if ty.startswith("Opt"):
            if v is None or (isinstance(v, T) and v.ty == "None"):
                return NONE
            if isinstance(v, T) and v.ty == ty:
                return v
            if isinstance(v, T) and v.ty == ty[3:]:
                return T("some", ty, v)
        if isinstance(v, Ref) and v.ty == ty and ty in ("SetNat", "Timer"):
            return self.state[v.path]
        if isinstance(v, Ref) and v.ty == ty and ty in OBJECT_STRUCTS:
            return self.fold(v.path, ty)
        if isinstance(v, T) and v.ty == ty:
            return v
        raise Unsupported(f"cannot use {ast.unparse(node)[:60]} as {ty}")

    def contract_call(self, key: tuple, recv: Ref, args: list, kwargs: dict, node: ast.Call):
        spec = CONTRACT[key]
        fn = self.ctx.method(*key)
        bound = self.bind_args(fn, args, kwargs, True, key[1])
        if len(bound) != len(spec["params"]):
            raise Unsupported(f"{key[1]}: expected {len(spec['params'])} parameter(s)")
        terms = []
        for (pname, v), pty in zip(bound.items(), spec["params"]):
            if isinstance(v, Special) and v.kind == "selmsg":
                v = T("field", pty, v.payload, {"Msg": "msg", "SpResult": "result"}.get(pty, "?"))
            terms.append(self.to_term(v, pty, node))
        call = T("call", "Call", spec["lean"], self.fold(recv.path, recv.ty), *terms)
        if not spec["mut"]:
            return T(call.op, spec["ret"], *call.args)
        if spec["ret"] == "Unit":
            self.assign_object(recv.path, recv.ty, T(call.op, recv.ty, *call.args))
            return None
        self.assign_object(recv.path, recv.ty, T("proj", recv.ty, call, 1))
        return T("proj", spec["ret"], call, 2)

    def generator_pred(self, g: ast.GeneratorExp, env: dict, want_elt_is_var: bool) -> tuple[T, T]:
        """(list term, predicate over `e`) of `(x for x in xs if p)` / `(p for x in xs)`."""
        if len(g.generators) != 1 or g.generators[0].is_async or not isinstance(g.generators[0].target, ast.Name):
            raise Unsupported("generator form")
        gen = g.generators[0]
        xs = self.ev(gen.iter, env)
        if not (isinstance(xs, T) and xs.ty == "ListStr"):
            raise Unsupported(f"iteration over {ast.unparse(gen.iter)}")
        env2 = dict(env)
        env2[gen.target.id] = T("var", "ErrElem", "e")
        conds = list(gen.ifs)
        if want_elt_is_var:
            if not (isinstance(g.elt, ast.Name) and g.elt.id == gen.target.id):
                raise Unsupported("next(generator) form")
        else:
            conds = conds + [g.elt]
        return xs, self.pure_pred(conds, env2)

    def pure_pred(self, conds: list[ast.expr], env: dict) -> T:
        saved = self.pure
        self.pure = True
        try:
            parts = []
            for c in conds:
                v = self._ev(c, env)
                if v is True:
                    continue
                if v is False:
                    return FALSE
                if not (isinstance(v, T) and v.ty == "Bool"):
                    raise Unsupported(f"predicate {ast.unparse(c)}")
                parts.append(v)
        finally:
            self.pure = saved
        if not parts:
            return TRUE
        return parts[0] if len(parts) == 1 else T("and", "Bool", *parts)

    def call(self, n: ast.Call, env: dict):
        f = ast.unparse(n.func)
        if is_log_call(n):
            return None
        if f in ("datetime.now", "datetime.datetime.now"):
            return T("var", "Int", "now")
        if f in ("timedelta", "datetime.timedelta"):
            return int_const(timedelta_us(n))
        args = None

        def argv():
            nonlocal args
            if args is None:
                if any(isinstance(a, ast.Starred) for a in n.args) or any(k.arg is None for k in n.keywords):
                    raise Unsupported(f"arguments of {ast.unparse(n)[:60]}")
                args = ([self.ev(a, env) for a in n.args], {k.arg: self.ev(k.value, env) for k in n.keywords})
            return args

        if f in ("min", "max") and len(n.args) == 2 and not n.keywords:
            a, b = (self.as_int(v, n) for v in argv()[0])
            return T("fn", "Int", "pyMinInt" if f == "min" else "pyMaxInt", a, b)
        if f == "type" and len(n.args) == 1 and not n.keywords:
            v = argv()[0][0]
            if isinstance(v, Ref) and v.ty in OBJECT_STRUCTS:
                return Special("class", v.ty)
            raise Unsupported(f"type({ast.unparse(n.args[0])})")
        if f == "math.isnan" and len(n.args) == 1:
            v = argv()[0][0]
            if isinstance(v, Special) and v.kind == "capacity":
                return T("field", "Bool", v.payload, "capacityIsNaN")
            raise Unsupported(f"math.isnan({ast.unparse(n.args[0])})")
        if f == "len" and len(n.args) == 1:
            v = argv()[0][0]
            if isinstance(v, Ref) and v.ty == "SetNat":
                v = self.state[v.path]
            if isinstance(v, T) and v.ty == "SetNat":
                return T("len", "Int", v)
            raise Unsupported(f"len({ast.unparse(n.args[0])})")
        if f == "next" and len(n.args) == 2 and isinstance(n.args[0], ast.GeneratorExp) \
                and isinstance(n.args[1], ast.Constant) and n.args[1].value is None:
            xs, p = self.generator_pred(n.args[0], env, True)
            return T("find", "OptStr", xs, p)
        if f in ("any", "all") and len(n.args) == 1 and isinstance(n.args[0], ast.GeneratorExp) and not n.keywords:
            xs, p = self.generator_pred(n.args[0], env, False)
            if f == "all":
                p = p.args[0] if p.op == "not" else T("not", "Bool", p)
            return self.res(T("isSome", "Bool", T("find", "OptStr", xs, p)), f == "any")
        if f == "selected_from" and len(n.args) == 2 and not n.keywords:
            sel, src = argv()[0]
            role = role_of(src)
            if not (isinstance(sel, T) and sel.ty == "Selected" and role is not None):
                raise Unsupported(f"selected_from({ast.unparse(n.args[0])}, {ast.unparse(n.args[1])})")
            return self.res(T("cmp", "Bool", "eq", T("field", "Src", sel, "src"), const(f"Src.{role}", "Src")), True)
        if f == "ComponentStatus":
            vals, kw = argv()
            names = self.ctx.cs_fields
            d = dict(zip(names, vals))
            for k, v in kw.items():
                if k not in names or k in d:
                    raise Unsupported(f"ComponentStatus argument {k}")
                d[k] = v
            if set(d) != set(names):
                raise Unsupported("ComponentStatus arguments")
            return Special("compstatus", d["component_id"], d["value"])
        if isinstance(n.func, ast.Name):
            fn = self.ctx.modfuncs.get(self.struct_stack[-1], {}).get(n.func.id)
            if fn is not None:
                vals, kw = argv()
                return self.inline(fn, None, vals, kw, None)
            raise Unsupported(f"call {f}")
        if not isinstance(n.func, ast.Attribute):
            raise Unsupported(f"call {f}")
        meth = n.func.attr
        recv = self.ev(n.func.value, env)
        if isinstance(recv, Special) and recv.kind == "class":
            fn = self.ctx.method(recv.payload, meth)
            if fn is None:
                raise Unsupported(f"call {f}")
            decos = [ast.unparse(d) for d in fn.decorator_list]
            vals, kw = argv()
            if "staticmethod" in decos or "classmethod" in decos:
                return self.inline(fn, recv, vals, kw, recv.payload)
            if vals and isinstance(vals[0], Ref) and vals[0].ty == recv.payload:  # Class.method(self, …)
                return self.method_call(recv.payload, meth, vals[0], vals[1:], kw, n)
            raise Unsupported(f"call {f}")
        if isinstance(recv, Ref):
            if recv.ty == "Timer" and meth == "reset" and not n.args and not n.keywords:
                self.state[recv.path] = T("var", "Int", "now")
                return None
            if recv.ty == "SetNat":
                vals, kw = argv()
                if kw or len(vals) != 1:
                    raise Unsupported(f"call {f}")
                cur = self.state[recv.path]
                if meth in ("add", "discard"):
                    x = self.to_term(vals[0], "Nat", n)
                    self.state[recv.path] = T("fn", "SetNat", "setAdd" if meth == "add" else "setDiscard", cur, x)
                    return None
                if meth == "intersection":
                    return T("fn", "SetNat", "setInter", cur, self.to_term(vals[0], "SetNat", n))
                raise Unsupported(f"call {f}")
            if recv.ty in OBJECT_STRUCTS:
                vals, kw = argv()
                return self.method_call(recv.ty, meth, recv, vals, kw, n)
        raise Unsupported(f"call {f}")

    def method_call(self, struct: str, meth: str, recv: Ref, vals: list, kw: dict, n: ast.Call):
        if (struct, meth) in CONTRACT:
            if self.pure:
                raise Unsupported("entry-point call inside a predicate")
            return self.contract_call((struct, meth), recv, vals, kw, n)
        fn = self.ctx.method(struct, meth)
        if fn is None:
            raise Unsupported(f"call of unknown method {struct}.{meth}")
        if any(ast.unparse(d) == "staticmethod" for d in fn.decorator_list):
            return self.inline(fn, Special("class", struct), vals, kw, struct)
        return self.inline(fn, recv, vals, kw, struct)

    def send(self, call: ast.expr, env: dict):
        if not (isinstance(call, ast.Call) and isinstance(call.func, ast.Attribute) and call.func.attr == "send"
                and len(call.args) == 1 and not call.keywords):
            raise Unsupported(f"await {ast.unparse(call)[:60]}")
        if self.sent is not None:
            raise Unsupported("more than one send in an iteration")
        arg = self.ev(call.args[0], env)
        if self.mode == "iteration":
            snd = self.ev(call.func.value, env)
            if not (isinstance(snd, Special) and snd.kind == "sender"):
                raise Unsupported(f"send on {ast.unparse(call.func.value)}")
            if not (isinstance(arg, Special) and arg.kind == "compstatus" and arg.payload is BATTERY_ID):
                raise Unsupported(f"send of {ast.unparse(call.args[0])}")
            self.sent = self.to_term(arg.extra, "OptStatus", call)
            if self.sent.key == "none":
                raise Unsupported("send of None")
        elif self.mode == "poolloop":
            if ast.unparse(call.func.value) != "self._component_status_sender":
                raise Unsupported(f"send on {ast.unparse(call.func.value)}")
            if not (isinstance(arg, Ref) and arg.ty == "PoolStatus"):
                raise Unsupported(f"send of {ast.unparse(call.args[0])}")
            self.sent = T("some", "OptPoolStatus", self.fold(arg.path, "PoolStatus"))
            self.sent_watch = (arg.path, self.fold(arg.path, "PoolStatus").key)
        else:
            raise Unsupported("await in a method")
        return None

    # ------------------------------------------------------------------ statements
    def assign(self, tgt: ast.expr, v, env: dict, node: ast.AST) -> None:
        if isinstance(tgt, ast.Name):
            env[tgt.id] = v
            return
        if isinstance(tgt, (ast.Tuple, ast.List)):
            if not isinstance(v, tuple) or len(v) != len(tgt.elts) or any(isinstance(e, ast.Starred) for e in tgt.elts):
                raise Unsupported(f"unpacking {ast.unparse(node)[:80]}")
            for t, x in zip(tgt.elts, v):
                self.assign(t, x, env, node)
            return
        if isinstance(tgt, ast.Attribute):
            if tgt.attr == "_timedelta_zero":
                if not (isinstance(v, T) and v.key == "(0 : Int)"):
                    raise Unsupported(f"_timedelta_zero is not zero: {ast.unparse(node)}")
                return
            base = self.ev(tgt.value, env)
            if isinstance(base, Ref) and base.ty in STRUCTS and tgt.attr in STRUCTS[base.ty]:
                fty = STRUCTS[base.ty][tgt.attr][1]
                if fty in REF_TYPES:
                    raise Unsupported(f"assignment replaces an object: {ast.unparse(node)[:80]}")
                self.state[base.path + (tgt.attr,)] = self.to_term(v, fty, node)
                return
        raise Unsupported(f"assignment target {ast.unparse(tgt)}")

    def block(self, ss: list[ast.stmt], env: dict) -> None:
        for s in ss:
            self.stmt(s, env)

    def stmt(self, s: ast.stmt, env: dict) -> None:
        if self.ctx.is_logging(s):
            return
        if isinstance(s, ast.Return):
            raise _Return(None if s.value is None else self.ev(s.value, env))
        if isinstance(s, ast.Continue):
            raise _Continue()
        if isinstance(s, ast.Break):
            raise _Break()
        if isinstance(s, ast.If):
            self.block(s.body if self.truth(self.ev(s.test, env), s.test) else s.orelse, env)
            return
        if isinstance(s, ast.Match):
            subj = self.ev(s.subject, env)
            for case in s.cases:
                if self.case_matches(case.pattern, subj, env, s) and \
                        (case.guard is None or self.truth(self.ev(case.guard, env), case.guard)):
                    self.block(case.body, env)
                    return
            return
        if isinstance(s, ast.Assign):
            v = self.ev(s.value, env)
            for tgt in s.targets:
                self.assign(tgt, v, env, s)
            return
        if isinstance(s, ast.AnnAssign):
            self.assign(s.target, self.ev(s.value, env), env, s)
            return
        if isinstance(s, ast.AugAssign):
            cur = self.ev(s.target, env)
            ops = {ast.Add: "+", ast.Sub: "-", ast.Mult: "*"}
            if type(s.op) not in ops:
                raise Unsupported(f"statement {ast.unparse(s)[:80]}")
            v = mk_arith(ops[type(s.op)], self.as_int(cur, s), self.as_int(self.ev(s.value, env), s))
            self.assign(s.target, v, env, s)
            return
        if isinstance(s, ast.Expr):
            self.ev(s.value, env)
            return
        if isinstance(s, ast.For):
            self.search_loop(s, env)
            return
        raise Unsupported(f"statement {ast.unparse(s)[:80]}")

    def case_matches(self, pat: ast.pattern, subj, env: dict, node: ast.AST) -> bool:
        if isinstance(pat, ast.MatchAs) and pat.pattern is None:
            if pat.name is not None:
                env[pat.name] = subj
            return True
        if isinstance(pat, ast.MatchValue):
            return bool(self.compare(ast.Eq(), subj, self.ev(pat.value, env), node))
        if isinstance(pat, ast.MatchSingleton):
            return bool(self.compare(ast.Is(), subj, pat.value, node)) if pat.value is None else subj is pat.value
        if isinstance(pat, ast.MatchOr):
            return any(self.case_matches(q, subj, env, node) for q in pat.patterns)
        raise Unsupported(f"match pattern {ast.unparse(pat)}")

    def search_loop(self, s: ast.For, env: dict) -> None:
        """`for x in xs: if p(x): …; return/break` — at most one element (the first with `p`) acts."""
        if not isinstance(s.target, ast.Name):
            raise Unsupported("loop target")
        xs = self.ev(s.iter, env)
        if not (isinstance(xs, T) and xs.ty == "ListStr"):
            raise Unsupported(f"loop over {ast.unparse(s.iter)}")
        body = [b for b in s.body if not self.ctx.is_logging(b)]
        if len(body) != 1 or not isinstance(body[0], ast.If):
            raise Unsupported("loop body is not a single `if`")
        test, then, orelse = body[0].test, body[0].body, body[0].orelse
        acts = [b for b in then if not self.ctx.is_logging(b)]
        rest = [b for b in orelse if not self.ctx.is_logging(b)]
        neg = False
        if not (acts and isinstance(acts[-1], (ast.Return, ast.Break))):
            # `if not p(x): continue` followed by nothing is not a search; accept the mirrored `if not p: continue else: …`
            if len(acts) == 1 and isinstance(acts[0], ast.Continue) and rest and isinstance(rest[-1], (ast.Return, ast.Break)):
                then, rest, neg = orelse, [], True
            else:
                raise Unsupported("loop body does not end the search")
        if rest and not (len(rest) == 1 and isinstance(rest[0], ast.Continue)):
            raise Unsupported("loop `else` branch")
        env2 = dict(env)
        env2[s.target.id] = T("var", "ErrElem", "e")
        p = self.pure_pred([test], env2)
        if neg:
            p = p.args[0] if p.op == "not" else T("not", "Bool", p)
        found = T("find", "OptStr", xs, p)
        if self.res(T("isSome", "Bool", found), True):
            env[s.target.id] = T("get", "ErrElem", found)
            try:
                self.block(then, env)
            except _Break:
                return
            raise Unsupported("search loop continues after a hit")
        self.block(s.orelse, env)


# --------------------------------------------------------------------------- paths -> canonical tree -> Lean
class Outcome:
    def __init__(self, decisions, state: T | None, ret: T | None, sent: T | None):
        self.decisions, self.state, self.ret, self.sent = decisions, state, ret, sent
        self.key = "|".join(x.key if x is not None else "-" for x in (state, ret, sent))

    def terms(self) -> list[T]:
        return [x for x in (self.state, self.ret, self.sent) if x is not None]


def normalise_state(ex: Exec) -> None:
    """A field that ends with the constant it is known to have had on this path is unchanged."""
    for p, ty in leaf_paths(ex.root):
        v, init = ex.state[p], ex.init_term(p)
        if not is_const(v):
            continue
        same = None
        if ty == "Bool":
            same = theory_eval(init, ex.known) == (v.key == "true") if theory_eval(init, ex.known) is not None else None
        elif ty in ENUMS:
            same = theory_eval(T("cmp", "Bool", "eq", init, v), ex.known) is True
        elif ty.startswith("Opt") and v.key == "none":
            same = theory_eval(T("isSome", "Bool", init), ex.known) is False
        if same:
            ex.state[p] = init


def explore(ctx: Ctx, root: str, mode: str, run, limit: int = 4000) -> list[Outcome]:
    """All paths of `run(ex) -> (ret, …)`: depth-first over the decisions."""
    outs: list[Outcome] = []
    script: list[bool] = []
    while True:
        ex = Exec(ctx, root, list(script), mode)
        ret = run(ex)
        normalise_state(ex)
        outs.append(Outcome(list(ex.decisions), ex.fold((), root), ret, ex.sent))
        if len(outs) > limit:
            raise Unsupported("too many paths")
        taken = [v for _, v in ex.decisions]
        while taken and taken[-1] is False:
            taken.pop()
        if not taken:
            return outs
        taken[-1] = False
        script = taken


class Node:
    def __init__(self, atom: T | None, yes=None, no=None, leaf: Outcome | None = None):
        self.atom, self.yes, self.no, self.leaf = atom, yes, no, leaf
        self.key = leaf.key if leaf is not None else f"({atom.key}?{yes.key}:{no.key})"


def build_tree(paths: list[Outcome], known: dict) -> Node:
    def consistent(o: Outcome) -> bool:
        for a, v in o.decisions:
            k = theory_eval(a, known)
            if k is not None and k != v:
                return False
        return True

    live = [o for o in paths if consistent(o)]
    if not live:
        raise Unsupported("internal: no path for a valuation")
    open_atoms: dict[str, T] = {}
    for o in live:
        for a, _ in o.decisions:
            if theory_eval(a, known) is None:
                open_atoms[a.key] = a
    if not open_atoms:
        if len({o.key for o in live}) != 1:
            raise Unsupported("internal: ambiguous paths")
        return Node(None, leaf=live[0])
    atom = min(open_atoms.values(), key=atom_rank)
    if atom.op == "cmp" and atom.args[0] == "eq" and atom.args[1].ty in ENUMS and not is_const(atom.args[1]):
        # the alternatives of an enum are split in the order of the enum, whichever of them the source spells out
        for c in ENUMS[atom.args[1].ty]:
            cand = T("cmp", "Bool", "eq", atom.args[1], const(c, atom.args[1].ty))
            if theory_eval(cand, known) is None:
                atom = cand
                break
    yes = build_tree(live, {**known, atom.key: True})
    no = build_tree(live, {**known, atom.key: False})
    if yes.key == no.key:
        return yes
    return Node(atom, yes, no)


class Emitter:
    def __init__(self, kind: str):
        self.kind = kind  # "state" | "pair" | "value" | "iter"
        self.n = 0

    def lets(self, terms: list[T], bound: dict, ind: str) -> tuple[list[str], dict]:
        lines: list[str] = []
        for t in terms:
            for x in subterms(t):
                if x.op == "proj" and x.args[0].op == "call" and x.args[0].key not in bound:
                    c = x.args[0]
                    self.n += 1
                    code = render(c, bound)
                    lines.append(f"{ind}let r{self.n} := {code[1:-1] if code.startswith('(') else code}")
                    bound = {**bound, c.key: f"r{self.n}"}
        return lines, bound

    def leaf(self, o: Outcome, bound: dict) -> str:
        st = render(o.state, bound)
        if self.kind == "state":
            return st
        if self.kind == "value":
            return render(o.ret, bound)
        second = o.ret if self.kind == "pair" else (o.sent if o.sent is not None else NONE)
        return f"({st}, {render(second, bound)})"

    def emit(self, node: Node, ind: str, bound: dict) -> str:
        if node.leaf is not None:
            terms = node.leaf.terms() if self.kind != "value" else [node.leaf.ret]
            lines, bound = self.lets(terms, bound, ind)
            return "\n".join(lines + [ind + self.leaf(node.leaf, bound)])
        lines, bound = self.lets([node.atom], bound, ind)
        return "\n".join(lines + [f"{ind}if {render(node.atom, bound)} then", self.emit(node.yes, ind + "  ", bound),
                                  f"{ind}else", self.emit(node.no, ind + "  ", bound)])


def ret_term(ex: Exec, v, ty: str, what: str) -> T | None:
    if ty == "Unit":
        if v is not None:
            raise Unsupported(f"{what}: returns a value but is declared to return None")
        return None
    if ty == "SetNat" and isinstance(v, Ref) and v.ty == "SetNat":
        return ex.state[v.path]
    return ex.to_term(v, ty, ast.Name(id=what))


def translate_method(ctx: Ctx, key: tuple[str, str]) -> str:
    spec = CONTRACT[key]
    struct, pyname = key
    fn = ctx.method(struct, pyname)
    if fn is None:
        raise Unsupported(f"method {struct}.{pyname} not found")
    params = (list(fn.args.posonlyargs) + list(fn.args.args))[1:]
    if len(params) != len(spec["params"]) or fn.args.kwonlyargs or fn.args.vararg or fn.args.kwarg:
        raise Unsupported(f"{pyname}: parameters")
    for p, ty in zip(params, spec["params"]):
        ann = ast.unparse(p.annotation) if p.annotation is not None else ""
        if ann in PARAM_TYPES and PARAM_TYPES[ann] != ty:
            raise Unsupported(f"{pyname}: parameter {p.arg}: {ann!r}")
    names = [PARAM_NAME[ty] for ty in spec["params"]]

    def run(ex: Exec):
        args = [T("var", ty, nm) for ty, nm in zip(spec["params"], names)]
        v = ex.inline(fn, Ref((), struct), args, {}, struct)
        return ret_term(ex, v, spec["ret"], pyname)

    paths = explore(ctx, struct, "method", run)
    if not spec["mut"] and any(o.state.key != "s" for o in paths):
        raise Unsupported(f"{pyname}: changes the object but is used as a pure function")
    tree = build_tree(paths, {})
    kind = "value" if not spec["mut"] else ("state" if spec["ret"] == "Unit" else "pair")
    body = Emitter(kind).emit(tree, "  ", {})
    rty = lean_ty(spec["ret"]) if kind == "value" else (struct if kind == "state" else f"{struct} × {lean_ty(spec['ret'])}")
    ps = "".join(f" ({nm} : {lean_ty(ty)})" for ty, nm in zip(spec["params"], names))
    return f"/-- `{pyname}` -/\ndef {spec['lean']} (s : {struct}) (now : Int){ps} : {rty} :=\n{body}\n"


# --------------------------------------------------------------------------- top level
def find_class(mod: ast.Module, name: str) -> ast.ClassDef:
    for n in mod.body:
        if isinstance(n, ast.ClassDef) and n.name == name:
            return n
    raise Unsupported(f"class {name} not found")


def find_method(cls: ast.ClassDef, name: str) -> ast.FunctionDef | ast.AsyncFunctionDef:
    for n in cls.body:
        if isinstance(n, (ast.FunctionDef, ast.AsyncFunctionDef)) and n.name == name:
            return n
    raise Unsupported(f"method {cls.name}.{name} not found")


def module_functions(mod: ast.Module) -> dict[str, ast.FunctionDef]:
    return {n.name: n for n in mod.body if isinstance(n, ast.FunctionDef)}


def enum_name_set(cls: ast.ClassDef, attr: str, enum: str) -> list[str]:
    for n in cls.body:
        tgt = n.target if isinstance(n, ast.AnnAssign) else (n.targets[0] if isinstance(n, ast.Assign) else None)
        if isinstance(tgt, ast.Name) and tgt.id == attr:
            v = n.value
            if isinstance(v, ast.Call) and ast.unparse(v.func) in ("set", "frozenset") and len(v.args) == 1 and not v.keywords:
                v = v.args[0]
            if not isinstance(v, (ast.Set, ast.List, ast.Tuple)):
                raise Unsupported(f"{attr} is not a set display")
            out = []
            for e in v.elts:
                src = ast.unparse(e)
                if not src.startswith(enum + "."):
                    raise Unsupported(f"{attr}: element {src}")
                out.append(src.split(".", 1)[1])
            return sorted(set(out))
    raise Unsupported(f"{attr} not found")


def str_list(xs: list[str]) -> str:
    return "[" + ", ".join(f'"{x}"' for x in xs) + "]"


def init_only_attrs(cls: ast.ClassDef) -> set[str]:
    """Attributes of `self` that are assigned in `__init__` and nowhere else in the class."""
    inside, outside = set(), set()
    for m in cls.body:
        if not isinstance(m, (ast.FunctionDef, ast.AsyncFunctionDef)):
            continue
        for n in ast.walk(m):
            tg = []
            if isinstance(n, ast.Assign):
                tg = n.targets
            elif isinstance(n, (ast.AnnAssign, ast.AugAssign)):
                tg = [n.target]
            elif isinstance(n, ast.Delete):
                tg = n.targets
            for t in tg:
                if isinstance(t, ast.Attribute) and isinstance(t.value, ast.Name) and t.value.id == "self":
                    (inside if m.name == "__init__" else outside).add(t.attr)
    return inside - outside


def loop_prelude(ctx: Ctx, ex: Exec, struct: str, fn, loop: ast.AsyncFor, env: dict) -> None:
    """Bind the locals that the enclosing coroutine sets up before the loop and that cannot change afterwards:
    receivers (by role), references to sub-objects, fields that only `__init__` assigns.  Anything else is bound to
    a marker that raises when the loop body uses it."""
    frozen = init_only_attrs(ctx.classes[struct])
    self_names = {k for k, v in env.items() if isinstance(v, Ref) and v.path == ()}

    def stable(e: ast.expr) -> bool:
        if isinstance(e, ast.Name):
            return True
        first = None
        while isinstance(e, ast.Attribute):
            first, e = e, e.value
        return isinstance(e, ast.Name) and e.id in self_names and first is not None and first.attr in frozen

    def contains_loop(stmts: list[ast.stmt]) -> bool:
        return any(n is loop for s in stmts for n in ast.walk(s))

    def visit(stmts: list[ast.stmt]) -> bool:
        for s in stmts:
            if s is loop:
                return True
            if contains_loop([s]):
                if isinstance(s, ast.While) and isinstance(s.test, ast.Constant) and s.test.value is True and not s.orelse:
                    return visit(s.body)
                if isinstance(s, ast.Try) and contains_loop(s.body):
                    return visit(s.body)
                raise Unsupported(f"the loop is nested in {type(s).__name__}")
            if ctx.is_logging(s):
                continue
            tgt = val = None
            if isinstance(s, ast.Assign) and len(s.targets) == 1:
                tgt, val = s.targets[0], s.value
            elif isinstance(s, ast.AnnAssign) and s.value is not None:
                tgt, val = s.target, s.value
            if not isinstance(tgt, ast.Name):
                raise Unsupported(f"statement before the loop: {ast.unparse(s)[:80]}")
            env[tgt.id] = prelude_value(val)
        return False

    def prelude_value(val: ast.expr):
        src = ast.unparse(val)
        if isinstance(val, ast.Await) and isinstance(val.value, ast.Call) and isinstance(val.value.func, ast.Attribute) \
                and val.value.func.attr in ("battery_data", "inverter_data") and len(val.value.args) == 1 \
                and not val.value.keywords:
            try:
                cid = ex.ev(val.value.args[0], env)
            except Unsupported:
                cid = None
            want = BATTERY_ID if val.value.func.attr == "battery_data" else INVERTER_ID
            if cid is not want:
                raise Unsupported(f"{src}: not the id of the matching component")
            return Special("role", "battery" if want is BATTERY_ID else "inverter")
        try:
            v = ex.ev(val, env)
        except Unsupported:
            return Special("unknown", src)
        if isinstance(v, Special) or (isinstance(v, T) and is_const(v)):
            return v
        if isinstance(v, Ref) and stable(val):
            return v
        if isinstance(v, T) and (isinstance(val, ast.Name) or (isinstance(val, ast.Attribute) and isinstance(val.value, ast.Name)
                                                                and val.value.id in self_names and val.attr in frozen)):
            return v  # an alias, or a leaf field that nothing but `__init__` assigns
        return Special("unknown", src)

    if not visit(list(fn.body)):
        raise Unsupported("loop not found")


def role_of(v) -> str | None:
    if isinstance(v, Special) and v.kind == "role":
        return v.payload
    if isinstance(v, Ref) and v.ty == "Timer" and v.path[:1] == ("_battery",):
        return "batteryTimer"
    if isinstance(v, Ref) and v.ty == "Timer" and v.path[:1] == ("_inverter",):
        return "inverterTimer"
    return None


def translate_run_iteration(ctx: Ctx, run: ast.AsyncFunctionDef) -> str:
    loops = [n for n in ast.walk(run) if isinstance(n, ast.AsyncFor)]
    if len(loops) != 1:
        raise Unsupported("_run: expected exactly one `async for`")
    loop = loops[0]
    if not (isinstance(loop.iter, ast.Call) and ast.unparse(loop.iter.func) == "select" and isinstance(loop.target, ast.Name)
            and not loop.iter.keywords and not loop.orelse):
        raise Unsupported("_run: loop is not `async for selected in select(...)`")
    sel = T("var", "Selected", "selected")

    def base_env(ex: Exec) -> dict:
        env: dict = {}
        params = list(run.args.posonlyargs) + list(run.args.args) + list(run.args.kwonlyargs)
        env[params[0].arg] = Ref((), "Tracker")
        for p in params[1:]:
            ann = ast.unparse(p.annotation).replace(" ", "") if p.annotation is not None else ""
            if ann == "Sender[ComponentStatus]":
                env[p.arg] = Special("sender", "status")
            elif ann == "Receiver[SetPowerResult]":
                env[p.arg] = Special("role", "setPowerResult")
            else:
                env[p.arg] = Special("unknown", f"parameter {p.arg}: {ann}")
        loop_prelude(ctx, ex, "Tracker", run, loop, env)
        return env

    def run_body(ex: Exec):
        env = base_env(ex)
        roles = []
        for a in loop.iter.args:
            r = role_of(ex.ev(a, env))
            if r is None:
                raise Unsupported(f"select() argument {ast.unparse(a)}")
            roles.append(r)
        if sorted(roles) != sorted(x.split(".")[1] for x in ENUMS["Src"]):
            raise Unsupported(f"select() receivers {roles}")
        env[loop.target.id] = sel
        try:
            ex.block(loop.body, env)
        except _Continue:
            pass
        except (_Return, _Break):
            raise Unsupported("return/break inside the select loop")
        return None

    paths = explore(ctx, "Tracker", "iteration", run_body)
    tree = build_tree(paths, {})
    body = Emitter("iter").emit(tree, "  ", {})
    return ("/-- One iteration of the `select` loop of `BatteryStatusTracker._run`: new state and the status sent, if any. -/\n"
            f"def Tracker.runIteration (s : Tracker) (now : Int) (selected : Selected) : Tracker × Option Status :=\n{body}\n")


def translate_pool_update(ctx: Ctx, upd: ast.AsyncFunctionDef) -> str:
    loops = [n for n in ast.walk(upd) if isinstance(n, ast.AsyncFor)]
    if len(loops) != 1:
        raise Unsupported("_update_status: expected a single `async for`")
    pl = loops[0]
    if not (isinstance(pl.target, ast.Name) and ast.unparse(pl.iter) == "self._merged_status_receiver" and not pl.orelse):
        raise Unsupported("_update_status loop header")
    if "_merged_status_receiver" not in init_only_attrs(ctx.classes["Pool"]):
        raise Unsupported("_merged_status_receiver is re-assigned")

    def run_body(ex: Exec):
        params = list(upd.args.posonlyargs) + list(upd.args.args)
        env: dict = {params[0].arg: Ref((), "Pool")}
        loop_prelude(ctx, ex, "Pool", upd, pl, env)
        env[pl.target.id] = T("var", "CompStatus", "status")
        try:
            ex.block(pl.body, env)
        except _Continue:
            pass
        except (_Return, _Break):
            raise Unsupported("return/break inside the loop of _update_status")
        if ex.sent_watch is not None and ex.fold(ex.sent_watch[0], "PoolStatus").key != ex.sent_watch[1]:
            raise Unsupported("_update_status: the status changes after it was sent")
        return None

    paths = explore(ctx, "Pool", "poolloop", run_body)
    tree = build_tree(paths, {})
    body = Emitter("iter").emit(tree, "  ", {})
    return ("/-- One iteration of the loop of `ComponentPoolStatusTracker._update_status`: new state, pool status sent. -/\n"
            f"def Pool.updateStatus (s : Pool) (now : Int) (status : CompStatus) : Pool × Option PoolStatus :=\n{body}\n")


PRELUDE = '''import Frequenz.Model.Prelude

set_option linter.unusedVariables false

namespace Extracted.BatteryStatus

/-- Python `min(a, b)` on integers (first wins on ties). -/
def pyMinInt (a b : Int) : Int := if b < a then b else a
/-- Python `max(a, b)` on integers (first wins on ties). -/
def pyMaxInt (a b : Int) : Int := if b > a then b else a
/-- Comparison of an optional time with a time (the translator accepts such a comparison only on paths where the
source has established `is not None` before). -/
def optCmp (f : Int → Int → Bool) (o : Option Int) (n : Int) : Bool :=
  match o with
  | none => false
  | some a => f a n
/-- `set.intersection`, `set.add`, `set.discard` on duplicate-free lists. -/
def setInter (a b : List Nat) : List Nat := a.filter (fun x => b.contains x)
def setAdd (a : List Nat) (x : Nat) : List Nat := if a.contains x then a else a ++ [x]
def setDiscard (a : List Nat) (x : Nat) : List Nat := a.filter (fun y => y != x)
'''

STRUCT_TEXT = '''/-- `BlockingStatus` (times and durations in microseconds) -/
structure Blocking where
  minDuration : Int
  maxDuration : Int
  lastBlockingDuration : Int
  blockedUntil : Option Int
deriving DecidableEq, Repr

/-- `_ComponentStreamStatus`; `timerResetAt` = loop time of the last `data_recv_timer.reset()` (or of its creation). -/
structure Stream where
  lastMsgTimestamp : Int
  lastMsgCorrect : Bool
  timerResetAt : Int
deriving DecidableEq, Repr

/-- The facts of a `BatteryData` / `InverterData` message the tracker looks at (enum member names, error levels). -/
structure Msg where
  timestamp : Int
  componentState : String
  relayState : String
  errorLevels : List String
  capacityIsNaN : Bool
deriving DecidableEq, Repr, Inhabited

/-- `SetPowerResult` seen from one battery: is its id in `succeeded` / in `failed`. -/
structure SpResult where
  succeeded : Bool
  failed : Bool
deriving DecidableEq, Repr, Inhabited

/-- `BatteryStatusTracker` -/
structure Tracker where
  maxDataAge : Int
  lastStatus : Status
  blocking : Blocking
  battery : Stream
  inverter : Stream
deriving DecidableEq, Repr
'''

POOL_STRUCT_TEXT = '''/-- `ComponentPoolStatus` -/
structure PoolStatus where
  working : List Nat
  uncertain : List Nat
deriving DecidableEq, Repr

/-- `ComponentStatus` -/
structure CompStatus where
  componentId : Nat
  value : Status
deriving DecidableEq, Repr

/-- The part of `ComponentPoolStatusTracker` that `_update_status` touches. -/
structure Pool where
  currentStatus : PoolStatus
deriving DecidableEq, Repr
'''


def single_assigned_locals(fn) -> dict[str, ast.expr]:
    seen: dict[str, list] = {}
    for n in ast.walk(fn):
        if isinstance(n, ast.Assign):
            for t in n.targets:
                if isinstance(t, ast.Name):
                    seen.setdefault(t.id, []).append(n.value)
        elif isinstance(n, (ast.AnnAssign, ast.AugAssign, ast.NamedExpr)) and isinstance(n.target, ast.Name):
            seen.setdefault(n.target.id, []).append(getattr(n, "value", None))
        elif isinstance(n, (ast.For, ast.AsyncFor)) and isinstance(n.target, ast.Name):
            seen.setdefault(n.target.id, []).extend([None, None])
    params = {a.arg for a in list(fn.args.posonlyargs) + list(fn.args.args) + list(fn.args.kwonlyargs)}
    return {k: v[0] for k, v in seen.items() if len(v) == 1 and v[0] is not None and k not in params}


class _Subst(ast.NodeTransformer):
    def __init__(self, mapping: dict[str, ast.expr]):
        self.mapping = mapping

    def visit_Name(self, node: ast.Name):  # noqa: N802
        return self.mapping.get(node.id, node) if isinstance(node.ctx, ast.Load) else node


def resolver(fn, cls: ast.ClassDef | None = None):
    """Expression resolver for a constructor: follows single-assignment locals, `self.<attr>` to the (single) value the
    constructor assigns to it, and calls of same-class helpers whose body is one `return <expr>` (arguments bound
    positionally or by keyword)."""
    import copy
    loc = single_assigned_locals(fn)
    self_name = (list(fn.args.posonlyargs) + list(fn.args.args))[0].arg
    attrs: dict[str, list] = {}
    for n in ast.walk(fn):
        tg = n.targets if isinstance(n, ast.Assign) else [n.target] if isinstance(n, (ast.AnnAssign, ast.AugAssign)) else []
        for t in tg:
            if isinstance(t, ast.Attribute) and isinstance(t.value, ast.Name) and t.value.id == self_name:
                attrs.setdefault(t.attr, []).append(getattr(n, "value", None) if not isinstance(n, ast.AugAssign) else None)

    def helper_body(call: ast.Call):
        if cls is None or not isinstance(call.func, ast.Attribute):
            return None
        recv = call.func.value
        is_self = isinstance(recv, ast.Name) and recv.id in (self_name, cls.name)
        is_type = isinstance(recv, ast.Call) and ast.unparse(recv) == f"type({self_name})"
        if not (is_self or is_type):
            return None
        m = next((x for x in cls.body if isinstance(x, ast.FunctionDef) and x.name == call.func.attr), None)
        if m is None or m.args.vararg or m.args.kwarg:
            return None
        body = [b for b in m.body if not (isinstance(b, ast.Expr) and isinstance(b.value, ast.Constant))]
        if len(body) != 1 or not isinstance(body[0], ast.Return) or body[0].value is None:
            return None
        static = any(ast.unparse(d) == "staticmethod" for d in m.decorator_list)
        params = list(m.args.posonlyargs) + list(m.args.args)
        mapping: dict[str, ast.expr] = {}
        if not static:
            mapping[params[0].arg] = ast.Name(id=self_name, ctx=ast.Load())
            params = params[1:]
        try:
            bound = call_args(call, [q.arg for q in params] + [q.arg for q in m.args.kwonlyargs], m.name)
        except Unsupported:
            return None
        defaults = dict(zip([q.arg for q in params][len(params) - len(m.args.defaults):], m.args.defaults))
        defaults.update({q.arg: d for q, d in zip(m.args.kwonlyargs, m.args.kw_defaults) if d is not None})
        for q in params + list(m.args.kwonlyargs):
            if q.arg in bound:
                mapping[q.arg] = bound[q.arg]
            elif q.arg in defaults:
                mapping[q.arg] = defaults[q.arg]
            else:
                return None
        return ast.fix_missing_locations(_Subst(mapping).visit(copy.deepcopy(body[0].value)))

    def resolve(e: ast.expr, depth: int = 0) -> ast.expr:
        while depth < 12:
            depth += 1
            if isinstance(e, ast.Name) and e.id in loc:
                e = loc[e.id]
            elif isinstance(e, ast.Attribute) and isinstance(e.value, ast.Name) and e.value.id == self_name \
                    and len(attrs.get(e.attr, [])) == 1 and attrs[e.attr][0] is not None:
                e = attrs[e.attr][0]
            elif isinstance(e, ast.Call) and helper_body(e) is not None:
                e = helper_body(e)
            else:
                break
        return e
    return resolve


def call_args(call: ast.Call, names: list[str], what: str) -> dict[str, ast.expr]:
    """Arguments of a call by parameter name (positional ones matched against `names`)."""
    if len(call.args) > len(names) or any(isinstance(a, ast.Starred) for a in call.args):
        raise Unsupported(f"{what}: positional arguments")
    out = dict(zip(names, call.args))
    for k in call.keywords:
        if k.arg is None or k.arg in out:
            raise Unsupported(f"{what}: argument {k.arg}")
        out[k.arg] = k.value
    return out


def dataclass_fields(cls: ast.ClassDef) -> list[str]:
    return [n.target.id for n in cls.body if isinstance(n, ast.AnnAssign) and isinstance(n.target, ast.Name)]


def generate(repo: pathlib.Path) -> str:
    trk_mod = ast.parse((repo / SOURCES[0]).read_text())
    blk_mod = ast.parse((repo / SOURCES[1]).read_text())
    cst_mod = ast.parse((repo / SOURCES[2]).read_text())
    pool_mod = ast.parse((repo / SOURCES[3]).read_text())
    mgr_mod = ast.parse((repo / SOURCES[4]).read_text())
    out: list[str] = [PRELUDE]

    # ---- ComponentStatusEnum
    enum_cls = find_class(cst_mod, "ComponentStatusEnum")
    members = [n.targets[0].id for n in enum_cls.body if isinstance(n, ast.Assign) and isinstance(n.targets[0], ast.Name)]
    if sorted(members) != ["NOT_WORKING", "UNCERTAIN", "WORKING"]:
        raise Unsupported(f"ComponentStatusEnum members {members}")
    out.append("/-- `ComponentStatusEnum` -/\ninductive Status where\n"
               + "".join(f"  | {enum_ctor(m)}\n" for m in sorted(members))
               + "deriving DecidableEq, Repr, Inhabited\n")

    # ---- tables
    trk_cls = find_class(trk_mod, "BatteryStatusTracker")
    ctx = Ctx()
    tables = {
        "_battery_valid_relay": ("batteryValidRelay", "BatteryRelayState"),
        "_battery_valid_state": ("batteryValidState", "BatteryComponentState"),
        "_inverter_valid_state": ("inverterValidState", "InverterComponentState"),
    }
    for attr, (lean, enum) in tables.items():
        names = enum_name_set(trk_cls, attr, enum)
        ctx.tables[attr] = lean
        out.append(f"/-- `BatteryStatusTracker.{attr}` (member names of `{enum}`, sorted) -/\n"
                   f"def {lean} : List String := {str_list(names)}\n")
    for m in trk_cls.body:  # the tables are class constants: nothing may assign them later
        for n in ast.walk(m):
            if isinstance(n, ast.Attribute) and n.attr in tables and isinstance(n.ctx, (ast.Store, ast.Del)):
                raise Unsupported(f"{n.attr} is re-assigned")
            if isinstance(n, ast.Call) and isinstance(n.func, ast.Attribute) and isinstance(n.func.value, ast.Attribute) \
                    and n.func.value.attr in tables and n.func.attr in IMPURE_METHODS:
                raise Unsupported(f"{n.func.value.attr} is modified")

    # ---- structures
    blk_cls = find_class(blk_mod, "BlockingStatus")
    defaults = {}
    for n in blk_cls.body:
        if isinstance(n, ast.AnnAssign) and isinstance(n.target, ast.Name):
            if n.target.id not in STRUCTS["Blocking"]:
                raise Unsupported(f"BlockingStatus field {n.target.id}")
            defaults[n.target.id] = n.value
    if set(defaults) != set(STRUCTS["Blocking"]):
        raise Unsupported(f"BlockingStatus fields {sorted(defaults)}")
    out.append(STRUCT_TEXT)

    ps_cls = find_class(cst_mod, "ComponentPoolStatus")
    pool_cls = find_class(pool_mod, "ComponentPoolStatusTracker")
    stream_cls = find_class(trk_mod, "_ComponentStreamStatus")
    cs_cls = find_class(cst_mod, "ComponentStatus")
    ctx.classes = {"Blocking": blk_cls, "Tracker": trk_cls, "PoolStatus": ps_cls, "Pool": pool_cls, "Stream": stream_cls}
    ctx.modfuncs = {"Blocking": module_functions(blk_mod), "Tracker": module_functions(trk_mod),
                    "Stream": module_functions(trk_mod), "PoolStatus": module_functions(cst_mod),
                    "Pool": module_functions(pool_mod)}
    ctx.cs_fields = dataclass_fields(cs_cls)
    if sorted(ctx.cs_fields) != ["component_id", "value"]:
        raise Unsupported(f"ComponentStatus fields {ctx.cs_fields}")
    if sorted(dataclass_fields(ps_cls)) != ["uncertain", "working"]:
        raise Unsupported("ComponentPoolStatus fields")

    # ---- BlockingStatus
    for name in ("__post_init__", "block", "unblock", "is_blocked"):
        out.append(translate_method(ctx, ("Blocking", name)))

    def default_code(field: str) -> str:
        v = defaults[field]
        if v is None:
            raise Unsupported(f"BlockingStatus.{field} has no default")
        if isinstance(v, ast.Constant) and v.value is None:
            return "none"
        return str(timedelta_us(v))
    out.append("/-- `BlockingStatus(min_duration=…, max_duration=…)` : dataclass defaults, then `__post_init__`. -/\n"
               "def Blocking.new (minDuration maxDuration : Int) : Blocking :=\n"
               "  Blocking.postInit { minDuration := minDuration, maxDuration := maxDuration,\n"
               f"                      lastBlockingDuration := {default_code('last_blocking_duration')},\n"
               f"                      blockedUntil := {default_code('blocked_until')} }} 0\n")

    # ---- BatteryStatusTracker
    for name in ("_handle_status_battery", "_handle_status_inverter", "_handle_status_set_power_result",
                 "_handle_status_battery_timer", "_handle_status_inverter_timer", "_get_new_status_if_changed"):
        out.append(translate_method(ctx, ("Tracker", name)))
    out.append("/-- Which receiver of the `select(...)` in `_run` produced the event. -/\ninductive Src where\n"
               + "".join(f"  | {x.split('.')[1]}\n" for x in ENUMS["Src"]) + "deriving DecidableEq, Repr, Inhabited\n")
    out.append("/-- `Selected`: source, and its message (`msg` for data streams, `result` for set-power results). -/\n"
               "structure Selected where\n  src : Src\n  msg : Msg\n  result : SpResult\nderiving Repr, Inhabited\n")
    run = find_method(trk_cls, "_run")
    if not isinstance(run, ast.AsyncFunctionDef):
        raise Unsupported("_run is not a coroutine")
    out.append(translate_run_iteration(ctx, run))

    # ---- constructor of the tracker
    init = find_method(trk_cls, "__init__")
    resolve = resolver(init, trk_cls)
    init_status = min_dur = None
    timers = 0
    streams = set()
    for n in ast.walk(init):
        if isinstance(n, (ast.Assign, ast.AnnAssign)):
            tgt = n.targets[0] if isinstance(n, ast.Assign) else n.target
            src = ast.unparse(tgt)
            val = resolve(n.value) if n.value is not None else None
            if src == "self._last_status":
                v = ast.unparse(val)
                if not v.startswith("ComponentStatusEnum."):
                    raise Unsupported(f"initial status {v}")
                init_status = enum_ctor(v.split(".")[1])
            elif src == "self._blocking_status":
                if not (isinstance(val, ast.Call) and ast.unparse(val.func) == "BlockingStatus" and not val.args):
                    raise Unsupported("self._blocking_status")
                kws = {k.arg: resolve(k.value) for k in val.keywords}
                if set(kws) != {"min_duration", "max_duration"} or ast.unparse(kws["max_duration"]) != "max_blocking_duration":
                    raise Unsupported(f"BlockingStatus({ast.unparse(val)})")
                min_dur = timedelta_us(kws["min_duration"])
            elif src == "self._max_data_age" and ast.unparse(val) != "max_data_age":
                raise Unsupported("self._max_data_age")
            elif src in ("self._battery", "self._inverter"):
                if not (isinstance(val, ast.Call) and ast.unparse(val.func) == "_ComponentStreamStatus"):
                    raise Unsupported(src)
                a = call_args(val, dataclass_fields(stream_cls), src)
                if set(a) != {"component_id", "data_recv_timer"}:
                    raise Unsupported(f"{src}: arguments {sorted(a)}")
                t = resolve(a["data_recv_timer"])
                if not (isinstance(t, ast.Call) and ast.unparse(t.func) == "Timer"):
                    raise Unsupported(f"data timer: {ast.unparse(t)}")
                ta = call_args(t, ["interval", "missed_tick_policy"], "Timer")
                if set(ta) != {"interval", "missed_tick_policy"} or ast.unparse(resolve(ta["interval"])) != "max_data_age" \
                        or ast.unparse(resolve(ta["missed_tick_policy"])) != "SkipMissedAndDrift()":
                    raise Unsupported(f"data timer: {ast.unparse(t)}")
                cid = ast.unparse(resolve(a["component_id"]))
                if src == "self._battery" and cid != "component_id":
                    raise Unsupported(f"battery stream id {cid}")
                if src == "self._inverter" and "_find_adjacent_inverter_id(component_id)" not in cid:
                    raise Unsupported(f"inverter stream id {cid}")
                timers += 1
                streams.add(src)
    if init_status is None or min_dur is None or timers != 2 or len(streams) != 2:
        raise Unsupported("BatteryStatusTracker.__init__: status / blocking / timers not recognised")
    for n in ast.walk(trk_cls):  # no other timer anywhere in the class
        if isinstance(n, ast.Call) and ast.unparse(n.func) == "Timer":
            ta = call_args(n, ["interval", "missed_tick_policy"], "Timer")
            if set(ta) != {"interval", "missed_tick_policy"} or ast.unparse(resolve(ta["interval"])) != "max_data_age" \
                    or ast.unparse(resolve(ta["missed_tick_policy"])) != "SkipMissedAndDrift()":
                raise Unsupported(f"BatteryStatusTracker: timer {ast.unparse(n)}")
    correct_default = None
    for n in stream_cls.body:
        if isinstance(n, ast.AnnAssign) and isinstance(n.target, ast.Name) and n.target.id == "last_msg_correct":
            if not isinstance(n.value, ast.Constant) or not isinstance(n.value.value, bool):
                raise Unsupported("last_msg_correct default")
            correct_default = "true" if n.value.value else "false"
    if correct_default is None:
        raise Unsupported("_ComponentStreamStatus.last_msg_correct")
    out.append(f"/-- `min_duration` passed to `BlockingStatus` by the tracker (µs). -/\ndef minBlockingDuration : Int := {min_dur}\n")
    out.append("/-- Data timers are `Timer(max_data_age, SkipMissedAndDrift())`: interval = `maxDataAge`, a tick re-arms from the tick. -/\n"
               "def timerPolicy : String := \"SkipMissedAndDrift\"\n")
    out.append("/-- `BatteryStatusTracker(...)` created at loop time `t0`; `ts0` = the (import-time) default of `last_msg_timestamp`. -/\n"
               "def Tracker.new (maxDataAge maxBlockingDuration ts0 t0 : Int) : Tracker :=\n"
               f"  {{ maxDataAge := maxDataAge, lastStatus := Status.{init_status},\n"
               "    blocking := Blocking.new minBlockingDuration maxBlockingDuration,\n"
               f"    battery := {{ lastMsgTimestamp := ts0, lastMsgCorrect := {correct_default}, timerResetAt := t0 }},\n"
               f"    inverter := {{ lastMsgTimestamp := ts0, lastMsgCorrect := {correct_default}, timerResetAt := t0 }} }}\n")

    # ---- defaults used by BatteryManager
    dflt = {}
    for n in ast.walk(mgr_mod):
        if isinstance(n, ast.Call) and ast.unparse(n.func) == "ComponentPoolStatusTracker":
            for k in n.keywords:
                if k.arg in ("max_data_age", "max_blocking_duration"):
                    dflt[k.arg] = timedelta_us(k.value)
    if set(dflt) != {"max_data_age", "max_blocking_duration"}:
        raise Unsupported("BatteryManager: ComponentPoolStatusTracker(max_data_age=…, max_blocking_duration=…) not found")
    out.append(f"/-- Defaults passed by `BatteryManager` (µs). -/\ndef defaultMaxDataAge : Int := {dflt['max_data_age']}\n"
               f"def defaultMaxBlockingDuration : Int := {dflt['max_blocking_duration']}\n")

    # ---- channel capacities: the model's FIFO assumption (every tracker sees every set-power result, every data
    # message and every status notification, in order) needs the library's default buffers
    for cls_node in (pool_cls, trk_cls):
        for n in ast.walk(cls_node):
            if not isinstance(n, ast.Call):
                continue
            f = n.func.attr if isinstance(n.func, ast.Attribute) else ast.unparse(n.func)
            if f == "new_receiver" and (n.args or any(k.arg != "name" for k in n.keywords)):
                raise Unsupported(f"receiver with a non-default buffer: {ast.unparse(n)[:100]}")
            if (f == "Broadcast" or ast.unparse(n.func).startswith("Broadcast[")) \
                    and (n.args or any(k.arg != "name" for k in n.keywords)):
                raise Unsupported(f"channel with non-default options: {ast.unparse(n)[:100]}")
            if f in ("battery_data", "inverter_data") and (len(n.args) != 1 or n.keywords):
                raise Unsupported(f"data stream with a non-default buffer: {ast.unparse(n)[:100]}")
    out.append("/-- Every `new_receiver(...)` / `Broadcast(...)` of the pool tracker and every `battery_data` / `inverter_data`\n"
               "stream of the battery tracker is created with the library's default buffer (the translator raises otherwise):\n"
               "the per-receiver FIFO of the model loses nothing. -/\n"
               "def receiverBuffersAreDefault : Bool := true\n")

    # ---- pool
    out.append(POOL_STRUCT_TEXT)
    out.append(translate_method(ctx, ("PoolStatus", "get_working_components")))
    upd = find_method(pool_cls, "_update_status")
    if not isinstance(upd, ast.AsyncFunctionDef):
        raise Unsupported("_update_status is not a coroutine")
    out.append(translate_pool_update(ctx, upd))
    # initial pool status and the delegating accessor
    pinit = find_method(pool_cls, "__init__")
    presolve = resolver(pinit, pool_cls)
    ok = False
    for n in ast.walk(pinit):
        if isinstance(n, (ast.Assign, ast.AnnAssign)) and n.value is not None \
                and ast.unparse(n.targets[0] if isinstance(n, ast.Assign) else n.target) == "self._current_status":
            v = presolve(n.value)
            if isinstance(v, ast.Call) and ast.unparse(v.func) == "ComponentPoolStatus":
                a = call_args(v, dataclass_fields(ps_cls), "ComponentPoolStatus")
                ok = set(a) == {"working", "uncertain"} and all(ast.unparse(presolve(x)) == "set()" for x in a.values())
    if not ok:
        raise Unsupported("ComponentPoolStatusTracker.__init__: initial status")
    gw = find_method(pool_cls, "get_working_components")

    def run_gw(ex: Exec):
        v = ex.inline(gw, Ref((), "Pool"), [T("var", "SetNat", "components")], {}, "Pool")
        return ret_term(ex, v, "SetNat", "get_working_components")
    gpaths = explore(ctx, "Pool", "method", run_gw)
    if len(gpaths) != 1 or gpaths[0].state.key != "s" \
            or gpaths[0].ret.key != "(PoolStatus.getWorkingComponents s.currentStatus now components)":
        raise Unsupported("ComponentPoolStatusTracker.get_working_components")
    out.append("def Pool.new : Pool := { currentStatus := { working := [], uncertain := [] } }\n"
               "/-- `ComponentPoolStatusTracker.get_working_components` -/\n"
               "def Pool.getWorkingComponents (s : Pool) (components : List Nat) : List Nat :=\n"
               "  PoolStatus.getWorkingComponents s.currentStatus 0 components\n")
    out.append("/-- Unfolds the library helpers of this file.  (Private helpers of the Python source are inlined by the\n"
               "translator, so there is nothing source-specific to unfold.) -/\n"
               "macro \"c16_unfold_helpers\" : tactic =>\n  `(tactic| try simp only [optCmp])\n")
    out.append("macro \"c16_unfold_helpers_at\" h:ident : tactic =>\n  `(tactic| try simp only [optCmp] at $h:ident)\n")
    out.append("end Extracted.BatteryStatus")
    return "\n".join(out)
