"""`_power_distributing/_component_status/*` + `_component_pool_status_tracker.py` -> Lean (C16).

What is generated (module `Frequenz.Extracted.BatteryStatus`, namespace `Extracted.BatteryStatus`):

* tables / constants read from the source: the valid battery states, relay states and inverter states of
  `BatteryStatusTracker`, the critical `ErrorLevel`, the members of `ComponentStatusEnum`, the minimum blocking
  duration passed to `BlockingStatus`, the default `max_data_age` / `max_blocking_duration` of `BatteryManager`,
  the timer interval / missed-tick policy of the data timers;
* a **state-passing translation** of the methods that make up the tracker's logic:
  `BlockingStatus.{__post_init__, block, unblock, is_blocked}`, every `_handle_status_*`, `_is_*`, `_no_critical_error`,
  `_get_current_status`, `_get_new_status_if_changed` of `BatteryStatusTracker`, the body of the `select` loop of
  `BatteryStatusTracker._run` (one iteration = `Tracker.runIteration`), `ComponentPoolStatus.get_working_components`
  and the body of the loop of `ComponentPoolStatusTracker._update_status` (`Pool.updateStatus`).

The translator handles a small subset of Python (see `MethodTr`): straight-line code, `if/elif/else`, `return`,
`continue`, assignments to locals and to (nested) attributes of `self`, calls of other translated methods, a handful
of recognised library idioms (`datetime.now(tz=…)` = the parameter `now`, `timedelta(seconds=c)`, `min`, `math.isnan`,
`next((e for e in xs if p), None)`, `x in valid_set`, `set.intersection/add/discard`, `Timer.reset()`,
`sender.send(...)`).  Logging statements (and `if`s that contain nothing else) and `assert`s are dropped.  Anything
else raises `Unsupported`; the check then treats the proofs as broken and searches for a failing input.

Time is `Int` microseconds; `None`-able values are `Option`; sets of ids are duplicate-free `List Nat`.
"""
from __future__ import annotations

import ast
import json
import pathlib

NAME = "BatteryStatus"
_BASE = "src/frequenz/sdk/microgrid/_power_distributing/"
SOURCES = [
    _BASE + "_component_status/_battery_status_tracker.py",
    _BASE + "_component_status/_blocking_status.py",
    _BASE + "_component_status/_component_status.py",
    _BASE + "_component_pool_status_tracker.py",
    _BASE + "_component_managers/_battery_manager.py",
]


class Unsupported(Exception):
    pass


def camel(name: str) -> str:
    parts = [p for p in name.strip("_").split("_") if p]
    return parts[0].lower() + "".join(p.capitalize() for p in parts[1:])


def enum_ctor(name: str) -> str:
    return camel(name.lower())


# --------------------------------------------------------------------------- schema
# python attribute -> (lean field, type).  Types: Int Bool OptInt Status OptStatus Str OptStr ListStr SetNat Nat
# or the name of a structure.  "Timer" is the ghost field holding the loop time of the last `reset()`.
STRUCTS: dict[str, dict[str, tuple[str, str]]] = {
    "Blocking": {
        "min_duration": ("minDuration", "Int"),
        "max_duration": ("maxDuration", "Int"),
        "last_blocking_duration": ("lastBlockingDuration", "Int"),
        "blocked_until": ("blockedUntil", "OptInt"),
    },
    "Stream": {
        "last_msg_timestamp": ("lastMsgTimestamp", "Int"),
        "last_msg_correct": ("lastMsgCorrect", "Bool"),
        "data_recv_timer": ("timerResetAt", "Timer"),
    },
    "Tracker": {
        "_max_data_age": ("maxDataAge", "Int"),
        "_last_status": ("lastStatus", "Status"),
        "_blocking_status": ("blocking", "Blocking"),
        "_battery": ("battery", "Stream"),
        "_inverter": ("inverter", "Stream"),
    },
    "Msg": {
        "timestamp": ("timestamp", "Int"),
        "component_state": ("componentState", "Str"),
        "relay_state": ("relayState", "Str"),
        "errors": ("errorLevels", "ListStr"),
    },
    "SpResult": {"succeeded": ("succeeded", "Bool"), "failed": ("failed", "Bool")},
    "Selected": {},
    "PoolStatus": {"working": ("working", "SetNat"), "uncertain": ("uncertain", "SetNat")},
    "Pool": {"_current_status": ("currentStatus", "PoolStatus")},
    "CompStatus": {"component_id": ("componentId", "Nat"), "value": ("value", "Status")},
}
PY_CLASS_OF = {"BlockingStatus": "Blocking", "BatteryStatusTracker": "Tracker",
               "ComponentPoolStatus": "PoolStatus", "ComponentPoolStatusTracker": "Pool"}
LEAN_TYPE = {"Int": "Int", "Bool": "Bool", "OptInt": "Option Int", "Status": "Status", "OptStatus": "Option Status",
             "Str": "String", "OptStr": "Option String", "ListStr": "List String", "SetNat": "List Nat", "Nat": "Nat",
             "Unit": "Unit", "OptPoolStatus": "Option PoolStatus", "PyStr": "String"}
PARAM_TYPES = {"BatteryData": "Msg", "InverterData": "Msg", "BatteryData | InverterData": "Msg", "ComponentData": "Msg",
               "datetime": "Int", "SetPowerResult": "SpResult", "abc.Set[int]": "SetNat", "set[int]": "SetNat",
               "_ComponentStreamStatus": "Stream", "str": "PyStr", "bool": "Bool", "timedelta": "Int"}
RET_TYPES = {"None": "Unit", "bool": "Bool", "timedelta": "Int", "ComponentStatusEnum": "Status",
             "ComponentStatusEnum | None": "OptStatus", "set[int]": "SetNat", "abc.Set[int]": "SetNat"}


def lean_ty(t: str) -> str:
    return LEAN_TYPE.get(t, t)


def timedelta_us(node: ast.expr) -> int:
    """`timedelta(seconds=c)` / `timedelta(milliseconds=c)` ... -> integer microseconds."""
    if not (isinstance(node, ast.Call) and ast.unparse(node.func) in ("timedelta", "datetime.timedelta")):
        raise Unsupported(f"expected timedelta(...), got {ast.unparse(node)}")
    scale = {"days": 86400_000_000, "hours": 3600_000_000, "minutes": 60_000_000, "seconds": 1_000_000,
             "milliseconds": 1000, "microseconds": 1}
    total = 0.0
    if node.args:
        raise Unsupported("positional timedelta arguments")
    for kw in node.keywords:
        if kw.arg not in scale or not isinstance(kw.value, ast.Constant) or isinstance(kw.value.value, bool):
            raise Unsupported(f"timedelta argument {ast.unparse(kw)}")
        total += float(kw.value.value) * scale[kw.arg]
    if total != int(total):
        raise Unsupported("timedelta is not a whole number of microseconds")
    return int(total)


def is_logging(stmt: ast.stmt) -> bool:
    if isinstance(stmt, ast.Expr) and isinstance(stmt.value, ast.Call):
        f = ast.unparse(stmt.value.func)
        return f.startswith("_logger.") or f.startswith("logging.")
    if isinstance(stmt, ast.Expr) and isinstance(stmt.value, ast.Constant):
        return True  # docstring / bare constant
    if isinstance(stmt, (ast.Assert, ast.Pass)):
        return True
    if isinstance(stmt, ast.If):
        return all(is_logging(s) for s in stmt.body) and all(is_logging(s) for s in stmt.orelse)
    return False


class MethodInfo:
    def __init__(self, cls: str, node: ast.FunctionDef | ast.AsyncFunctionDef):
        self.cls = cls  # lean struct name
        self.node = node
        self.pyname = node.name
        self.lean = f"{cls}.{camel(node.name)}"
        self.static = any(ast.unparse(d) == "staticmethod" for d in node.decorator_list)
        self.params: list[tuple[str, str]] = []
        for a in (node.args.args if self.static else node.args.args[1:]):
            ann = ast.unparse(a.annotation) if a.annotation is not None else ""
            if ann not in PARAM_TYPES:
                raise Unsupported(f"{node.name}: parameter {a.arg}: {ann!r}")
            self.params.append((a.arg, PARAM_TYPES[ann]))
        ret = ast.unparse(node.returns) if node.returns is not None else "None"
        if ret not in RET_TYPES:
            raise Unsupported(f"{node.name}: return type {ret!r}")
        self.ret = RET_TYPES[ret]
        self.mutating = False
        self.body: list[ast.stmt] = list(node.body)
        # does it change an object it received as a parameter?  Such helpers are inlined at their call sites.
        pnames = {a for a, _ in self.params}
        self.param_mut = False
        for n in ast.walk(ast.Module(body=self.body, type_ignores=[])):
            if isinstance(n, (ast.Assign, ast.AnnAssign, ast.AugAssign)):
                targets = n.targets if isinstance(n, ast.Assign) else [n.target]
                if any(isinstance(t, ast.Attribute) and root_name(t) in pnames for t in targets):
                    self.param_mut = True
            elif isinstance(n, ast.Call) and isinstance(n.func, ast.Attribute) and n.func.attr in ("reset", "add", "discard") \
                    and root_name(n.func.value) in pnames:
                self.param_mut = True

    def result_type(self) -> str:
        if not self.mutating:
            return lean_ty(self.ret)
        return self.cls if self.ret == "Unit" else f"{self.cls} × {lean_ty(self.ret)}"


def root_name(node: ast.expr) -> str | None:
    while isinstance(node, ast.Attribute):
        node = node.value
    return node.id if isinstance(node, ast.Name) else None


class Registry:
    def __init__(self) -> None:
        self.methods: dict[tuple[str, str], MethodInfo] = {}
        self.tables: dict[str, str] = {}  # python class attribute name -> lean def name (string lists)
        self.class_nodes: dict[str, ast.ClassDef] = {}  # lean struct name -> python class
        self.contract: set[tuple[str, str]] = set()  # entry points the lemmas are stated about

    def add(self, cls: str, node: ast.FunctionDef | ast.AsyncFunctionDef, contract: bool = True) -> MethodInfo:
        mi = MethodInfo(cls, node)
        self.methods[(cls, node.name)] = mi
        if contract:
            self.contract.add((cls, node.name))
        return mi

    def get(self, cls: str, name: str) -> MethodInfo:
        if (cls, name) not in self.methods:
            raise Unsupported(f"call of untranslated method {cls}.{name}")
        return self.methods[(cls, name)]

    def helper_call(self, cls: str, n: ast.Call) -> tuple[str, str] | None:
        """`self._m(...)`, `ClassName._m(...)` or `self.a.b.m(...)` -> (struct, method) if `m` is a method we know of."""
        if not isinstance(n.func, ast.Attribute):
            return None
        recv, meth = n.func.value, n.func.attr
        if isinstance(recv, ast.Name) and cls in self.class_nodes and recv.id == self.class_nodes[cls].name:
            return (cls, meth)
        p = self_path(recv)
        if p is None:
            return None
        try:
            ty = resolve_path_type(cls, p) if p else cls
        except Unsupported:
            return None
        return (ty, meth)

    def discover(self, cls: str, bodies: list[list[ast.stmt]]) -> None:
        """Register (as non-contract helpers) the methods of the same classes that the given code calls, transitively."""
        work = [(cls, b) for b in bodies]
        while work:
            c, body = work.pop()
            for n in ast.walk(ast.Module(body=body, type_ignores=[])):
                if not isinstance(n, ast.Call):
                    continue
                hc = self.helper_call(c, n)
                if hc is None or hc in self.methods or hc[0] not in self.class_nodes:
                    continue
                node = next((m for m in self.class_nodes[hc[0]].body
                             if isinstance(m, (ast.FunctionDef, ast.AsyncFunctionDef)) and m.name == hc[1]), None)
                if node is None or isinstance(node, ast.AsyncFunctionDef):
                    continue
                mi = self.add(hc[0], node, contract=False)
                work.append((hc[0], mi.body))

    def callees(self, mi: MethodInfo) -> list[tuple[str, str]]:
        out = []
        for n in ast.walk(ast.Module(body=mi.body, type_ignores=[])):
            if isinstance(n, ast.Call):
                hc = self.helper_call(mi.cls, n)
                if hc is not None and hc in self.methods and hc not in out and hc != (mi.cls, mi.pyname):
                    out.append(hc)
        return out


def self_path(node: ast.expr) -> list[str] | None:
    """`self.a.b` -> ['a', 'b'];  None if not rooted at `self`."""
    names: list[str] = []
    while isinstance(node, ast.Attribute):
        names.append(node.attr)
        node = node.value
    if isinstance(node, ast.Name) and node.id == "self":
        return list(reversed(names))
    return None


def compute_mutating(reg: Registry) -> None:
    changed = True
    while changed:
        changed = False
        for mi in reg.methods.values():
            if mi.mutating:
                continue
            for n in ast.walk(ast.Module(body=mi.body, type_ignores=[])):
                hit = False
                if isinstance(n, (ast.Assign, ast.AnnAssign, ast.AugAssign)):
                    targets = n.targets if isinstance(n, ast.Assign) else [n.target]
                    hit = any(self_path(t) is not None for t in targets)
                elif isinstance(n, ast.Call) and isinstance(n.func, ast.Attribute):
                    p = self_path(n.func.value)
                    hc = reg.helper_call(mi.cls, n)
                    if hc is not None and hc in reg.methods and reg.methods[hc].param_mut \
                            and any(self_path(a) is not None for a in n.args):
                        hit = True
                    elif hc is not None and hc in reg.methods and reg.methods[hc].mutating and hc[0] == mi.cls and not p:
                        hit = True
                    elif p is not None:
                        meth = n.func.attr
                        if meth in ("reset", "add", "discard"):
                            hit = True
                        else:
                            try:
                                ty = resolve_path_type(mi.cls, p)
                            except Unsupported:
                                ty = None
                            if ty is not None and (ty, meth) in reg.methods and reg.methods[(ty, meth)].mutating:
                                hit = True
                if hit:
                    mi.mutating = True
                    changed = True
                    break


def resolve_path_type(cls: str, path: list[str]) -> str:
    ty = cls
    for a in path:
        if ty not in STRUCTS or a not in STRUCTS[ty]:
            raise Unsupported(f"unknown attribute {a} of {ty}")
        ty = STRUCTS[ty][a][1]
    return ty


def lean_path(cls: str, path: list[str]) -> list[str]:
    out, ty = [], cls
    for a in path:
        if ty not in STRUCTS or a not in STRUCTS[ty]:
            raise Unsupported(f"unknown attribute {a} of {ty}")
        out.append(STRUCTS[ty][a][0])
        ty = STRUCTS[ty][a][1]
    return out


def set_path(path: list[str], value: str) -> str:
    """Lean term for `s` with the (nested) field `path` replaced by `value`."""
    def go(prefix: str, p: list[str]) -> str:
        if len(p) == 1:
            return f"{{ {prefix} with {p[0]} := {value} }}"
        return f"{{ {prefix} with {p[0]} := {go(prefix + '.' + p[0], p[1:])} }}"
    return go("s", path)


class MethodTr:
    """Translate one method (or loop body) to a Lean term in continuation-passing style."""

    def __init__(self, reg: Registry, mi: MethodInfo, mode: str = "method", extra: dict | None = None):
        self.reg = reg
        self.mi = mi
        self.cls = mi.cls
        self.mode = mode  # "method" | "iteration" (select-loop body) | "poolloop"
        self.extra = extra or {}
        self.counter = 0
        self.prefix = ""  # prepended to the Lean names of locals of an inlined helper
        self.inl = 0

    # ------------------------------------------------------------------ expressions
    def expr(self, n: ast.expr, env: dict[str, tuple[str, str]]) -> tuple[str, str]:
        if isinstance(n, ast.Constant):
            if n.value is True:
                return "true", "Bool"
            if n.value is False:
                return "false", "Bool"
            if n.value is None:
                return "none", "None"
            if isinstance(n.value, int):
                return f"({n.value} : Int)", "Int"
            if isinstance(n.value, str):
                return json.dumps(n.value), "PyStr"
            raise Unsupported(f"constant {n.value!r}")
        if isinstance(n, ast.Name):
            if n.id in env:
                return env[n.id]
            raise Unsupported(f"unknown name {n.id}")
        if isinstance(n, ast.Attribute):
            src = ast.unparse(n)
            if src.startswith("ComponentStatusEnum."):
                return f"Status.{enum_ctor(n.attr)}", "Status"
            if src.startswith("ErrorLevel."):
                return f'"{n.attr}"', "Str"
            p = self_path(n)
            if p is not None:
                if p[-1] == "_timedelta_zero":
                    return "(0 : Int)", "Int"
                return "s." + ".".join(lean_path(self.cls, p)), resolve_path_type(self.cls, p)
            # attribute of a local (message, result, status, selected)
            if isinstance(n.value, ast.Name) and n.value.id in env:
                code, ty = env[n.value.id]
                if ty == "Selected" and n.attr == "message":
                    raise Unsupported("selected.message outside a handler call")
                if ty == "ErrElem" and n.attr == "level":
                    return code, "Str"
                if ty in STRUCTS and n.attr in STRUCTS[ty]:
                    f, fty = STRUCTS[ty][n.attr]
                    return f"{code}.{f}", fty
            raise Unsupported(f"attribute {src}")
        if isinstance(n, ast.UnaryOp) and isinstance(n.op, ast.Not):
            c, t = self.expr(n.operand, env)
            self.want(t, "Bool", n)
            return f"(!{c})", "Bool"
        if isinstance(n, ast.UnaryOp) and isinstance(n.op, ast.USub):
            c, t = self.expr(n.operand, env)
            self.want(t, "Int", n)
            return f"(-{c})", "Int"
        if isinstance(n, ast.BoolOp):
            parts = []
            for v in n.values:
                c, t = self.expr(v, env)
                self.want(t, "Bool", v)
                parts.append(c)
            op = " && " if isinstance(n.op, ast.And) else " || "
            return "(" + op.join(parts) + ")", "Bool"
        if isinstance(n, ast.BinOp):
            a, ta = self.expr(n.left, env)
            b, tb = self.expr(n.right, env)
            self.want(ta, "Int", n.left)
            self.want(tb, "Int", n.right)
            ops = {ast.Add: "+", ast.Sub: "-", ast.Mult: "*"}
            if type(n.op) not in ops:
                raise Unsupported(f"operator in {ast.unparse(n)}")
            return f"({a} {ops[type(n.op)]} {b})", "Int"
        if isinstance(n, ast.Compare):
            if len(n.ops) != 1:
                raise Unsupported("chained comparison")
            return self.compare(n.left, n.ops[0], n.comparators[0], env)
        if isinstance(n, ast.Call):
            return self.call(n, env)
        if isinstance(n, ast.IfExp):
            c, tc = self.expr(n.test, env)
            self.want(tc, "Bool", n.test)
            a, ta = self.expr(n.body, env)
            b, tb = self.expr(n.orelse, env)
            if ta != tb:
                if ta == "None" and tb.startswith("Opt"):
                    ta = tb
                elif tb == "None" and ta.startswith("Opt"):
                    tb = ta
                elif ta.startswith("Opt") and tb == ta[3:]:
                    b, tb = f"(some {b})", ta
                elif tb.startswith("Opt") and ta == tb[3:]:
                    a, ta = f"(some {a})", tb
                else:
                    raise Unsupported(f"conditional expression of types {ta} / {tb}")
            return f"(if {c} then {a} else {b})", ta
        raise Unsupported(f"expression {ast.unparse(n)}")

    def want(self, got: str, want: str, node: ast.AST) -> None:
        if got != want:
            raise Unsupported(f"type {got}, expected {want}: {ast.unparse(node)}")

    def compare(self, left: ast.expr, op: ast.cmpop, right: ast.expr, env) -> tuple[str, str]:
        # membership tests
        if isinstance(op, (ast.In, ast.NotIn)):
            rsrc = ast.unparse(right)
            lsrc = ast.unparse(left)
            if lsrc == "self.battery_id" and isinstance(right, ast.Attribute) and isinstance(right.value, ast.Name) \
                    and right.value.id in env and env[right.value.id][1] == "SpResult":
                code = f"{env[right.value.id][0]}.{STRUCTS['SpResult'][right.attr][0]}"
            else:
                tab = rsrc.split(".")[-1]
                if not (rsrc in (f"BatteryStatusTracker.{tab}", f"self.{tab}", f"type(self).{tab}") and tab in self.reg.tables):
                    raise Unsupported(f"membership in {rsrc}")
                c, t = self.expr(left, env)
                self.want(t, "Str", left)
                code = f"({self.reg.tables[tab]}.contains {c})"
            return (code if isinstance(op, ast.In) else f"(!{code})"), "Bool"
        if isinstance(op, (ast.Is, ast.IsNot)):
            if not (isinstance(right, ast.Constant) and right.value is None):
                raise Unsupported("`is` with a non-None operand")
            c, t = self.expr(left, env)
            if not t.startswith("Opt"):
                raise Unsupported(f"`is None` on non-optional {ast.unparse(left)} : {t}")
            return (f"{c}.isNone" if isinstance(op, ast.Is) else f"{c}.isSome"), "Bool"
        a, ta = self.expr(left, env)
        b, tb = self.expr(right, env)
        sym = {ast.Gt: ">", ast.Lt: "<", ast.GtE: "≥", ast.LtE: "≤", ast.Eq: "=", ast.NotEq: "≠"}
        if type(op) not in sym:
            raise Unsupported("comparison operator")
        if ta == "Int" and tb == "Int":
            return f"decide ({a} {sym[type(op)]} {b})", "Bool"
        if ta == "OptInt" and tb == "Int" and isinstance(op, (ast.Gt, ast.Lt, ast.GtE, ast.LtE)):
            # Python would raise on None; every use is guarded by an `is None` test before.
            return f"(optCmp (fun a b => decide (a {sym[type(op)]} b)) {a} {b})", "Bool"
        if ta == tb and ta in ("Status", "Str", "Bool") and isinstance(op, (ast.Eq, ast.NotEq)):
            return (f"({a} == {b})" if isinstance(op, ast.Eq) else f"({a} != {b})"), "Bool"
        raise Unsupported(f"comparison {ast.unparse(left)} : {ta} vs {ast.unparse(right)} : {tb}")

    def call(self, n: ast.Call, env) -> tuple[str, str]:
        f = ast.unparse(n.func)
        if f in ("datetime.now",):
            return "now", "Int"
        if f in ("timedelta", "datetime.timedelta"):
            return f"({timedelta_us(n)} : Int)", "Int"
        if f in ("min", "max") and len(n.args) == 2 and not n.keywords:
            a, ta = self.expr(n.args[0], env)
            b, tb = self.expr(n.args[1], env)
            self.want(ta, "Int", n.args[0])
            self.want(tb, "Int", n.args[1])
            return f"({'pyMinInt' if f == 'min' else 'pyMaxInt'} {a} {b})", "Int"
        if f == "math.isnan" and len(n.args) == 1:
            a = n.args[0]
            if isinstance(a, ast.Attribute) and a.attr == "capacity" and isinstance(a.value, ast.Name) \
                    and a.value.id in env and env[a.value.id][1] == "Msg":
                return f"{env[a.value.id][0]}.capacityIsNaN", "Bool"
            raise Unsupported(f"math.isnan({ast.unparse(a)})")
        if f == "len" and len(n.args) == 1:
            c, t = self.expr(n.args[0], env)
            self.want(t, "SetNat", n.args[0])
            return f"({c}.length : Int)", "Int"
        if f == "next" and len(n.args) == 2 and isinstance(n.args[0], ast.GeneratorExp):
            g = n.args[0]
            if not (isinstance(n.args[1], ast.Constant) and n.args[1].value is None and len(g.generators) == 1):
                raise Unsupported("next(...) form")
            gen = g.generators[0]
            if not (isinstance(gen.target, ast.Name) and isinstance(g.elt, ast.Name) and g.elt.id == gen.target.id
                    and len(gen.ifs) == 1 and not gen.is_async):
                raise Unsupported("next(generator) form")
            xs, t = self.expr(gen.iter, env)
            self.want(t, "ListStr", gen.iter)
            env2 = dict(env)
            env2[gen.target.id] = (gen.target.id, "ErrElem")
            c, tc = self.expr(gen.ifs[0], env2)
            self.want(tc, "Bool", gen.ifs[0])
            return f"({xs}.find? (fun {gen.target.id} => {c}))", "OptStr"
        if f == "selected_from" and self.mode == "iteration" and len(n.args) == 2:
            a0, a1 = n.args
            if not (isinstance(a0, ast.Name) and a0.id in env and env[a0.id][1] == "Selected" and isinstance(a1, ast.Name)
                    and a1.id in self.extra["sources"]):
                raise Unsupported(f"selected_from({ast.unparse(a0)}, {ast.unparse(a1)})")
            return f"({env[a0.id][0]}.src == Src.{camel(a1.id)})", "Bool"
        if isinstance(n.func, ast.Attribute):
            recv, meth = n.func.value, n.func.attr
            p = self_path(recv)
            if p is None and isinstance(recv, ast.Name) and self.cls in self.reg.class_nodes \
                    and recv.id == self.reg.class_nodes[self.cls].name:
                p = []  # ClassName._static_helper(...)
            if p is not None:
                ty = resolve_path_type(self.cls, p) if p else self.cls
                if ty == "SetNat" and meth == "intersection" and len(n.args) == 1:
                    a, ta = self.expr(n.args[0], env)
                    self.want(ta, "SetNat", n.args[0])
                    return f"(setInter s.{'.'.join(lean_path(self.cls, p))} {a})", "SetNat"
                mi = self.reg.get(ty, meth)
                if mi.mutating or mi.param_mut:
                    raise Unsupported(f"state-changing call inside an expression: {ast.unparse(n)}")
                recv_code = "s" if not p else "s." + ".".join(lean_path(self.cls, p))
                return f"({mi.lean} {recv_code} now{self.args(mi, n, env)})", mi.ret
        raise Unsupported(f"call {ast.unparse(n)}")

    def args(self, mi: MethodInfo, n: ast.Call, env) -> str:
        if n.keywords or len(n.args) != len(mi.params):
            raise Unsupported(f"arguments of {ast.unparse(n)}")
        out = ""
        for a, (_, pty) in zip(n.args, mi.params):
            if isinstance(a, ast.Attribute) and a.attr == "message" and isinstance(a.value, ast.Name) \
                    and a.value.id in env and env[a.value.id][1] == "Selected":
                field = {"Msg": "msg", "SpResult": "result"}.get(pty)
                if field is None:
                    raise Unsupported(f"selected.message passed as {pty}")
                out += f" {env[a.value.id][0]}.{field}"
                continue
            c, t = self.expr(a, env)
            self.want(t, pty, a)
            out += f" {c}"
        return out

    # ------------------------------------------------------------------ statements
    def fresh(self) -> str:
        self.counter += 1
        return f"r{self.counter}"

    def finish(self, env, value: tuple[str, str] | None) -> str:
        """Term returned when the function ends (value = translated `return` operand or None)."""
        if self.mode in ("iteration", "poolloop"):
            return "(s, sent)"
        ret = self.mi.ret
        if ret == "Unit":
            if value is not None and value[1] != "None":
                raise Unsupported(f"{self.mi.pyname}: returns a value but is annotated -> None")
            if not self.mi.mutating:
                raise Unsupported(f"{self.mi.pyname}: neither result nor effect")
            return "s"
        if value is None:
            if ret.startswith("Opt"):
                value = ("none", "None")
            else:
                raise Unsupported(f"{self.mi.pyname}: falls off the end without a value")
        code, ty = value
        if ret.startswith("Opt"):
            base = ret[3:]
            if ty == "None":
                code = "none"
            elif ty == base:
                code = f"(some {code})"
            elif ty != ret:
                raise Unsupported(f"{self.mi.pyname}: returns {ty}, expected {ret}")
        elif ty != ret:
            raise Unsupported(f"{self.mi.pyname}: returns {ty}, expected {ret}")
        return f"(s, {code})" if self.mi.mutating else code

    def coerce(self, code: str, ty: str, target: str, node: ast.AST) -> str:
        if ty == target:
            return code
        if target.startswith("Opt"):
            if ty == "None":
                return "none"
            if ty == target[3:]:
                return f"(some {code})"
        raise Unsupported(f"cannot store {ty} into {target}: {ast.unparse(node)}")

    def spath(self, node: ast.expr, env) -> list[str] | None:
        """Python attribute path from `self` of an expression rooted at `self` or at an alias parameter of an inlined helper."""
        p = self_path(node)
        if p is not None:
            return p
        names: list[str] = []
        while isinstance(node, ast.Attribute):
            names.append(node.attr)
            node = node.value
        if isinstance(node, ast.Name) and node.id in env.get("$alias", {}):
            return list(env["$alias"][node.id]) + list(reversed(names))
        return None

    def mut_call(self, n: ast.Call, env, ind: str) -> tuple[list[str], tuple[str, str] | None]:
        """A state-changing call in statement position -> (lines updating `s`, returned value)."""
        if not isinstance(n.func, ast.Attribute):
            raise Unsupported(f"call {ast.unparse(n)}")
        p = self.spath(n.func.value, env)
        meth = n.func.attr
        if p is None:
            raise Unsupported(f"call {ast.unparse(n)}")
        ty = resolve_path_type(self.cls, p) if p else self.cls
        lp = lean_path(self.cls, p)
        if ty == "Timer" and meth == "reset" and not n.args and not n.keywords:
            return [f"{ind}let s := {set_path(lp, 'now')}"], None
        if ty == "SetNat" and meth in ("add", "discard") and len(n.args) == 1 and not n.keywords:
            a, ta = self.expr(n.args[0], env)
            self.want(ta, "Nat", n.args[0])
            fn = "setAdd" if meth == "add" else "setDiscard"
            return [f"{ind}let s := {set_path(lp, f'({fn} s.' + '.'.join(lp) + f' {a})')}"], None
        mi = self.reg.get(ty, meth)
        recv = "s" if not lp else "s." + ".".join(lp)
        callc = f"{mi.lean} {recv} now{self.args(mi, n, env)}"
        if not mi.mutating:
            c = f"({callc})"
            return [], (c, mi.ret)
        if mi.ret == "Unit":
            new = f"({callc})"
            return [f"{ind}let s := {set_path(lp, new) if lp else new}"], None
        r = self.fresh()
        lines = [f"{ind}let {r} := {callc}"]
        lines.append(f"{ind}let s := {set_path(lp, r + '.1') if lp else r + '.1'}")
        return lines, (f"{r}.2", mi.ret)

    def inline_target(self, v: ast.expr) -> MethodInfo | None:
        """Is `v` a call of a helper that changes an object passed as argument (to be inlined)?"""
        if isinstance(v, ast.Call):
            hc = self.reg.helper_call(self.cls, v)
            if hc is not None and hc in self.reg.methods and self.reg.methods[hc].param_mut and hc[0] == self.cls:
                return self.reg.methods[hc]
        return None

    def is_mut_call(self, v: ast.expr, env=None) -> bool:
        if isinstance(v, ast.Await):
            return False
        if isinstance(v, ast.Call) and isinstance(v.func, ast.Attribute):
            if self.inline_target(v) is not None:
                return False
            p = self.spath(v.func.value, env or {})
            if p is None:
                hc = self.reg.helper_call(self.cls, v)
                if hc is not None and hc in self.reg.methods and self.reg.methods[hc].mutating:
                    raise Unsupported(f"state-changing static call {ast.unparse(v)}")
                return False
            meth = v.func.attr
            try:
                ty = resolve_path_type(self.cls, p) if p else self.cls
            except Unsupported:
                return False
            if ty == "Timer" or (ty == "SetNat" and meth in ("add", "discard")):
                return True
            return (ty, meth) in self.reg.methods and self.reg.methods[(ty, meth)].mutating
        return False

    def end(self, env, value, ind: str, k) -> str:
        """The function (or the inlined helper) ends here, returning `value` (or nothing)."""
        if k is not None:
            return k(env, value, ind)
        return ind + self.finish(env, value)

    def inline(self, mi: MethodInfo, call: ast.Call, target: str | None, rest, env, ind: str, k) -> str:
        """Inline `mi` (a helper that changes one of its arguments) at a statement-level call."""
        if call.keywords or len(call.args) != len(mi.params):
            raise Unsupported(f"arguments of {ast.unparse(call)}")
        self.inl += 1
        caller_prefix, callee_prefix = self.prefix, f"h{self.inl}_"
        cenv: dict = {"$alias": {}}
        lines: list[str] = []
        for a, (pname, pty) in zip(call.args, mi.params):
            ap = self.spath(a, env)
            if ap is not None and pty in STRUCTS:
                if resolve_path_type(self.cls, ap) != pty:
                    raise Unsupported(f"argument {ast.unparse(a)} is not a {pty}")
                cenv["$alias"][pname] = ap
                cenv[pname] = ("s." + ".".join(lean_path(self.cls, ap)), pty)
            else:
                c, t = self.expr(a, env)
                self.want(t, pty, a)
                if pty == "PyStr":
                    cenv[pname] = (c, pty)
                else:
                    lines.append(f"{ind}let {callee_prefix}{pname} := {c}")
                    cenv[pname] = (callee_prefix + pname, pty)

        def back(_cenv, value, ind2: str) -> str:
            saved = self.prefix
            self.prefix = caller_prefix
            try:
                env2 = dict(env)
                pre = ""
                if target is not None:
                    if value is None or value[1] == "None":
                        env2[target] = ("none", "None")
                    else:
                        pre = f"{ind2}let {self.prefix}{target} := {value[0]}\n"
                        env2[target] = (self.prefix + target, value[1])
                return pre + self.stmts(rest, env2, ind2, k)
            finally:
                self.prefix = saved

        self.prefix = callee_prefix
        try:
            body = self.stmts(mi.body, cenv, ind, back)
        finally:
            self.prefix = caller_prefix
        return "\n".join(lines + [body])

    @staticmethod
    def search_loop(assign: ast.stmt, loop: ast.stmt):
        """`x = None` + `for v in XS: if C: x = v; break`  ==  `x = next((v for v in XS if C), None)`."""
        if not (isinstance(assign, ast.Assign) and len(assign.targets) == 1 and isinstance(assign.targets[0], ast.Name)
                and isinstance(assign.value, ast.Constant) and assign.value.value is None):
            return None
        x = assign.targets[0].id
        if not (isinstance(loop, ast.For) and not loop.orelse and isinstance(loop.target, ast.Name)):
            return None
        body = [b for b in loop.body if not is_logging(b)]
        if len(body) != 1 or not isinstance(body[0], ast.If) or body[0].orelse:
            return None
        ib = [b for b in body[0].body if not is_logging(b)]
        if len(ib) != 2 or not isinstance(ib[1], ast.Break):
            return None
        st = ib[0]
        if not (isinstance(st, ast.Assign) and len(st.targets) == 1 and isinstance(st.targets[0], ast.Name)
                and st.targets[0].id == x and isinstance(st.value, ast.Name) and st.value.id == loop.target.id):
            return None
        gen = ast.GeneratorExp(elt=ast.Name(id=loop.target.id, ctx=ast.Load()),
                               generators=[ast.comprehension(target=loop.target, iter=loop.iter, ifs=[body[0].test],
                                                             is_async=0)])
        new = ast.Assign(targets=[assign.targets[0]],
                         value=ast.Call(func=ast.Name(id="next", ctx=ast.Load()),
                                        args=[gen, ast.Constant(value=None)], keywords=[]))
        return ast.fix_missing_locations(ast.copy_location(new, assign))

    @staticmethod
    def match_to_if(m: ast.Match) -> list[ast.stmt]:
        """`match x: case V: … case _: …` with value patterns -> the equivalent if/elif/else chain."""
        chain: list[ast.stmt] = []
        for case in reversed(m.cases):
            pat = case.pattern
            if isinstance(pat, ast.MatchAs) and pat.pattern is None and pat.name is None and case.guard is None:
                chain = list(case.body)
                continue
            if isinstance(pat, ast.MatchValue):
                tests: list[ast.expr] = [ast.Compare(left=m.subject, ops=[ast.Eq()], comparators=[pat.value])]
            elif isinstance(pat, ast.MatchOr) and all(isinstance(q, ast.MatchValue) for q in pat.patterns):
                tests = [ast.BoolOp(op=ast.Or(), values=[ast.Compare(left=m.subject, ops=[ast.Eq()], comparators=[q.value])
                                                          for q in pat.patterns])]
            else:
                raise Unsupported(f"match pattern {ast.unparse(pat)}")
            if case.guard is not None:
                tests.append(case.guard)
            test = tests[0] if len(tests) == 1 else ast.BoolOp(op=ast.And(), values=tests)
            node = ast.If(test=test, body=list(case.body), orelse=chain)
            chain = [ast.fix_missing_locations(ast.copy_location(node, m))]
        return chain

    def stmts(self, ss: list[ast.stmt], env: dict, ind: str, k=None) -> str:
        if not ss:
            return self.end(env, None, ind, k)
        s, rest = ss[0], ss[1:]
        if is_logging(s):
            return self.stmts(rest, env, ind, k)
        if isinstance(s, ast.AnnAssign) and s.value is None:
            return self.stmts(rest, env, ind, k)  # bare declaration `x: T`
        if rest:
            merged = self.search_loop(s, rest[0])
            if merged is not None:
                return self.stmts([merged] + rest[1:], env, ind, k)
        if isinstance(s, ast.Match):
            return self.stmts(self.match_to_if(s) + rest, env, ind, k)
        if isinstance(s, ast.Return):
            if self.mode != "method" and k is None:
                raise Unsupported("return inside a loop body")
            return self.end(env, None if s.value is None else self.ret_value(s.value, env, ind), ind, k)
        if isinstance(s, ast.Continue):
            if self.mode not in ("iteration", "poolloop") or k is not None:
                raise Unsupported("continue outside the translated loop")
            return ind + self.finish(env, None)
        if isinstance(s, ast.If):
            if isinstance(s.test, ast.Constant) and s.test.value is True:
                return self.stmts(list(s.body) + rest, env, ind, k)
            c, t = self.expr(s.test, env)
            self.want(t, "Bool", s.test)
            th = self.stmts(list(s.body) + rest, env, ind + "  ", k)
            el = self.stmts(list(s.orelse) + rest, env, ind + "  ", k)
            return f"{ind}if {c} then\n{th}\n{ind}else\n{el}"
        if isinstance(s, (ast.Assign, ast.AnnAssign)):
            targets = s.targets if isinstance(s, ast.Assign) else [s.target]
            value = s.value
            if len(targets) != 1 or value is None:
                raise Unsupported(f"assignment {ast.unparse(s)}")
            tgt = targets[0]
            lines: list[str] = []
            callee = self.inline_target(value)
            if callee is not None:
                if not isinstance(tgt, ast.Name):
                    raise Unsupported(f"assignment {ast.unparse(s)}")
                return self.inline(callee, value, tgt.id, rest, env, ind, k)  # type: ignore[arg-type]
            if self.is_mut_call(value, env):
                lines, val = self.mut_call(value, env, ind)  # type: ignore[arg-type]
                if val is None:
                    raise Unsupported(f"assignment of a call without result: {ast.unparse(s)}")
                code, ty = val
            else:
                code, ty = self.expr(value, env)
            env = dict(env)
            if isinstance(tgt, ast.Name):
                if ty == "None":
                    env[tgt.id] = ("none", "None")  # typed at its first use; no binding emitted
                else:
                    lines.append(f"{ind}let {self.prefix}{tgt.id} := {code}")
                    env[tgt.id] = (self.prefix + tgt.id, ty)
            else:
                p = self.spath(tgt, env)
                if p is None:
                    raise Unsupported(f"assignment target {ast.unparse(tgt)}")
                if p[-1] == "_timedelta_zero":
                    if code != "(0 : Int)":
                        raise Unsupported(f"_timedelta_zero is not zero: {ast.unparse(s)}")
                    return self.stmts(rest, env, ind, k)
                fty = resolve_path_type(self.cls, p)
                lines.append(f"{ind}let s := {set_path(lean_path(self.cls, p), self.coerce(code, ty, fty, s))}")
            return "\n".join(lines + [self.stmts(rest, env, ind, k)])
        if isinstance(s, ast.Expr):
            v = s.value
            if isinstance(v, ast.Await):
                return self.send(v.value, rest, env, ind, k)
            callee = self.inline_target(v)
            if callee is not None:
                return self.inline(callee, v, None, rest, env, ind, k)  # type: ignore[arg-type]
            if isinstance(v, ast.Call) and self.is_mut_call(v, env):
                lines, _ = self.mut_call(v, env, ind)
                return "\n".join(lines + [self.stmts(rest, env, ind, k)])
            if isinstance(v, ast.Call):
                # a pure call whose result is dropped: no effect
                self.expr(v, env)
                return self.stmts(rest, env, ind, k)
        raise Unsupported(f"statement {ast.unparse(s)[:80]}")

    def ret_value(self, v: ast.expr, env, ind: str) -> tuple[str, str]:
        if self.is_mut_call(v, env) or self.inline_target(v) is not None:
            raise Unsupported("return of a state-changing call")
        return self.expr(v, env)

    def send(self, call: ast.expr, rest, env, ind: str, k=None) -> str:
        if not (isinstance(call, ast.Call) and isinstance(call.func, ast.Attribute) and call.func.attr == "send"
                and len(call.args) == 1 and not call.keywords):
            raise Unsupported(f"await {ast.unparse(call)}")
        if k is not None:
            raise Unsupported("await inside an inlined helper")
        arg = call.args[0]
        if self.mode == "iteration":
            if not (isinstance(arg, ast.Call) and ast.unparse(arg.func) == "ComponentStatus" and len(arg.args) == 2
                    and ast.unparse(arg.args[0]) == "self.battery_id" and ast.unparse(call.func.value) == "status_sender"):
                raise Unsupported(f"send of {ast.unparse(arg)}")
            c, t = self.expr(arg.args[1], env)
            c = self.coerce(c, t, "OptStatus", arg)
        elif self.mode == "poolloop":
            if ast.unparse(call.func.value) != "self._component_status_sender":
                raise Unsupported(f"send on {ast.unparse(call.func.value)}")
            c, t = self.expr(arg, env)
            c = self.coerce(c, t, "OptPoolStatus", arg)
        else:
            raise Unsupported("await in a method")
        env = dict(env)
        return f"{ind}let sent := {c}\n" + self.stmts(rest, env, ind, k)


# --------------------------------------------------------------------------- top level
def find_class(mod: ast.Module, name: str) -> ast.ClassDef:
    for n in mod.body:
        if isinstance(n, ast.ClassDef) and n.name == name:
            return n
    raise Unsupported(f"class {name} not found")


def find_method(cls: ast.ClassDef, name: str) -> ast.FunctionDef | ast.AsyncFunctionDef:
    for n in cls.body:
        if isinstance(n, (ast.FunctionDef, ast.AsyncFunctionDef)) and n.name == name:
            return n
    raise Unsupported(f"method {cls.name}.{name} not found")


def enum_name_set(cls: ast.ClassDef, attr: str, enum: str) -> list[str]:
    for n in cls.body:
        tgt = n.target if isinstance(n, ast.AnnAssign) else (n.targets[0] if isinstance(n, ast.Assign) else None)
        if isinstance(tgt, ast.Name) and tgt.id == attr:
            v = n.value
            if not isinstance(v, (ast.Set, ast.List, ast.Tuple)):
                raise Unsupported(f"{attr} is not a set display")
            out = []
            for e in v.elts:
                src = ast.unparse(e)
                if not src.startswith(enum + "."):
                    raise Unsupported(f"{attr}: element {src}")
                out.append(src.split(".", 1)[1])
            return sorted(set(out))
    raise Unsupported(f"{attr} not found")


def str_list(xs: list[str]) -> str:
    return "[" + ", ".join(f'"{x}"' for x in xs) + "]"


def emit_def(reg: Registry, mi: MethodInfo) -> str:
    tr = MethodTr(reg, mi)
    env = {a: (a, t) for a, t in mi.params}
    body = tr.stmts(mi.body, env, "  ")
    params = "".join(f" ({a} : {lean_ty(t)})" for a, t in mi.params)
    return f"/-- `{mi.pyname}` -/\ndef {mi.lean} (s : {mi.cls}) (now : Int){params} : {mi.result_type()} :=\n{body}\n"


PRELUDE = '''import Frequenz.Model.Prelude

set_option linter.unusedVariables false

namespace Extracted.BatteryStatus

/-- Python `min(a, b)` on integers (first wins on ties). -/
def pyMinInt (a b : Int) : Int := if b < a then b else a
/-- Python `max(a, b)` on integers (first wins on ties). -/
def pyMaxInt (a b : Int) : Int := if b > a then b else a
/-- Comparison of an optional time with a time (`None` never reaches the comparison in the source). -/
def optCmp (f : Int → Int → Bool) (o : Option Int) (n : Int) : Bool :=
  match o with
  | none => false
  | some a => f a n
/-- `set.intersection`, `set.add`, `set.discard` on duplicate-free lists. -/
def setInter (a b : List Nat) : List Nat := a.filter (fun x => b.contains x)
def setAdd (a : List Nat) (x : Nat) : List Nat := if a.contains x then a else a ++ [x]
def setDiscard (a : List Nat) (x : Nat) : List Nat := a.filter (fun y => y != x)
'''


def generate(repo: pathlib.Path) -> str:
    trk_mod = ast.parse((repo / SOURCES[0]).read_text())
    blk_mod = ast.parse((repo / SOURCES[1]).read_text())
    cst_mod = ast.parse((repo / SOURCES[2]).read_text())
    pool_mod = ast.parse((repo / SOURCES[3]).read_text())
    mgr_mod = ast.parse((repo / SOURCES[4]).read_text())
    out: list[str] = [PRELUDE]

    # ---- ComponentStatusEnum
    enum_cls = find_class(cst_mod, "ComponentStatusEnum")
    members = [n.targets[0].id for n in enum_cls.body if isinstance(n, ast.Assign) and isinstance(n.targets[0], ast.Name)]
    if sorted(members) != ["NOT_WORKING", "UNCERTAIN", "WORKING"]:
        raise Unsupported(f"ComponentStatusEnum members {members}")
    out.append("/-- `ComponentStatusEnum` -/\ninductive Status where\n" + "".join(f"  | {enum_ctor(m)}\n" for m in members)
               + "deriving DecidableEq, Repr, Inhabited\n")

    # ---- tables
    trk_cls = find_class(trk_mod, "BatteryStatusTracker")
    reg = Registry()
    tables = {
        "_battery_valid_relay": ("batteryValidRelay", "BatteryRelayState"),
        "_battery_valid_state": ("batteryValidState", "BatteryComponentState"),
        "_inverter_valid_state": ("inverterValidState", "InverterComponentState"),
    }
    for attr, (lean, enum) in tables.items():
        names = enum_name_set(trk_cls, attr, enum)
        reg.tables[attr] = lean
        out.append(f"/-- `BatteryStatusTracker.{attr}` (member names of `{enum}`, sorted) -/\n"
                   f"def {lean} : List String := {str_list(names)}\n")

    # ---- structures
    blk_cls = find_class(blk_mod, "BlockingStatus")
    defaults = {}
    for n in blk_cls.body:
        if isinstance(n, ast.AnnAssign) and isinstance(n.target, ast.Name):
            if n.target.id not in STRUCTS["Blocking"]:
                raise Unsupported(f"BlockingStatus field {n.target.id}")
            defaults[n.target.id] = n.value
    if set(defaults) != set(STRUCTS["Blocking"]):
        raise Unsupported(f"BlockingStatus fields {sorted(defaults)}")
    out.append('''/-- `BlockingStatus` (times and durations in microseconds) -/
structure Blocking where
  minDuration : Int
  maxDuration : Int
  lastBlockingDuration : Int
  blockedUntil : Option Int
deriving DecidableEq, Repr

/-- `_ComponentStreamStatus`; `timerResetAt` = loop time of the last `data_recv_timer.reset()` (or of its creation). -/
structure Stream where
  lastMsgTimestamp : Int
  lastMsgCorrect : Bool
  timerResetAt : Int
deriving DecidableEq, Repr

/-- The facts of a `BatteryData` / `InverterData` message the tracker looks at (enum member names, error levels). -/
structure Msg where
  timestamp : Int
  componentState : String
  relayState : String
  errorLevels : List String
  capacityIsNaN : Bool
deriving DecidableEq, Repr, Inhabited

/-- `SetPowerResult` seen from one battery: is its id in `succeeded` / in `failed`. -/
structure SpResult where
  succeeded : Bool
  failed : Bool
deriving DecidableEq, Repr, Inhabited

/-- `BatteryStatusTracker` -/
structure Tracker where
  maxDataAge : Int
  lastStatus : Status
  blocking : Blocking
  battery : Stream
  inverter : Stream
deriving DecidableEq, Repr
''')

    # ---- methods: the entry points ("contract") + whatever helpers they call
    reg.class_nodes = {"Blocking": blk_cls, "Tracker": trk_cls}
    for name in ("__post_init__", "block", "unblock", "is_blocked"):
        reg.add("Blocking", find_method(blk_cls, name))
    tracker_methods = [
        "_handle_status_battery", "_handle_status_inverter", "_handle_status_set_power_result",
        "_handle_status_battery_timer", "_handle_status_inverter_timer", "_get_new_status_if_changed",
    ]
    for name in tracker_methods:
        reg.add("Tracker", find_method(trk_cls, name))
    ps_cls = find_class(cst_mod, "ComponentPoolStatus")
    pool_cls = find_class(pool_mod, "ComponentPoolStatusTracker")
    reg.class_nodes["PoolStatus"] = ps_cls
    reg.class_nodes["Pool"] = pool_cls
    reg.add("PoolStatus", find_method(ps_cls, "get_working_components"))
    run = find_method(trk_cls, "_run")
    upd = find_method(pool_cls, "_update_status")
    reg.discover("Blocking", [mi.body for (c, _), mi in list(reg.methods.items()) if c == "Blocking"])
    reg.discover("Tracker", [mi.body for (c, _), mi in list(reg.methods.items()) if c == "Tracker"] + [list(run.body)])
    reg.discover("PoolStatus", [mi.body for (c, _), mi in list(reg.methods.items()) if c == "PoolStatus"])
    reg.discover("Pool", [list(upd.body)])
    compute_mutating(reg)
    reg.methods[("Blocking", "__post_init__")].lean = "Blocking.postInit"
    emitted: list[tuple[str, str]] = []

    def emit(key: tuple[str, str]) -> None:
        if key in emitted:
            return
        emitted.append(key)  # (marks it; a cycle would be a recursion we do not translate anyway)
        mi = reg.methods[key]
        for callee in reg.callees(mi):
            emit(callee)
        if mi.param_mut and key not in reg.contract:
            return  # inlined at its call sites
        out.append(emit_def(reg, mi))

    for key in [("Blocking", "__post_init__"), ("Blocking", "block"), ("Blocking", "unblock"), ("Blocking", "is_blocked")]:
        emit(key)

    # BlockingStatus(...) constructor = dataclass defaults, then __post_init__
    def default_code(field: str) -> str:
        v = defaults[field]
        if v is None:
            raise Unsupported(f"BlockingStatus.{field} has no default")
        if isinstance(v, ast.Constant) and v.value is None:
            return "none"
        return str(timedelta_us(v))
    out.append("/-- `BlockingStatus(min_duration=…, max_duration=…)` : dataclass defaults, then `__post_init__`. -/\n"
               "def Blocking.new (minDuration maxDuration : Int) : Blocking :=\n"
               "  Blocking.postInit { minDuration := minDuration, maxDuration := maxDuration,\n"
               f"                      lastBlockingDuration := {default_code('last_blocking_duration')},\n"
               f"                      blockedUntil := {default_code('blocked_until')} }} 0\n")

    for name in tracker_methods:
        emit(("Tracker", name))
    for key in list(reg.methods):
        if key[0] == "Tracker":
            emit(key)  # helpers called only from the select loop

    # ---- the select loop of `_run`
    loops = [n for n in ast.walk(run) if isinstance(n, ast.AsyncFor)]
    if len(loops) != 1:
        raise Unsupported("_run: expected exactly one `async for`")
    loop = loops[0]
    if not (isinstance(loop.iter, ast.Call) and ast.unparse(loop.iter.func) == "select" and isinstance(loop.target, ast.Name)):
        raise Unsupported("_run: loop is not `async for selected in select(...)`")
    sources = []
    for a in loop.iter.args:
        if not isinstance(a, ast.Name):
            raise Unsupported("select() argument")
        sources.append(a.id)
    if sorted(sources) != sorted(["battery", "battery_timer", "inverter_timer", "inverter", "set_power_result"]):
        raise Unsupported(f"select() receivers {sources}")
    # what the local receiver names are bound to
    binds = {}
    for n in ast.walk(run):
        if isinstance(n, ast.Assign) and len(n.targets) == 1 and isinstance(n.targets[0], ast.Name):
            binds[n.targets[0].id] = ast.unparse(n.value)
    expect = {"battery": "battery_receiver", "inverter": "inverter_receiver",
              "battery_timer": "self._battery.data_recv_timer", "inverter_timer": "self._inverter.data_recv_timer",
              "set_power_result": "set_power_result_receiver",
              "battery_receiver": "await api_client.battery_data(self._battery.component_id)",
              "inverter_receiver": "await api_client.inverter_data(self._inverter.component_id)"}
    for k, v in expect.items():
        if binds.get(k) != v:
            raise Unsupported(f"_run: {k} is bound to {binds.get(k)!r}, expected {v!r}")
    out.append("/-- Which receiver of the `select(...)` in `_run` produced the event. -/\ninductive Src where\n"
               + "".join(f"  | {camel(x)}\n" for x in sources) + "deriving DecidableEq, Repr, Inhabited\n")
    out.append("/-- `Selected`: source, and its message (`msg` for data streams, `result` for set-power results). -/\n"
               "structure Selected where\n  src : Src\n  msg : Msg\n  result : SpResult\nderiving Repr, Inhabited\n")
    it = MethodInfo.__new__(MethodInfo)
    it.cls, it.node, it.pyname, it.lean = "Tracker", run, "_run (one iteration of the select loop)", "Tracker.runIteration"
    it.params, it.ret, it.mutating, it.body = [("selected", "Selected")], "OptStatus", True, list(loop.body)
    tr = MethodTr(reg, it, mode="iteration", extra={"sources": sources})
    body = tr.stmts(it.body, {loop.target.id: (loop.target.id, "Selected")}, "  ")
    out.append("/-- One iteration of the `select` loop of `BatteryStatusTracker._run`: new state and the status sent, if any. -/\n"
               f"def Tracker.runIteration (s : Tracker) (now : Int) ({loop.target.id} : Selected) : Tracker × Option Status :=\n"
               f"  let sent : Option Status := none\n{body}\n")

    # ---- constructor of the tracker
    init = find_method(trk_cls, "__init__")
    init_status = min_dur = None
    timers = 0
    for n in ast.walk(init):
        if isinstance(n, (ast.Assign, ast.AnnAssign)):
            tgt = n.targets[0] if isinstance(n, ast.Assign) else n.target
            src = ast.unparse(tgt)
            if src == "self._last_status":
                v = ast.unparse(n.value)
                if not v.startswith("ComponentStatusEnum."):
                    raise Unsupported(f"initial status {v}")
                init_status = enum_ctor(v.split(".")[1])
            elif src == "self._blocking_status":
                v = n.value
                if not (isinstance(v, ast.Call) and ast.unparse(v.func) == "BlockingStatus"):
                    raise Unsupported("self._blocking_status")
                kws = {k.arg: k.value for k in v.keywords}
                if set(kws) != {"min_duration", "max_duration"} or ast.unparse(kws["max_duration"]) != "max_blocking_duration":
                    raise Unsupported(f"BlockingStatus({ast.unparse(v)})")
                min_dur = timedelta_us(kws["min_duration"])
            elif src == "self._max_data_age" and ast.unparse(n.value) != "max_data_age":
                raise Unsupported("self._max_data_age")
        if isinstance(n, ast.Call) and ast.unparse(n.func) == "Timer":
            if [ast.unparse(a) for a in n.args] != ["max_data_age", "SkipMissedAndDrift()"] or n.keywords:
                raise Unsupported(f"data timer: {ast.unparse(n)}")
            timers += 1
    if init_status is None or min_dur is None or timers != 2:
        raise Unsupported("BatteryStatusTracker.__init__: status / blocking / timers not recognised")
    stream_cls = find_class(trk_mod, "_ComponentStreamStatus")
    correct_default = None
    for n in stream_cls.body:
        if isinstance(n, ast.AnnAssign) and isinstance(n.target, ast.Name) and n.target.id == "last_msg_correct":
            if not isinstance(n.value, ast.Constant) or not isinstance(n.value.value, bool):
                raise Unsupported("last_msg_correct default")
            correct_default = "true" if n.value.value else "false"
    if correct_default is None:
        raise Unsupported("_ComponentStreamStatus.last_msg_correct")
    out.append(f"/-- `min_duration` passed to `BlockingStatus` by the tracker (µs). -/\ndef minBlockingDuration : Int := {min_dur}\n")
    out.append("/-- Data timers are `Timer(max_data_age, SkipMissedAndDrift())`: interval = `maxDataAge`, a tick re-arms from the tick. -/\n"
               "def timerPolicy : String := \"SkipMissedAndDrift\"\n")
    out.append("/-- `BatteryStatusTracker(...)` created at loop time `t0`; `ts0` = the (import-time) default of `last_msg_timestamp`. -/\n"
               "def Tracker.new (maxDataAge maxBlockingDuration ts0 t0 : Int) : Tracker :=\n"
               f"  {{ maxDataAge := maxDataAge, lastStatus := Status.{init_status},\n"
               "    blocking := Blocking.new minBlockingDuration maxBlockingDuration,\n"
               f"    battery := {{ lastMsgTimestamp := ts0, lastMsgCorrect := {correct_default}, timerResetAt := t0 }},\n"
               f"    inverter := {{ lastMsgTimestamp := ts0, lastMsgCorrect := {correct_default}, timerResetAt := t0 }} }}\n")

    # ---- defaults used by BatteryManager
    dflt = {}
    for n in ast.walk(mgr_mod):
        if isinstance(n, ast.Call) and ast.unparse(n.func) == "ComponentPoolStatusTracker":
            for k in n.keywords:
                if k.arg in ("max_data_age", "max_blocking_duration"):
                    dflt[k.arg] = timedelta_us(k.value)
    if set(dflt) != {"max_data_age", "max_blocking_duration"}:
        raise Unsupported("BatteryManager: ComponentPoolStatusTracker(max_data_age=…, max_blocking_duration=…) not found")
    out.append(f"/-- Defaults passed by `BatteryManager` (µs). -/\ndef defaultMaxDataAge : Int := {dflt['max_data_age']}\n"
               f"def defaultMaxBlockingDuration : Int := {dflt['max_blocking_duration']}\n")

    # ---- pool
    out.append('''/-- `ComponentPoolStatus` -/
structure PoolStatus where
  working : List Nat
  uncertain : List Nat
deriving DecidableEq, Repr

/-- `ComponentStatus` -/
structure CompStatus where
  componentId : Nat
  value : Status
deriving DecidableEq, Repr

/-- The part of `ComponentPoolStatusTracker` that `_update_status` touches. -/
structure Pool where
  currentStatus : PoolStatus
deriving DecidableEq, Repr
''')
    for key in list(reg.methods):
        if key[0] in ("PoolStatus", "Pool"):
            emit(key)
    ploops = [n for n in upd.body if isinstance(n, ast.AsyncFor)]
    if len(ploops) != 1 or len([s for s in upd.body if not is_logging(s)]) != 1:
        raise Unsupported("_update_status: expected a single `async for`")
    pl = ploops[0]
    if not (isinstance(pl.target, ast.Name) and ast.unparse(pl.iter) == "self._merged_status_receiver"):
        raise Unsupported("_update_status loop header")
    pit = MethodInfo.__new__(MethodInfo)
    pit.cls, pit.node, pit.pyname, pit.lean = "Pool", upd, "_update_status (loop body)", "Pool.updateStatus"
    pit.params, pit.ret, pit.mutating, pit.body = [(pl.target.id, "CompStatus")], "OptPoolStatus", True, list(pl.body)
    ptr = MethodTr(reg, pit, mode="poolloop")
    pbody = ptr.stmts(pit.body, {pl.target.id: (pl.target.id, "CompStatus")}, "  ")
    out.append("/-- One iteration of the loop of `ComponentPoolStatusTracker._update_status`: new state, pool status sent. -/\n"
               f"def Pool.updateStatus (s : Pool) (now : Int) ({pl.target.id} : CompStatus) : Pool × Option PoolStatus :=\n"
               f"  let sent : Option PoolStatus := none\n{pbody}\n")
    # initial pool status and the delegating accessor
    pinit = find_method(pool_cls, "__init__")
    ok = any(isinstance(n, ast.Assign) and ast.unparse(n.targets[0]) == "self._current_status"
             and ast.unparse(n.value).replace(" ", "") == "ComponentPoolStatus(working=set(),uncertain=set())"
             for n in ast.walk(pinit))
    if not ok:
        raise Unsupported("ComponentPoolStatusTracker.__init__: initial status")
    gw = find_method(pool_cls, "get_working_components")
    rets = [n for n in gw.body if isinstance(n, ast.Return)]
    if len(rets) != 1 or ast.unparse(rets[0].value) != "self._current_status.get_working_components(components)":
        raise Unsupported("ComponentPoolStatusTracker.get_working_components")
    out.append("def Pool.new : Pool := { currentStatus := { working := [], uncertain := [] } }\n"
               "/-- `ComponentPoolStatusTracker.get_working_components` -/\n"
               "def Pool.getWorkingComponents (s : Pool) (components : List Nat) : List Nat :=\n"
               "  PoolStatus.getWorkingComponents s.currentStatus 0 components\n")
    helpers = [reg.methods[k].lean for k in emitted if k not in reg.contract and not reg.methods[k].param_mut]
    out.append("/-- Unfolds the translated helper functions (everything the entry points call that is not itself an entry\n"
               "point the lemmas are stated about), whatever helpers the current source happens to have. -/\n"
               "macro \"c16_unfold_helpers\" : tactic =>\n  `(tactic| try simp only ["
               + ", ".join(helpers + ["optCmp"]) + "])\n")
    out.append("macro \"c16_unfold_helpers_at\" h:ident : tactic =>\n  `(tactic| try simp only ["
               + ", ".join(helpers + ["optCmp"]) + "] at $h:ident)\n")
    out.append("end Extracted.BatteryStatus")
    return "\n".join(out)
