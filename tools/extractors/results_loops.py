"""Control flow of the result accounting of the component managers (C15) -> Lean (`Extracted/ResultsLoops.lean`).

Translated statement by statement from the CURRENT source text (pure `ast`; the repo is never imported):

`BatteryManager` (`_battery_manager.py`)
  * `_parse_result`: the accumulator initialisation -> `parseInit`, ONE iteration of the loop over `tasks.items()`
    (outcome classification by the `try/except` clauses, flags, `failed_power += …`, `failed_batteries.update(…)`)
    -> `parseStep`; the returned pair by role (the number is the failed power, the set the failed batteries);
  * `_set_distributed_power`: one `set_power(<inverter>, <set-point>)` task per item of `distribution.distribution`
    -> `batCall`; that ALL tasks are awaited with the timeout parameter, the pending ones cancelled and awaited, and
    that `_parse_result` receives exactly these tasks and this distribution -> established or `raise`;
  * `_distribute_power`: ONE iteration of the inner loop that builds `battery_distribution` -> `batDistStep`, and
    everything after the `await self._set_distributed_power(…)` (the `len(failed) > 0` test, both constructors, every
    field) -> `batFinish`.
`PVManager` (`_pv_inverter_manager.py`)
  * `distribute_power`: the statements before the filter loop (no tracker: empty `Success` / `ValueError`) ->
    `pvPrelude`; ONE iteration of the loop that keeps the working inverters with data -> `pvFilterStep`; the sort (key =
    inclusion lower bound of the cached data, `reverse` flag) -> `pvSortReverse` (or `raise`); the statements between sort
    and allocation loop (`num == 0` -> return without a result) -> `pvAbort`; ONE iteration of the allocation loop
    (skip test, share, missing data, `max`, `allocations[…] = …`, `remaining -= …`, `continue`s) -> `pvAllocStep`; that
    `_set_api_power` receives the request, these allocations and this remaining power -> established or `raise`;
  * `_set_api_power`: one `set_power(<id>, <allocation>)` task per item of `allocations` -> `pvCall`; wait / cancel as
    above; accumulator initialisation -> `pvResultInit`; ONE iteration of the result loop -> `pvResultStep`; everything
    after it (`succeeded_power`, the emptiness test, both constructors, which one is sent, `return`) -> `pvFinish`.

How: helper methods of the same class are inlined and keyword arguments normalised by `distributor.py`'s machinery;
statement sequences are translated in continuation-passing style (the statements after an `if`/`try` are copied into
every branch that falls through); `try: <task>.result() … except …` becomes a `match` on the call's outcome, the handler
of each outcome chosen by the exception hierarchy (`distributor.MRO`); an outcome that no handler catches, or a `raise`,
makes the step `none`.  Sets are lists (`add`/`update`/`append`/`extend` = append, `a - b` = filter, emptiness /
`len(..) > 0` = `≠ []`), dicts are association lists in insertion order (`d[k] = v` = replace-or-append, `.get(k, d)`,
`.keys()`), powers are `Rat`, ids and counters `Nat` (`num - idx` is the truncated difference, as in `distributor.py`).
Loop-carried variables are ordered by ROLE (what is returned / which constructor keyword or call argument they reach),
values read from collaborators are parameters identified by what is read (`<task>.result()` -> `oc`, `distribution[key]`
-> `setPoint`, `self._inv_bats_map[key]` -> `batteryIds`, `allocations[key]` -> `alloc`, `<cache>[id].has_value()` ->
`hasValue`, `<cache>[id].get().active_power_inclusion_lower_bound` -> `bound`, `len(<working>)` -> `num`); local names and
statement positions play no role.  Anything that cannot be established raises `Unsupported`.
"""
from __future__ import annotations

import ast
import copy
import pathlib
import sys
from fractions import Fraction

sys.path.insert(0, str(pathlib.Path(__file__).resolve().parent))
import distributor as D  # noqa: E402
from distributor import Unsupported, _src  # noqa: E402

NAME = "ResultsLoops"
SOURCES = [D.SOURCES[1], D.SOURCES[2]]

OUTCOMES = ["ok", "outOfRange", "clientError", "exception", "timeout"]
LEAN_TY = {"Rat": "Rat", "Nat": "Nat", "Bool": "Bool", "Ids": "List Nat", "Assoc": "List (Nat × Rat)", "Fields": "Fields", "Count": "Nat"}


class Opaque(Exception):
    """The expression has no value in the model's vocabulary (a cache object, a task, …): it may only be aliased."""


# ------------------------------------------------------------------------------------------------ translator
class Tr:
    """CPS translator of one statement sequence.

    mode "step": the sequence is ONE loop iteration; falling off the end and `continue` yield the carried variables.
    mode "fun" : the sequence is the rest of a function; the result is an `Exit` (falls through / returns what was sent
                 or the returned value / raises)."""

    def __init__(self, mode: str, carried: list[str], roles: dict[str, tuple[str, str]], task: str | None = None,
                 option: bool = False, fields_ok: bool = False, request: str | None = None, ret_fields: bool = False):
        self.mode, self.carried, self.roles, self.task = mode, carried, roles, task
        self.option, self.fields_ok, self.request, self.ret_fields = option, fields_ok, request, ret_fields
        self.n = 0
        # every leaf of the translated tree: (conditions on the path [(condition, taken?) | ("oc", outcome)], kind, payload)
        self.path: list[tuple] = []
        self.leaves: list[tuple] = []
        self.fields_reg: dict[str, dict[str, str]] = {}

    # ---- naming
    def fresh(self, base: str) -> str:
        self.n += 1
        return f"v{self.n}"  # (no Python names in the output: renaming a local must not change the text)

    # ---- canonical source with aliases substituted
    def canon(self, n: ast.AST, env: dict) -> str:
        return D._canon(n, env["$alias"])

    # ---- expressions
    def tr(self, n: ast.expr, env: dict) -> tuple[str, str]:
        c = self.canon(n, env)
        if c in self.roles:
            return self.roles[c]
        if isinstance(n, ast.Name):
            if n.id in env:
                return env[n.id]
            if n.id in env["$alias"]:
                return self.tr(env["$alias"][n.id], env)
            raise Opaque(f"name `{n.id}`")
        if isinstance(n, ast.NamedExpr):
            raise Unsupported(f"walrus in `{_src(n)[:60]}`")
        if isinstance(n, ast.Constant):
            if isinstance(n.value, bool):
                return ("true" if n.value else "false"), "Bool"
            if isinstance(n.value, int):
                return f"({n.value} : Nat)" if n.value >= 0 else f"({n.value} : Rat)", "Nat" if n.value >= 0 else "Rat"
            if isinstance(n.value, float):
                fr = Fraction(repr(n.value))
                return (f"(({fr.numerator} : Rat) / {fr.denominator})" if fr.denominator != 1 else f"({fr.numerator} : Rat)"), "Rat"
            raise Opaque(f"constant {n.value!r}")
        if isinstance(n, ast.Call):
            return self.call(n, env)
        if isinstance(n, ast.UnaryOp) and isinstance(n.op, ast.USub):
            v, t = self.tr(n.operand, env)
            return f"(-{self.rat(v, t)})", "Rat"
        if isinstance(n, ast.BinOp):
            a, ta = self.tr(n.left, env)
            b, tb = self.tr(n.right, env)
            if isinstance(n.op, ast.Sub) and ta == "Ids" and tb == "Ids":
                return f"({a}.filter (fun x => decide (x ∉ {b})))", "Ids"
            if isinstance(n.op, ast.Sub) and ta == "Nat" and tb == "Nat":
                return f"(({a} - {b} : Nat))", "Nat"
            if isinstance(n.op, ast.Add) and ta == "Nat" and tb == "Nat":
                return f"({a} + {b})", "Nat"
            for k, op in {ast.Add: "+", ast.Sub: "-", ast.Mult: "*", ast.Div: "/"}.items():
                if isinstance(n.op, k):
                    return f"({self.rat(a, ta)} {op} {self.rat(b, tb)})", "Rat"
            raise Unsupported(f"operator in `{_src(n)[:60]}`")
        if isinstance(n, (ast.Set, ast.List)) and not n.elts:
            return "([] : List Nat)", "Ids"
        if isinstance(n, ast.Dict) and not n.keys:
            return "([] : List (Nat × Rat))", "Assoc"
        if isinstance(n, ast.IfExp):
            a, ta = self.tr(n.body, env)
            b, tb = self.tr(n.orelse, env)
            if ta != tb:
                raise Unsupported(f"conditional expression of two types `{_src(n)[:60]}`")
            return f"(if {self.prop(n.test, env)} then {a} else {b})", ta
        if isinstance(n, (ast.Compare, ast.BoolOp)) or (isinstance(n, ast.UnaryOp) and isinstance(n.op, ast.Not)):
            return f"(decide {self.prop(n, env)})", "Bool"
        raise Opaque(f"expression `{_src(n)[:60]}`")

    @staticmethod
    def rat(v: str, t: str) -> str:
        if t == "Rat":
            return v
        if t == "Nat":
            return f"(({v} : Nat) : Rat)"
        raise Unsupported(f"a number is expected, `{v}` is a {t}")

    def call(self, n: ast.Call, env: dict) -> tuple[str, str]:
        f = _src(n.func)
        if f == "Power.zero" and not n.args and not n.keywords:
            return "(0 : Rat)", "Rat"
        if f in ("Power.from_watts", "float") and len(n.args) == 1 and not n.keywords:
            v, t = self.tr(n.args[0], env)
            return self.rat(v, t), "Rat"
        if isinstance(n.func, ast.Attribute) and n.func.attr == "as_watts" and not n.args and not n.keywords:
            v, t = self.tr(n.func.value, env)
            return self.rat(v, t), "Rat"
        if f in ("max", "min") and len(n.args) >= 2 and not n.keywords:
            vs = [self.rat(*self.tr(a, env)) for a in n.args]
            acc = vs[0]
            for v in vs[1:]:
                acc = f"(py{f.capitalize()} {acc} {v})"
            return acc, "Rat"
        if f == "len" and len(n.args) == 1 and not n.keywords:
            v, t = self.tr(n.args[0], env)
            if t == "Count":  # a list of which only the length is known
                return v, "Nat"
            if t not in ("Ids", "Assoc"):
                raise Unsupported(f"len of a {t}")
            return f"{v}.length", "Nat"
        if f in ("set", "list", "frozenset") and not n.keywords:
            if not n.args:
                return "([] : List Nat)", "Ids"
            if len(n.args) == 1:
                v, t = self.tr(n.args[0], env)
                if t == "Ids":
                    return v, "Ids"
                if t == "Assoc":  # iterating a dict yields its keys
                    return f"({v}.map (·.1))", "Ids"
        if f == "dict" and not n.args and not n.keywords:
            return "([] : List (Nat × Rat))", "Assoc"
        if isinstance(n.func, ast.Attribute) and not n.keywords:
            try:
                base, tb = self.tr(n.func.value, env)
            except Opaque:
                base, tb = None, None
            if tb == "Assoc" and n.func.attr == "keys" and not n.args:
                return f"({base}.map (·.1))", "Ids"
            if tb == "Assoc" and n.func.attr == "get" and len(n.args) == 2:
                k, tk = self.tr(n.args[0], env)
                d, td = self.tr(n.args[1], env)
                if tk != "Nat":
                    raise Unsupported(f"dict key of type {tk}")
                return f"(assocGetD {base} {k} {self.rat(d, td)})", "Rat"
            if tb == "Ids" and n.func.attr in ("copy",) and not n.args:
                return base, "Ids"
        if self.fields_ok and f in ("Success", "PartialFailure") and not n.args:
            return self.fields(n, env), "Fields"
        raise Opaque(f"call `{_src(n)[:60]}`")

    def fields(self, n: ast.Call, env: dict) -> str:
        kw = {k.arg: k.value for k in n.keywords}
        pf = _src(n.func) == "PartialFailure"
        want = {"request", "succeeded_power", "succeeded_components", "excess_power"} | (
            {"failed_power", "failed_components"} if pf else set())
        if set(kw) != want or len(kw) != len(n.keywords):
            raise Unsupported(f"{_src(n.func)}: keywords {sorted(k for k in kw if k)}")
        if self.request is None or self.canon(kw["request"], env) != self.request:
            raise Unsupported(f"{_src(n.func)}: the result does not carry the request being processed")

        def num(k: str) -> str:
            return self.rat(*self.tr(kw[k], env))

        def ids(k: str) -> str:
            v, t = self.tr(kw[k], env)
            if t == "Assoc":
                return f"({v}.map (·.1))"
            if t != "Ids":
                raise Unsupported(f"{k} is a {t}")
            return v

        d = {"partialFailure": "true" if pf else "false", "succeededPower": num("succeeded_power"),
             "succeeded": ids("succeeded_components"), "failedPower": num("failed_power") if pf else "0",
             "failed": ids("failed_components") if pf else "[]", "excess": num("excess_power")}
        text = "{ " + ", ".join(f"{k} := {v}" for k, v in d.items()) + " }"
        self.fields_reg[text] = d
        return text

    # ---- conditions
    def prop(self, n: ast.expr, env: dict) -> str:
        c, neg = self.propn(n, env)
        return f"(¬ {c})" if neg else c

    def propn(self, n: ast.expr, env: dict) -> tuple[str, bool]:
        """A condition as (positive form, negated?) — `not`, `==`/`!=`, `len(x) == 0` / `not x`, `>`/`<` with swapped
        operands and De Morgan variants of one condition give the same pair.  "true"/"false" = statically known."""
        if isinstance(n, ast.BoolOp):
            parts = [self.propn(v, env) for v in n.values]
            is_and = isinstance(n.op, ast.And)
            known = [c for c, _ in parts if c in ("true", "false")]
            vals = [(c == "true") != neg for c, neg in parts if c in ("true", "false")]
            if known:
                if is_and and not all(vals):
                    return "false", False
                if not is_and and any(vals):
                    return "true", False
                parts = [p for p in parts if p[0] not in ("true", "false")]
                if not parts:
                    return ("true" if is_and else "false"), False
            if len(parts) == 1:
                return parts[0]
            if all(neg for _, neg in parts):  # De Morgan
                return "(" + (" ∨ " if is_and else " ∧ ").join(c for c, _ in parts) + ")", True
            return "(" + (" ∧ " if is_and else " ∨ ").join((f"(¬ {c})" if neg else c) for c, neg in parts) + ")", False
        if isinstance(n, ast.UnaryOp) and isinstance(n.op, ast.Not):
            c, neg = self.propn(n.operand, env)
            return c, not neg
        if isinstance(n, ast.Compare):
            if len(n.ops) == 1:
                return self.compare(n.ops[0], n.left, n.comparators[0], env)
            parts, left = [], n.left
            for op, right in zip(n.ops, n.comparators):
                c, neg = self.compare(op, left, right, env)
                parts.append(f"(¬ {c})" if neg else c)
                left = right
            return "(" + " ∧ ".join(parts) + ")", False
        if isinstance(n, ast.Call) and _src(n.func) == "is_close_to_zero" and len(n.args) == 1 and not n.keywords:
            x = self.rat(*self.tr(n.args[0], env))
            return f"(-closeToZeroTol ≤ {x} ∧ {x} ≤ closeToZeroTol)", False
        if isinstance(n, ast.Call) and _src(n.func) == "bool" and len(n.args) == 1 and not n.keywords:
            return self.propn(n.args[0], env)
        v, t = self.tr(n, env)  # truthiness
        if t == "Bool":
            if v in ("true", "false"):
                return v, False
            return f"({v} = true)", False
        if t in ("Ids", "Assoc"):
            return f"({v} ≠ [])", False
        if t == "Count":
            return f"((0 : Nat) = {v})", True
        if t == "Nat":
            return f"({v} = 0)", True
        raise Unsupported(f"truth value of a {t} (`{_src(n)[:60]}`)")  # a Power is always truthy: never tested in this code

    def compare(self, op: ast.cmpop, left: ast.expr, right: ast.expr, env: dict) -> tuple[str, bool]:
        # emptiness of a collection: len(x) > 0, len(x) != 0, len(x) >= 1, 0 < len(x) / len(x) == 0, len(x) < 1, …
        for a_, b_, o_ in ((left, right, op), (right, left, self.MIRROR.get(type(op), type(op))())):
            if isinstance(a_, ast.Call) and _src(a_.func) == "len" and len(a_.args) == 1 and isinstance(b_, ast.Constant) \
                    and isinstance(b_.value, int) and not isinstance(b_.value, bool):
                v, t = self.tr(a_.args[0], env)
                if t == "Count":
                    k = (type(o_), b_.value)
                    if k in ((ast.Gt, 0), (ast.NotEq, 0), (ast.GtE, 1)):
                        return f"((0 : Nat) = {v})", True
                    if k in ((ast.Eq, 0), (ast.Lt, 1), (ast.LtE, 0)):
                        return f"((0 : Nat) = {v})", False
                if t in ("Ids", "Assoc"):
                    k = (type(o_), b_.value)
                    if k in ((ast.Gt, 0), (ast.NotEq, 0), (ast.GtE, 1)):
                        return f"({v} ≠ [])", False
                    if k in ((ast.Eq, 0), (ast.Lt, 1), (ast.LtE, 0)):
                        return f"({v} ≠ [])", True
        a, ta = self.tr(left, env)
        b, tb = self.tr(right, env)
        if isinstance(op, (ast.Is, ast.IsNot, ast.Eq, ast.NotEq)) and ta == "Bool" and tb == "Bool":
            neg = isinstance(op, (ast.IsNot, ast.NotEq))
            for x, y in ((a, b), (b, a)):
                if y in ("true", "false"):
                    if x in ("true", "false"):
                        return ("true" if (x == y) else "false"), neg
                    return f"({x} = true)", neg != (y == "false")
            return f"({a} = {b})", neg
        if not (ta in ("Rat", "Nat") and tb in ("Rat", "Nat")):
            raise Unsupported(f"comparison of a {ta} with a {tb}")
        if not (ta == "Nat" and tb == "Nat"):
            a, b = self.rat(a, ta), self.rat(b, tb)
        if isinstance(op, (ast.Eq, ast.NotEq)):
            x, y = sorted([a, b])
            return f"({x} = {y})", isinstance(op, ast.NotEq)
        if isinstance(op, ast.Lt):
            return f"({a} < {b})", False
        if isinstance(op, ast.Gt):
            return f"({b} < {a})", False
        if isinstance(op, ast.LtE):
            return f"({a} ≤ {b})", False
        if isinstance(op, ast.GtE):
            return f"({b} ≤ {a})", False
        raise Unsupported(f"comparison `{_src(left)} {type(op).__name__} {_src(right)}`")

    MIRROR = {ast.Lt: ast.Gt, ast.Gt: ast.Lt, ast.LtE: ast.GtE, ast.GtE: ast.LtE}

    # ---- statements
    def bind(self, env: dict, name: str, val: str, ty: str, ind: str) -> tuple[dict, str]:
        """Bind a local.  No `let` is emitted: the value is substituted where the local is used, so the output does not
        depend on local names, on the order of independent statements or on how a computation is split into locals."""
        e = dict(env)
        e[name] = (val, ty)
        e["$alias"] = {k: a for k, a in env["$alias"].items() if k != name}
        return e, ""

    def finish(self, env: dict, ind: str) -> str:
        if self.mode == "step":
            self.leaves.append((tuple(self.path), "next", [env[c][0] for c in self.carried]))
            tup = "(" + ", ".join(env[c][0] for c in self.carried) + ")"
            return f"{ind}{'some ' if self.option else ''}{tup}\n"
        self.leaves.append((tuple(self.path), "falls", None))
        return f"{ind}Exit.falls\n"

    def ret(self, value: ast.expr | None, env: dict, ind: str) -> str:
        if self.mode != "fun":
            raise Unsupported("`return` inside a loop body")
        if self.ret_fields:
            if value is None:
                raise Unsupported("bare `return` where a result is returned")
            v, t = self.tr(value, env)
            if t != "Fields":
                raise Unsupported(f"returns a {t}")
            self.leaves.append((tuple(self.path), "returns", v))
            return f"{ind}Exit.returns (some {v})\n"
        if value is not None and not (isinstance(value, ast.Constant) and value.value is None):
            raise Unsupported(f"`return {_src(value)[:40]}`")
        sent = env.get("$sent")
        self.leaves.append((tuple(self.path), "returns", sent))
        return f"{ind}Exit.returns {'(some ' + sent + ')' if sent else 'none'}\n"

    def block(self, stmts: list[ast.stmt], env: dict, ind: str) -> str:
        if not stmts:
            if self.mode == "fun" and env.get("$sent"):
                self.leaves.append((tuple(self.path), "returns", env["$sent"]))
                return f"{ind}Exit.returns (some {env['$sent']})\n"  # the coroutine ends after sending
            return self.finish(env, ind)
        s, rest = stmts[0], stmts[1:]
        if (isinstance(s, ast.Expr) and isinstance(s.value, ast.Constant)) or isinstance(s, ast.Pass) or D._is_log(s):
            return self.block(rest, env, ind)
        if isinstance(s, ast.Continue):
            if self.mode != "step":
                raise Unsupported("`continue` outside the translated loop")
            return self.finish(env, ind)
        if isinstance(s, ast.Return):
            return self.ret(s.value, env, ind)
        if isinstance(s, ast.Raise):
            self.leaves.append((tuple(self.path), "raises", None))
            if self.mode == "fun":
                return f"{ind}Exit.raises\n"
            if not self.option:
                raise Unsupported("`raise` in a loop body that cannot fail")
            return f"{ind}none\n"
        if isinstance(s, ast.AnnAssign) and s.value is None:
            return self.block(rest, env, ind)
        if isinstance(s, (ast.Assign, ast.AnnAssign)):
            targets = s.targets if isinstance(s, ast.Assign) else [s.target]
            if len(targets) != 1:
                raise Unsupported(f"chained assignment `{_src(s)[:60]}`")
            t = targets[0]
            if isinstance(t, ast.Name):
                try:
                    v, ty = self.tr(s.value, env)
                except Opaque:
                    if D._mutates(s.value) or D._contains(s.value, (ast.Await, ast.Yield, ast.Lambda)):
                        raise Unsupported(f"cannot interpret `{_src(s)[:70]}`") from None
                    e = dict(env)
                    e.pop(t.id, None)
                    e["$alias"] = dict(env["$alias"])
                    e["$alias"][t.id] = D._Subst(env["$alias"]).visit(copy.deepcopy(s.value))
                    return self.block(rest, e, ind)
                e, line = self.bind(env, t.id, v, ty, ind)
                return line + self.block(rest, e, ind)
            if isinstance(t, ast.Subscript) and isinstance(t.value, ast.Name) and t.value.id in env and env[t.value.id][1] == "Assoc":
                k, tk = self.tr(t.slice, env)
                v, tv = self.tr(s.value, env)
                if tk != "Nat":
                    raise Unsupported(f"dict key of type {tk}")
                e, line = self.bind(env, t.value.id, f"(assocSet {env[t.value.id][0]} {k} {self.rat(v, tv)})", "Assoc", ind)
                return line + self.block(rest, e, ind)
            raise Unsupported(f"assignment `{_src(s)[:70]}`")
        if isinstance(s, ast.AugAssign) and isinstance(s.target, ast.Name) and s.target.id in env:
            cur, tc = env[s.target.id]
            v, tv = self.tr(s.value, env)
            if tc == "Rat" and isinstance(s.op, (ast.Add, ast.Sub)):
                new = f"({cur} {'+' if isinstance(s.op, ast.Add) else '-'} {self.rat(v, tv)})"
                e, line = self.bind(env, s.target.id, new, "Rat", ind)
                return line + self.block(rest, e, ind)
            if tc == "Ids" and tv == "Ids" and isinstance(s.op, (ast.BitOr, ast.Add)):
                e, line = self.bind(env, s.target.id, f"({cur} ++ {v})", "Ids", ind)
                return line + self.block(rest, e, ind)
            if tc == "Ids" and tv == "Ids" and isinstance(s.op, ast.Sub):
                e, line = self.bind(env, s.target.id, f"({cur}.filter (fun x => decide (x ∉ {v})))", "Ids", ind)
                return line + self.block(rest, e, ind)
            raise Unsupported(f"augmented assignment `{_src(s)[:70]}`")
        if isinstance(s, ast.Expr) and isinstance(s.value, ast.Call) and isinstance(s.value.func, ast.Attribute) \
                and isinstance(s.value.func.value, ast.Name) and s.value.func.value.id in env and not s.value.keywords:
            name, meth = s.value.func.value.id, s.value.func.attr
            cur, tc = env[name]
            if tc == "Ids" and meth in ("add", "append") and len(s.value.args) == 1:
                v, tv = self.tr(s.value.args[0], env)
                if tv != "Nat":
                    raise Unsupported(f"`{_src(s)[:60]}` adds a {tv}")
                e, line = self.bind(env, name, f"({cur} ++ [{v}])", "Ids", ind)
                return line + self.block(rest, e, ind)
            if tc == "Ids" and meth in ("update", "extend") and len(s.value.args) == 1:
                v, tv = self.tr(s.value.args[0], env)
                if tv != "Ids":
                    raise Unsupported(f"`{_src(s)[:60]}` adds a {tv}")
                e, line = self.bind(env, name, f"({cur} ++ {v})", "Ids", ind)
                return line + self.block(rest, e, ind)
            raise Unsupported(f"cannot interpret `{_src(s)[:70]}`")
        if isinstance(s, ast.Expr) and isinstance(s.value, ast.Await) and self.mode == "fun":
            c = s.value.value
            if isinstance(c, ast.Call) and self.canon(c.func, env) == "self._results_sender.send" and len(c.args) == 1 and not c.keywords:
                if env.get("$sent"):
                    raise Unsupported("two results are sent for one request")
                v, t = self.tr(c.args[0], env)
                if t != "Fields":
                    raise Unsupported(f"a {t} is sent as result")
                e = dict(env)
                e["$sent"] = v
                return self.block(rest, e, ind)
            if "update_status" in _src(c) and not D._contains(c, ast.NamedExpr):
                return self.block(rest, env, ind)  # effect on the status tracker (C16), not part of the result
            raise Unsupported(f"cannot interpret `{_src(s)[:70]}`")
        if isinstance(s, ast.If):
            if D._mutates(s.test) or D._contains(s.test, (ast.Await, ast.NamedExpr)):
                raise Unsupported(f"test with a side effect `{_src(s.test)[:60]}`")
            try:
                c, neg = self.propn(s.test, env)
            except (Opaque, Unsupported):
                if not D._strip(s.body) and not D._strip(s.orelse):
                    return self.block(rest, env, ind)
                raise Unsupported(f"cannot interpret the test `{_src(s.test)[:70]}`") from None
            if not D._strip(s.body) and not D._strip(s.orelse):
                return self.block(rest, env, ind)
            yes, no = (list(s.orelse), list(s.body)) if neg else (list(s.body), list(s.orelse))
            if c in ("true", "false"):  # statically known (a flag set on this path)
                return self.block((yes if c == "true" else no) + rest, env, ind)
            self.path.append((c, True))
            y = self.block(yes + rest, env, ind + "  ")
            self.path[-1] = (c, False)
            n_ = self.block(no + rest, env, ind + "  ")
            self.path.pop()
            return f"{ind}if {c} then\n" + y + f"{ind}else\n" + n_
        if isinstance(s, ast.Try):
            return self.try_(s, rest, env, ind)
        raise Unsupported(f"cannot interpret `{_src(s)[:70]}`")

    def try_(self, t: ast.Try, rest: list[ast.stmt], env: dict, ind: str) -> str:
        if self.task is None or not self.option:
            raise Unsupported("try statement outside a result loop")
        if t.finalbody:
            raise Unsupported("try/finally in a result loop")
        at = [i for i, s in enumerate(t.body) if isinstance(s, ast.Expr) and self.canon(s.value, env) == f"{self.task}.result()"]
        if len(at) != 1:
            raise Unsupported("try body without exactly one `<task>.result()`")
        pre, post = list(t.body[:at[0]]), list(t.body[at[0] + 1:])
        if any(isinstance(x, ast.Try) for s in pre + post for x in ast.walk(s)):
            raise Unsupported("nested try in a result loop")
        out = f"{ind}match oc with\n"
        for oc in OUTCOMES:
            out += f"{ind}| .{oc} =>\n"
            if oc == "ok":
                seq = pre + post + list(t.orelse) + rest
            else:
                body = None
                for h in t.handlers:
                    names = D._handler_names(h)
                    if names is None or any(nm in D.MRO[oc] for nm in names):
                        body = list(h.body)
                        break
                seq = pre + ([ast.Raise()] if body is None else body + rest)
            self.path.append(("oc", oc))
            out += self.block(seq, env, ind + "  ")
            self.path.pop()
        return out


# ------------------------------------------------------------------------------------------------ helpers
def _env(**vals: tuple[str, str]) -> dict:
    e: dict = dict(vals)
    e["$alias"] = {}
    return e


def _assigned(stmts: list[ast.stmt]) -> set[str]:
    """Names (re)bound or mutated in place by the statements."""
    out: set[str] = set()
    for s in stmts:
        for x in ast.walk(s):
            if isinstance(x, ast.Name) and isinstance(x.ctx, ast.Store):
                out.add(x.id)
            elif isinstance(x, ast.Subscript) and isinstance(x.ctx, ast.Store) and isinstance(x.value, ast.Name):
                out.add(x.value.id)
            elif isinstance(x, ast.Call) and isinstance(x.func, ast.Attribute) and x.func.attr in D.MUTATORS \
                    and isinstance(x.func.value, ast.Name):
                out.add(x.func.value.id)
    return out


def _prelude_values(tr: Tr, stmts: list[ast.stmt], names: list[str], what: str) -> list[tuple[str, str]]:
    """Values of `names` after the straight-line statements `stmts` (each a plain initialisation)."""
    env = _env()
    for s in stmts:
        if (isinstance(s, ast.Expr) and isinstance(s.value, ast.Constant)) or D._is_log(s) or isinstance(s, ast.Pass):
            continue
        if isinstance(s, (ast.Assign, ast.AnnAssign)) and s.value is not None:
            tg = s.targets[0] if isinstance(s, ast.Assign) else s.target
            if isinstance(tg, ast.Name) and (isinstance(s, ast.AnnAssign) or len(s.targets) == 1):
                if tg.id in names:
                    env[tg.id] = tr.tr(s.value, env)
                continue
        if isinstance(s, ast.AnnAssign) and s.value is None:
            continue
        if _assigned([s]) & set(names):
            raise Unsupported(f"{what}: `{_src(s)[:60]}` touches an accumulator before the loop")
    missing = [n for n in names if n not in env]
    if missing:
        raise Unsupported(f"{what}: no initial value for {missing}")
    return [env[n] for n in names]


def _tasks_from(fn: ast.AST, items_of: str, what: str) -> tuple[str, str, str, list[ast.stmt]]:
    """Find the dict of `set_power` tasks built from `<items_of>.items()`: returns (dict name, Lean first call argument,
    Lean second call argument, the statements that build it)."""
    for s in fn.body:
        comp = None
        if isinstance(s, (ast.Assign, ast.AnnAssign)) and isinstance(s.value, ast.DictComp):
            tg = s.targets[0] if isinstance(s, ast.Assign) else s.target
            c = s.value
            if isinstance(tg, ast.Name) and len(c.generators) == 1 and not c.generators[0].ifs and not c.generators[0].is_async:
                comp = (tg.id, c.generators[0].target, c.generators[0].iter, c.key, c.value, [s])
        if isinstance(s, ast.For) and not s.orelse and len(D._strip(s.body)) == 1:
            b = D._strip(s.body)[0]
            if isinstance(b, ast.Assign) and len(b.targets) == 1 and isinstance(b.targets[0], ast.Subscript) \
                    and isinstance(b.targets[0].value, ast.Name):
                comp = (b.targets[0].value.id, s.target, s.iter, b.targets[0].slice, b.value, [s])
        if comp is None:
            continue
        name, target, it, key, value, built = comp
        if not (isinstance(value, ast.Call) and _src(value.func) == "asyncio.create_task" and len(value.args) == 1):
            continue
        if _src(it) != f"{items_of}.items()" or not isinstance(target, ast.Tuple) or len(target.elts) != 2 \
                or not all(isinstance(e, ast.Name) for e in target.elts):
            raise Unsupported(f"{what}: tasks are not created from `{items_of}.items()`")
        k, v = (e.id for e in target.elts)
        if _src(key) != k:
            raise Unsupported(f"{what}: tasks are not keyed by the component id")
        call = value.args[0]
        if not (isinstance(call, ast.Call) and isinstance(call.func, ast.Attribute) and call.func.attr == "set_power"
                and len(call.args) == 2 and not call.keywords):
            raise Unsupported(f"{what}: the task is not `<api>.set_power(id, power)`")
        tr = Tr("step", [], {})
        env = _env(**{k: ("componentId", "Nat"), v: ("power", "Rat")})
        a0, t0 = tr.tr(call.args[0], env)
        a1, t1 = tr.tr(call.args[1], env)
        if t0 != "Nat":
            raise Unsupported(f"{what}: set_power is not addressed to a component id")
        return name, a0, tr.rat(a1, t1), built
    raise Unsupported(f"{what}: no dict of set_power tasks built from `{items_of}.items()`")


def _wait_and_cancel(cls: ast.ClassDef, fn: ast.AST, tasks: str, timeout_src: str, what: str) -> None:
    """`_, pending = await asyncio.wait(<tasks>.values(), timeout=<timeout>.total_seconds(), return_when=ALL_COMPLETED)`
    and the pending tasks are cancelled and awaited (inline loop + gather, or an async helper doing exactly that)."""
    waits = [s for s in fn.body if isinstance(s, ast.Assign) and isinstance(s.value, ast.Await)
             and isinstance(s.value.value, ast.Call) and _src(s.value.value.func) == "asyncio.wait"]
    if len(waits) != 1 or len([x for x in ast.walk(fn) if isinstance(x, ast.Call) and _src(x.func) == "asyncio.wait"]) != 1:
        raise Unsupported(f"{what}: exactly one `asyncio.wait` expected")
    w = waits[0]
    call = w.value.value
    kw = {k.arg: _src(k.value) for k in call.keywords}
    if [_src(a) for a in call.args] != [f"{tasks}.values()"] or kw.get("timeout") != f"{timeout_src}.total_seconds()" \
            or kw.get("return_when", "asyncio.ALL_COMPLETED") != "asyncio.ALL_COMPLETED" or set(kw) - {"timeout", "return_when"}:
        raise Unsupported(f"{what}: `asyncio.wait({tasks}.values(), timeout={timeout_src}.total_seconds(), ALL_COMPLETED)` expected")
    tg = w.targets[0]
    if not (isinstance(tg, ast.Tuple) and len(tg.elts) == 2 and isinstance(tg.elts[1], ast.Name)):
        raise Unsupported(f"{what}: `done, pending = await asyncio.wait(…)` expected")
    pending = tg.elts[1].id
    after = fn.body[fn.body.index(w) + 1:]

    def cancels(stmts: list[ast.stmt], var: str) -> bool:
        st = D._strip(stmts)
        return (len(st) >= 2 and isinstance(st[0], ast.For) and isinstance(st[0].target, ast.Name) and _src(st[0].iter) == var
                and [_src(x) for x in D._strip(st[0].body)] == [f"{st[0].target.id}.cancel()"] and not st[0].orelse
                and _src(st[1]).replace(" ", "") == f"awaitasyncio.gather(*{var},return_exceptions=True)")

    if cancels(after, pending):
        return
    st = D._strip(after)
    if st and isinstance(st[0], ast.Expr) and isinstance(st[0].value, ast.Await) and isinstance(st[0].value.value, ast.Call):
        c = st[0].value.value
        if isinstance(c.func, ast.Attribute) and _src(c.func.value) == "self" and [_src(a) for a in c.args] == [pending] and not c.keywords:
            helper = [m for m in cls.body if isinstance(m, ast.AsyncFunctionDef) and m.name == c.func.attr]
            if len(helper) == 1 and len(helper[0].args.args) == 2 and cancels(helper[0].body, helper[0].args.args[1].arg) \
                    and len(D._strip(helper[0].body)) == 2:
                return
    raise Unsupported(f"{what}: the tasks that did not answer in time are not cancelled and awaited right after the wait")


def _path_aliases(fn: ast.AST) -> dict[str, ast.expr]:
    """Locals assigned exactly once to a plain attribute path (`caches = self._component_data_caches`)."""
    return {k: v for k, v in D._single_assignments(fn).items()
            if isinstance(v, ast.Attribute) and all(isinstance(x, (ast.Name, ast.Attribute, ast.Load)) for x in ast.walk(v))}


def _resolved(fn: ast.AST, e: ast.expr) -> ast.expr:
    """A local that is assigned exactly once stands for its value (`ids = tracker.get_working_components(…)`)."""
    one = D._single_assignments(fn)
    seen = set()
    while isinstance(e, ast.Name) and e.id in one and e.id not in seen:
        seen.add(e.id)
        e = one[e.id]
    return e


def _top_loop(fn: ast.AST, pred, what: str) -> ast.For:
    loops = [s for s in fn.body if isinstance(s, ast.For) and pred(s)]
    if len(loops) != 1 or loops[0].orelse:
        raise Unsupported(f"{what}: exactly one such loop expected ({len(loops)} found)")
    return loops[0]


def _no_break(loop: ast.For, what: str) -> None:
    if D._contains(loop.body, (ast.Break, ast.Return, ast.Await, ast.Yield, ast.While, ast.For)):
        raise Unsupported(f"{what}: break / return / await / nested loop in the loop body")


# ------------------------------------------------------------------------------------------------ BatteryManager
def _battery(tree: ast.Module) -> dict[str, str]:
    cls = D._find_class(tree, "BatteryManager")
    out: dict[str, str] = {}
    # ---- _parse_result
    pr = D._inlined(cls, "_parse_result")
    tasks_p, dist_p = pr.args.args[1].arg, pr.args.args[2].arg
    loop = _top_loop(pr, lambda s: _src(s.iter) == f"{tasks_p}.items()", "_parse_result: loop over tasks.items()")
    _no_break(loop, "_parse_result")
    if not (isinstance(loop.target, ast.Tuple) and len(loop.target.elts) == 2 and all(isinstance(e, ast.Name) for e in loop.target.elts)):
        raise Unsupported("_parse_result: `for inverter_id, task in tasks.items()` expected")
    key, task = (e.id for e in loop.target.elts)
    i = pr.body.index(loop)
    tail = D._strip(pr.body[i + 1:])
    if len(tail) != 1 or not isinstance(tail[0], ast.Return) or not isinstance(tail[0].value, ast.Tuple) \
            or len(tail[0].value.elts) != 2 or not all(isinstance(e, ast.Name) for e in tail[0].value.elts):
        raise Unsupported("_parse_result: the loop must be followed by `return <power>, <batteries>` only")
    ret = [e.id for e in tail[0].value.elts]
    roles = {f"{dist_p}[{key}]": ("setPoint", "Rat"), f"self._inv_bats_map[{key}]": ("batteryIds", "Ids")}
    tr0 = Tr("step", [], roles)
    inits = dict(zip(ret, _prelude_values(tr0, pr.body[:i], ret, "_parse_result")))
    by_type = {t: n for n, (_, t) in inits.items()}
    if set(by_type) != {"Rat", "Ids"} and set(by_type) != {"Nat", "Ids"}:
        raise Unsupported("_parse_result: a number and a set are expected as accumulators")
    power_var = by_type.get("Rat", by_type.get("Nat"))
    set_var = by_type["Ids"]
    out["parse_ret_power_first"] = "true" if ret[0] == power_var else "false"
    out["parseInit"] = f"({Tr.rat(*inits[power_var])}, {inits[set_var][0]})"
    tr = Tr("step", [power_var, set_var], roles, task=task, option=True)
    env = _env(**{power_var: ("failedPower", "Rat"), set_var: ("failedBatteries", "Ids"), key: ("inverterId", "Nat")})
    out["parseStep"] = tr.block(list(loop.body), env, "  ")
    # ---- _set_distributed_power
    sd = D._inlined(cls, "_set_distributed_power", keep={"_parse_result"})
    dist_obj, timeout_p = sd.args.args[1].arg, sd.args.args[2].arg
    tasks, a0, a1, _ = _tasks_from(sd, f"{dist_obj}.distribution", "_set_distributed_power")
    out["batCall"] = f"({a0}, {a1})".replace("componentId", "inverterId").replace("power", "setPoint")
    _wait_and_cancel(cls, sd, tasks, timeout_p, "_set_distributed_power")
    rets = [s for s in ast.walk(sd) if isinstance(s, ast.Return)]
    if len(rets) != 1 or rets[0] is not sd.body[-1] or not isinstance(rets[0].value, ast.Call) \
            or _src(rets[0].value.func) != "self._parse_result" or rets[0].value.keywords \
            or [_src(a) for a in rets[0].value.args][:2] != [tasks, f"{dist_obj}.distribution"]:
        raise Unsupported("_set_distributed_power: must end in `return self._parse_result(tasks, distribution.distribution, …)`")
    # ---- _distribute_power
    dp = D._inlined(cls, "_distribute_power", keep={"_set_distributed_power", "_parse_result"})
    request, dist = dp.args.args[1].arg, dp.args.args[2].arg
    calls = [s for s in dp.body if isinstance(s, ast.Assign) and isinstance(s.value, ast.Await)
             and isinstance(s.value.value, ast.Call) and _src(s.value.value.func) == "self._set_distributed_power"]
    if len(calls) != 1 or len([x for x in ast.walk(dp) if isinstance(x, ast.Attribute) and x.attr == "_set_distributed_power"]) != 1:
        raise Unsupported("_distribute_power: exactly one `<a>, <b> = await self._set_distributed_power(…)` expected")
    c = calls[0]
    tg = c.targets[0]
    args = c.value.value.args
    if not (isinstance(tg, ast.Tuple) and len(tg.elts) == 2 and all(isinstance(e, ast.Name) for e in tg.elts)) \
            or c.value.value.keywords or [_src(a) for a in args] != [dist, "self._api_power_request_timeout"]:
        raise Unsupported("_distribute_power: `<a>, <b> = await self._set_distributed_power(distribution, self._api_power_request_timeout)` expected")
    first, second = (e.id for e in tg.elts)
    fp_name, fb_name = (first, second) if ret[0] == power_var else (second, first)
    j = dp.body.index(c)
    # the dict of set-points per battery: `for inv, w in distribution.distribution.items(): for bat in self._inv_bats_map[inv]: …`
    outer = _top_loop(dp, lambda s: _src(s.iter) == f"{dist}.distribution.items()" and dp.body.index(s) < j,
                      "_distribute_power: loop over distribution.distribution.items()")
    if not (isinstance(outer.target, ast.Tuple) and len(outer.target.elts) == 2 and all(isinstance(e, ast.Name) for e in outer.target.elts)):
        raise Unsupported("_distribute_power: `for inverter_id, power in distribution.distribution.items()` expected")
    inv, w = (e.id for e in outer.target.elts)
    ob = D._strip(outer.body)
    if len(ob) != 1 or not isinstance(ob[0], ast.For) or ob[0].orelse or not isinstance(ob[0].target, ast.Name) \
            or _src(ob[0].iter) != f"self._inv_bats_map[{inv}]":
        raise Unsupported("_distribute_power: `for battery_id in self._inv_bats_map[inverter_id]` expected inside")
    inner = ob[0]
    _no_break(inner, "_distribute_power (battery_distribution)")
    bd = sorted(_assigned(inner.body) - {inner.target.id})
    if len(bd) != 1:
        raise Unsupported(f"_distribute_power: the inner loop must update exactly one dict ({bd})")
    bd_name = bd[0]
    tr0 = Tr("step", [], {})
    if _prelude_values(tr0, dp.body[:dp.body.index(outer)], [bd_name], "_distribute_power")[0][1] != "Assoc":
        raise Unsupported("_distribute_power: battery_distribution must start as an empty dict")
    trd = Tr("step", [bd_name], {})
    envd = _env(**{bd_name: ("bd", "Assoc"), inner.target.id: ("batteryId", "Nat"), w: ("setPoint", "Rat"), inv: ("inverterId", "Nat")})
    out["batDistStep"] = trd.block(list(inner.body), envd, "  ")
    # everything else: prelude values (before the call) and the rest (after it)
    roles = {f"{request}.power": ("requestPower", "Rat"), f"{request}.power.as_watts()": ("requestPower", "Rat"),
             f"{dist}.remaining_power": ("remaining", "Rat")}
    trf = Tr("fun", [], roles, fields_ok=True, request=request, ret_fields=True)
    envf = _env(**{bd_name: ("batteryDistribution", "Assoc"), fp_name: ("failedPower", "Rat"), fb_name: ("failedBatteries", "Ids")})
    before = [s for s in dp.body[:j] if s is not outer and not (
        isinstance(s, (ast.Assign, ast.AnnAssign)) and _assigned([s]) == {bd_name})]
    out["batFinish"] = trf.block(before + list(dp.body[j + 1:]), envf, "  ")
    out["$finish"] = trf  # type: ignore[assignment]
    return out


# ------------------------------------------------------------------------------------------------ PVManager
def _pv(tree: ast.Module, assume_data: bool = False) -> dict[str, str]:
    cls = D._find_class(tree, "PVManager")
    out: dict[str, str] = {}
    # =========================================================== _set_api_power
    sp = D._inlined(cls, "_set_api_power")
    request, allocs_p, remaining_p = (a.arg for a in sp.args.args[1:4])
    tasks, a0, a1, built = _tasks_from(sp, allocs_p, "_set_api_power")
    out["pvCall"] = f"({a0}, {a1})"
    _wait_and_cancel(cls, sp, tasks, "self._api_power_request_timeout", "_set_api_power")
    loop = _top_loop(sp, lambda s: _src(s.iter) == f"{tasks}.items()", "_set_api_power: loop over tasks.items()")
    _no_break(loop, "_set_api_power")
    if not (isinstance(loop.target, ast.Tuple) and len(loop.target.elts) == 2 and all(isinstance(e, ast.Name) for e in loop.target.elts)):
        raise Unsupported("_set_api_power: `for component_id, task in tasks.items()` expected")
    key, task = (e.id for e in loop.target.elts)
    i = sp.body.index(loop)
    # roles of the accumulators: by the constructor keyword they reach
    pf = D._kwargs_of(sp, "PartialFailure")
    ok_ = D._kwargs_of(sp, "Success")
    if len(pf) != 1 or len(ok_) != 1:
        raise Unsupported("_set_api_power: one PartialFailure and one Success expected")
    if not all(isinstance(pf[0].get(k), ast.Name) for k in ("failed_components", "succeeded_components")):
        raise Unsupported("_set_api_power: component sets in the results are not plain collected sets")
    failed_set, succ_set = pf[0]["failed_components"].id, pf[0]["succeeded_components"].id
    carried_names = sorted(_assigned(loop.body) - {key, task})
    locals_in_body = {n for n in carried_names if n not in _assigned(sp.body[:i])}
    carried_names = [n for n in carried_names if n not in locals_in_body]
    others = [n for n in carried_names if n not in (failed_set, succ_set)]
    if failed_set not in carried_names or succ_set not in carried_names or len(others) != 1:
        raise Unsupported(f"_set_api_power: accumulators of the result loop: {carried_names}")
    power_var = others[0]
    roles = {f"{allocs_p}[{key}]": ("alloc", "Rat")}
    tr0 = Tr("step", [], roles)
    order = [failed_set, succ_set, power_var]
    inits = _prelude_values(tr0, [s for s in sp.body[:i] if s not in built], order, "_set_api_power")
    if [t for _, t in inits] != ["Ids", "Ids", "Rat"]:
        raise Unsupported("_set_api_power: accumulators must be two sets and a power")
    out["pvResultInit"] = "(" + ", ".join(v for v, _ in inits) + ")"
    tr = Tr("step", order, roles, task=task, option=True)
    env = _env(**{failed_set: ("failed", "Ids"), succ_set: ("succeeded", "Ids"), power_var: ("failedPower", "Rat"),
                  key: ("componentId", "Nat")})
    out["pvResultStep"] = tr.block(list(loop.body), env, "  ")
    froles = {f"{request}.power": ("requestPower", "Rat"), f"{request}.power.as_watts()": ("requestPower", "Rat"),
              "self._target_power": ("target", "Rat")}
    trf = Tr("fun", [], froles, fields_ok=True, request=request)
    envf = _env(**{failed_set: ("failed", "Ids"), succ_set: ("succeeded", "Ids"), power_var: ("failedPower", "Rat"),
                   remaining_p: ("remaining", "Rat")})
    out["pvFinish"] = trf.block(list(sp.body[i + 1:]), envf, "  ")
    out["$finish"] = trf  # type: ignore[assignment]
    # =========================================================== distribute_power
    dp = D._inlined(cls, "distribute_power", keep={"_set_api_power"})
    D._desugar(dp)
    req = dp.args.args[1].arg
    # the call of _set_api_power: last statement, binds (request, allocations, remaining)
    last = D._strip(dp.body)[-1]
    if not (isinstance(last, ast.Expr) and isinstance(last.value, ast.Await) and isinstance(last.value.value, ast.Call)
            and _src(last.value.value.func) == "self._set_api_power" and not last.value.value.keywords
            and len(last.value.value.args) == 3 and all(isinstance(a, ast.Name) for a in last.value.value.args)
            and last.value.value.args[0].id == req):
        raise Unsupported("distribute_power: must end in `await self._set_api_power(request, allocations, remaining_power)`")
    if len([x for x in ast.walk(dp) if isinstance(x, ast.Attribute) and x.attr == "_set_api_power"]) != 1:
        raise Unsupported("distribute_power: _set_api_power is called more than once")
    allocs, rem = last.value.value.args[1].id, last.value.value.args[2].id
    aloop = _top_loop(dp, lambda s: isinstance(s.iter, ast.Call) and _src(s.iter.func) == "enumerate",
                      "distribute_power: loop over enumerate(working_components)")
    _no_break(aloop, "distribute_power (allocation loop)")
    if len(aloop.iter.args) != 1 or aloop.iter.keywords or not isinstance(aloop.iter.args[0], ast.Name) \
            or not isinstance(aloop.target, ast.Tuple) or len(aloop.target.elts) != 2 \
            or not all(isinstance(e, ast.Name) for e in aloop.target.elts):
        raise Unsupported("distribute_power: `for idx, inv_id in enumerate(working_components)` expected")
    working = aloop.iter.args[0].id
    idx, inv = (e.id for e in aloop.target.elts)
    ia = dp.body.index(aloop)
    if [s for s in D._strip(dp.body[ia + 1:]) if s is not last]:
        raise Unsupported("distribute_power: statements between the allocation loop and the call of _set_api_power")
    # the filter loop: the (one) top-level loop before the sort that appends to `working`
    floop = _top_loop(dp, lambda s: dp.body.index(s) < ia and working in _assigned(s.body),
                      "distribute_power: loop that collects the working inverters")
    _no_break(floop, "distribute_power (filter loop)")
    if not isinstance(floop.target, ast.Name):
        raise Unsupported("distribute_power: `for inv_id in <working components>` expected")
    it = _resolved(dp, floop.iter)
    if not (isinstance(it, ast.Call) and isinstance(it.func, ast.Attribute) and it.func.attr == "get_working_components"
            and [_src(a) for a in it.args] == [f"{req}.component_ids"] and not it.keywords
            and _src(it.func.value) == "self._component_pool_status_tracker"):
        raise Unsupported("distribute_power: the candidates are not `self._component_pool_status_tracker.get_working_components(request.component_ids)`")
    fi = dp.body.index(floop)
    fv = floop.target.id
    # prelude: everything before the filter loop (no tracker -> empty Success / ValueError)
    pre_roles = {f"{req}.power": ("requestPower", "Rat"), f"{req}.power.as_watts()": ("requestPower", "Rat"),
                 "self._component_pool_status_tracker": ("hasTracker", "Bool"), f"{req}.component_ids": ("requestedIds", "Ids")}
    trp = Tr("fun", [], pre_roles, fields_ok=True, request=req)
    out["pvPrelude"] = trp.block(list(dp.body[:fi]), _env(), "  ")
    pre_vals = _prelude_values(Tr("step", [], pre_roles), [s for s in dp.body[:fi] if not isinstance(s, ast.If)],
                               [allocs, rem], "distribute_power")
    if pre_vals[0] != ("([] : List (Nat × Rat))", "Assoc") or pre_vals[1][1] != "Rat":
        raise Unsupported("distribute_power: allocations must start empty and the remaining power as a power")
    out["pvAllocInit"] = f"({pre_vals[0][0]}, {pre_vals[1][0]})"
    if [s for s in dp.body[:fi] if isinstance(s, ast.If) and ({allocs, rem, working} & _assigned([s]))]:
        raise Unsupported("distribute_power: the statements before the filter loop change the allocation state conditionally")
    froles2 = {f"self._component_data_caches[{fv}].has_value()": ("hasValue", "Bool")}
    if _prelude_values(Tr("step", [], {}), dp.body[:fi], [working], "distribute_power")[0] != ("([] : List Nat)", "Ids"):
        raise Unsupported("distribute_power: the list of working inverters must start empty")
    trw = Tr("step", [working], froles2)
    fenv = _env(**{working: ("working", "Ids"), fv: ("invId", "Nat")})
    fenv["$alias"] = dict(_path_aliases(dp))
    out["pvFilterStep"] = trw.block(list(floop.body), fenv, "  ")
    # between filter loop and allocation loop: the sort, `num = len(working)`, the abort test
    mid = list(dp.body[fi + 1:ia])
    sorts = [s for s in mid if isinstance(s, ast.Expr) and isinstance(s.value, ast.Call) and _src(s.value.func) == f"{working}.sort"]
    if len(sorts) != 1 or working in _assigned([s for s in mid if s is not sorts[0]]):
        raise Unsupported("distribute_power: one working_components.sort(...) expected between the two loops")
    kws = {k.arg: k.value for k in sorts[0].value.keywords}
    keyf = kws.get("key")
    if sorts[0].value.args or set(kws) - {"key", "reverse"} or not (isinstance(keyf, ast.Lambda) and len(keyf.args.args) == 1):
        raise Unsupported("distribute_power: sort(key=lambda …, reverse=…) expected")
    aliases = _path_aliases(dp)
    kcanon = D._canon(keyf.body, aliases)
    if kcanon != f"self._component_data_caches[{keyf.args.args[0].arg}].get().active_power_inclusion_lower_bound":
        raise Unsupported("distribute_power: sort key is not the inclusion lower bound of the cached inverter data")
    revn = kws.get("reverse")
    if revn is not None and not (isinstance(revn, ast.Constant) and isinstance(revn.value, bool)):
        raise Unsupported("distribute_power: sort reverse flag is not a constant")
    out["pvSortReverse"] = "true" if (revn is not None and revn.value) else "false"
    mroles = {f"len({working})": ("num", "Nat")}
    trm = Tr("fun", [], mroles)
    rest_mid = [s for s in mid if s is not sorts[0]]
    out["pvAbort"] = trm.block(rest_mid, _env(**{working: ("num", "Count")}), "  ")
    # names bound between the loops that the allocation loop reads: only `num = len(working)` is known
    nums = [s.targets[0].id for s in rest_mid if isinstance(s, ast.Assign) and len(s.targets) == 1
            and isinstance(s.targets[0], ast.Name) and _src(s.value) == f"len({working})"]
    # (assume_data: the tree specialised to an inverter that has data — what the model's allocation loop describes)
    aroles = {f"self._component_data_caches[{inv}].has_value()": (("true", "Bool") if assume_data else ("hasValue", "Bool")),
              f"self._component_data_caches[{inv}].get().active_power_inclusion_lower_bound": ("bound", "Rat"),
              f"len({working})": ("num", "Nat")}
    aenv = _env(**{allocs: ("allocations", "Assoc"), rem: ("remaining", "Rat"), idx: ("idx", "Nat"), inv: ("invId", "Nat")})
    for nm in nums:
        aenv[nm] = ("num", "Nat")
    aenv[working] = ("num", "Count")
    aenv["$alias"] = dict(aliases)
    if set(_assigned(aloop.body)) & {working, idx, inv}:
        raise Unsupported("distribute_power: the allocation loop changes its own iteration variables")
    tra = Tr("step", [allocs, rem], aroles)
    out["pvAllocStep"] = tra.block(list(aloop.body), aenv, "  ")
    out["$alloc"] = tra  # type: ignore[assignment]
    return out


# ------------------------------------------------------------------------------------------------ for distributor.py
# `distributor.py` reads single expressions out of the same functions with shape-bound matchers; where those refuse a
# (behaviour-preserving) rewrite it falls back on the translation: the expressions are read off the LEAVES of the
# translated decision tree, which do not depend on how the statements are arranged.
import re as _re


def _field_exprs(tr: Tr, cond: str, prefix: str, what: str) -> dict[str, str]:
    got: dict[bool, dict[str, str]] = {}
    for path, kind, payload in tr.leaves:
        if kind != "returns" or payload is None or list(path) not in ([(cond, True)], [(cond, False)]):
            raise Unsupported(f"{what}: the result is not selected by the emptiness of the failed set alone")
        d = tr.fields_reg[payload]
        pf = path[0][1]
        if (d["partialFailure"] == "true") != pf or (pf in got and got[pf] != d):
            raise Unsupported(f"{what}: result type does not follow the emptiness of the failed set")
        got[pf] = d
    if set(got) != {True, False}:
        raise Unsupported(f"{what}: one PartialFailure and one Success expected")

    def nm(x: str) -> str:
        return _re.sub(r"\bfailedPower\b", "failed", x)

    return {prefix + "PfSucceeded": nm(got[True]["succeededPower"]), prefix + "PfFailed": nm(got[True]["failedPower"]),
            prefix + "PfExcess": nm(got[True]["excess"]), prefix + "OkSucceeded": nm(got[False]["succeededPower"]),
            prefix + "OkExcess": nm(got[False]["excess"])}


def battery_field_exprs(tree: ast.Module) -> dict[str, str]:
    return _field_exprs(_battery(tree)["$finish"], "(failedBatteries ≠ [])", "bat", "_distribute_power")  # type: ignore[arg-type]


def pv_field_exprs(tree: ast.Module) -> dict[str, str]:
    return _field_exprs(_pv(tree)["$finish"], "(failed ≠ [])", "pv", "_set_api_power")  # type: ignore[arg-type]


SHARE = "(remaining / ((((num - idx : Nat)) : Nat) : Rat))"


def pv_loop_exprs(tree: ast.Module) -> dict[str, str]:
    """pvSkip / pvShare / pvAlloc from the leaves of the translated allocation step."""
    tra: Tr = _pv(tree, assume_data=True)["$alloc"]  # type: ignore[assignment]
    zero = ("(assocSet allocations invId (0 : Rat))",)
    same = ("remaining", "(remaining - (0 : Rat))")
    conds = {path[0][0] for path, _, _ in tra.leaves if path}
    if len(conds) != 1 or any(not path for path, _, _ in tra.leaves):
        raise Unsupported("distribute_power: the allocation loop does not start with one skip test")
    c = conds.pop()
    side: dict[bool, list] = {True: [], False: []}
    for path, kind, payload in tra.leaves:
        if kind != "next":
            raise Unsupported("distribute_power: the allocation loop can raise")
        side[path[0][1]].append((path[1:], payload))

    def all_zero(ls: list) -> bool:
        return bool(ls) and all(pl[0] in zero and pl[1] in same for _, pl in ls)

    if all_zero(side[True]) and not all_zero(side[False]):
        skip, work = c, side[False]
    elif all_zero(side[False]) and not all_zero(side[True]):
        skip, work = f"(¬ {c})", side[True]
    else:
        raise Unsupported("distribute_power: cannot tell the skip branch of the allocation loop")
    allocs = set()
    for path, pl in work:
        if list(path) in ([], [("(hasValue = true)", True)]):
            allocs.add((pl[0], pl[1]))
        elif list(path) == [("(hasValue = true)", False)] and pl[0] in zero and pl[1] in same:
            continue
        else:
            raise Unsupported("distribute_power: the allocation depends on something else than the inverter's data")
    if len(allocs) != 1:
        raise Unsupported("distribute_power: no unique allocation expression")
    stored, rem = allocs.pop()
    pre = "(assocSet allocations invId "
    if not (stored.startswith(pre) and stored.endswith(")")):
        raise Unsupported("distribute_power: the allocation is not stored for the inverter")
    a = stored[len(pre):-1]
    if rem != f"(remaining - {a})" or a.count(SHARE) != 1:
        raise Unsupported("distribute_power: `allocations[inv_id] = a; remaining_power -= a` with one share expression expected")
    return {"pvSkip": skip, "pvShare": "(remaining / (((num - idx : Nat) : Rat)))", "pvAlloc": a.replace(SHARE, "share")}


# ------------------------------------------------------------------------------------------------ output
PRELUDE = '''import Frequenz.Extracted.Distributor

set_option linter.unusedVariables false

namespace Extracted.ResultsLoops

open Extracted.Distributor (Outcome closeToZeroTol)

/-! ## Fixed vocabulary (not generated from the source) -/

/-- The fields of a `Success` (`partialFailure = false`, no failed power / components) or `PartialFailure`. -/
structure Fields where
  partialFailure : Bool
  succeededPower : Rat
  succeeded : List Nat
  failedPower : Rat
  failed : List Nat
  excess : Rat
deriving Repr, DecidableEq

/-- How a translated statement sequence ends: falls through to what follows, returns (with the result that was
sent / returned, if any), or raises. -/
inductive Exit
  | falls
  | returns (r : Option Fields)
  | raises
deriving Repr, DecidableEq

/-- `d.get(k, default)` on a dict seen as an association list. -/
def assocGetD : List (Nat × Rat) → Nat → Rat → Rat
  | [], _, d => d
  | (k', v) :: rest, k, d => if k' = k then v else assocGetD rest k d

/-- `d[k] = v`: replaces the value of an existing key in place, appends a new key at the end (insertion order). -/
def assocSet : List (Nat × Rat) → Nat → Rat → List (Nat × Rat)
  | [], k, v => [(k, v)]
  | (k', v') :: rest, k, v => if k' = k then (k', v) :: rest else (k', v') :: assocSet rest k v
'''


def generate(repo: pathlib.Path) -> str:
    try:
        return _generate(repo)
    except Opaque as e:
        raise Unsupported(f"no value in the model's vocabulary: {e}") from e


def _generate(repo: pathlib.Path) -> str:
    bat_tree = D._normalise_calls(ast.parse((repo / SOURCES[0]).read_text()))
    pv_tree = D._normalise_calls(ast.parse((repo / SOURCES[1]).read_text()))
    b = _battery(bat_tree)
    p = _pv(pv_tree)
    if b["parse_ret_power_first"] not in ("true", "false"):
        raise Unsupported("internal")
    return PRELUDE + f'''
/-! ## `BatteryManager._parse_result` -/

/-- The accumulators before the loop: (failed power, failed batteries). -/
def parseInit : Rat × List Nat := {b["parseInit"]}

/-- ONE iteration of `for inverter_id, task in tasks.items()`: `setPoint` = `distribution[inverter_id]`, `batteryIds` =
`self._inv_bats_map[inverter_id]`, `oc` = what `task.result()` does.  `none` = an exception escapes. -/
def parseStep (failedPower : Rat) (failedBatteries : List Nat) (inverterId : Nat) (setPoint : Rat) (batteryIds : List Nat)
    (oc : Outcome) : Option (Rat × List Nat) :=
{b["parseStep"]}
/-! ## `BatteryManager._set_distributed_power` -/

/-- The `set_power` call made for one item of `distribution.distribution`.  (Established by the extractor: one task per
item, keyed by the inverter id; all tasks are awaited together with the `timeout` parameter, those still pending are
cancelled and awaited; `_parse_result` receives these tasks and `distribution.distribution`.) -/
def batCall (inverterId : Nat) (setPoint : Rat) : Nat × Rat := {b["batCall"]}

/-! ## `BatteryManager._distribute_power` -/

/-- ONE iteration of the inner loop `for battery_id in self._inv_bats_map[inverter_id]` that builds the per-battery
dict (`setPoint` = the set-point of the inverter of the outer loop). -/
def batDistStep (bd : List (Nat × Rat)) (inverterId : Nat) (batteryId : Nat) (setPoint : Rat) : List (Nat × Rat) :=
{b["batDistStep"]}
/-- Everything but the per-battery dict and the call `await self._set_distributed_power(distribution,
self._api_power_request_timeout)`, whose two results are `failedPower` / `failedBatteries`. -/
def batFinish (requestPower remaining : Rat) (batteryDistribution : List (Nat × Rat)) (failedPower : Rat)
    (failedBatteries : List Nat) : Exit :=
{b["batFinish"]}
/-! ## `PVManager.distribute_power` -/

/-- The statements before the loop that collects the working inverters. -/
def pvPrelude (hasTracker : Bool) (requestedIds : List Nat) (requestPower : Rat) : Exit :=
{p["pvPrelude"]}
/-- (allocations, remaining power) before the allocation loop. -/
def pvAllocInit (requestPower : Rat) : List (Nat × Rat) × Rat := {p["pvAllocInit"]}

/-- ONE iteration of the loop over `get_working_components(request.component_ids)`; `hasValue` = the inverter's data
cache has a value. -/
def pvFilterStep (working : List Nat) (invId : Nat) (hasValue : Bool) : List Nat :=
{p["pvFilterStep"]}
/-- `working_components.sort(key = inclusion lower bound of the cached data, reverse = pvSortReverse)`. -/
def pvSortReverse : Bool := {p["pvSortReverse"]}

/-- The statements between the sort and the allocation loop (`num` = `len(working_components)`). -/
def pvAbort (num : Nat) : Exit :=
{p["pvAbort"]}
/-- ONE iteration of `for idx, inv_id in enumerate(working_components)`; `hasValue` / `bound` = what the inverter's
data cache holds (inclusion lower bound). -/
def pvAllocStep (num idx : Nat) (allocations : List (Nat × Rat)) (remaining : Rat) (invId : Nat) (hasValue : Bool)
    (bound : Rat) : List (Nat × Rat) × Rat :=
{p["pvAllocStep"]}
/-! ## `PVManager._set_api_power` -/

/-- The `set_power` call made for one item of `allocations` (one task per item; wait / cancel as for the batteries,
with `self._api_power_request_timeout`). -/
def pvCall (componentId : Nat) (power : Rat) : Nat × Rat := {p["pvCall"]}

/-- (failed components, succeeded components, failed power) before the result loop. -/
def pvResultInit : List Nat × List Nat × Rat := {p["pvResultInit"]}

/-- ONE iteration of `for component_id, task in tasks.items()`; `alloc` = `allocations[component_id]`. -/
def pvResultStep (failed succeeded : List Nat) (failedPower : Rat) (componentId : Nat) (alloc : Rat) (oc : Outcome) :
    Option (List Nat × List Nat × Rat) :=
{p["pvResultStep"]}
/-- The statements after the result loop (`target` = `self._target_power`). -/
def pvFinish (requestPower remaining target : Rat) (failed succeeded : List Nat) (failedPower : Rat) : Exit :=
{p["pvFinish"]}
end Extracted.ResultsLoops
'''
